"""C02.R2 - conservation of the pending-whitespace buffer Parser.current_ws (K4/K1 over the CFG)."""
from __future__ import annotations

import ast
import typing as T

from ..core import Undecided, attr_chain, norm, short, walk_no_nested, call_method
from ..cfg import CFG
from ..paths import enumerate_paths
from ..report import RuleCtx
from .c02_model import NodeModel, MPARSER, params_of, normal_methods

BUF = 'self.current_ws'


def _is_buf(e: ast.AST) -> bool:
    return attr_chain(e) == BUF


def _flush_loop(st: ast.AST, src: T.Callable[[ast.AST], bool]) -> T.Optional[str]:
    """`for w in <src>: X.append_whitespaces(w)` -> X (a local name), else None."""
    if not isinstance(st, ast.For) or not src(st.iter) or not isinstance(st.target, ast.Name) or st.orelse or len(st.body) != 1:
        return None
    b = st.body[0]
    if isinstance(b, ast.Expr) and isinstance(b.value, ast.Call) and call_method(b.value) == 'append_whitespaces' \
            and [norm(a) for a in list(b.value.args) + [k.value for k in b.value.keywords]] == [st.target.id] and isinstance(b.value.func, ast.Attribute) \
            and isinstance(b.value.func.value, ast.Name):
        return b.value.func.value.id
    return None


def _alias_flush(cfg: CFG, fn: ast.FunctionDef, reset: T.Any, alias: str, methods: T.Dict[str, ast.FunctionDef], primitive: str) -> T.Optional[str]:
    """After `alias = buffer; buffer = []`: the node X of the loop `for w in alias: X.append_whitespaces(w)` that every path from the
    reset to a return or to the next token-consuming call runs through (alias not rebound meanwhile); None if there is none."""
    loops = [n for n in cfg.nodes if n.kind == 'iter' and _flush_loop(n.ast, lambda e: isinstance(e, ast.Name) and e.id == alias)]
    rebinds = sum(1 for st in walk_no_nested(fn) for t in (st.targets if isinstance(st, ast.Assign) else [])
                  for x in ast.walk(t) if isinstance(x, ast.Name) and x.id == alias)
    if len(loops) < 1:
        return None
    cons = _consumers(methods, primitive)
    ends = [cfg.exit_return] + [n for n in cfg.nodes if n.expr() is not None and any(
        isinstance(c, ast.Call) and (attr_chain(c.func) or '').startswith('self.') and (attr_chain(c.func) or '')[5:] in cons for c in walk_no_nested(n.expr()))]
    for lp in loops:
        # the reset statement that belongs to this loop: the loop is the first thing after it
        if lp.id not in [b for b, _ in cfg.succ[reset.id]]:
            continue
        if all(e.id == lp.id or cfg.must_pass(reset, e, [lp]) for e in ends if cfg.can_reach(reset, e)):
            return _flush_loop(lp.ast, lambda e: True)
    return None


def _returned_by(methods: T.Dict[str, ast.FunctionDef], name: str, x: str, depth: int) -> str:
    """'' when the node `x` that received the pending whitespace in Parser.<name> is what the method returns, or - if `x` is a
    parameter - what every calling parser method passes and returns (followed through two levels of helpers)."""
    fn = methods[name]
    qn = f'Parser.{name}'
    ps = params_of(fn)[1:]
    rets = [r for r in walk_no_nested(fn) if isinstance(r, ast.Return) and r.value is not None]
    if x in ps and not any(isinstance(r.value, ast.Name) and r.value.id == x for r in rets):
        if rets:
            raise Undecided(f'{qn}: flushes into its parameter `{x}` and returns something else')
        if depth >= 2:
            raise Undecided(f'{qn}: flush helper nested more than two levels')
        idx = ps.index(x)
        for cname, cfn in methods.items():
            for c in walk_no_nested(cfn):
                if isinstance(c, ast.Call) and attr_chain(c.func) == f'self.{name}':
                    if c.keywords or idx >= len(c.args) or not isinstance(c.args[idx], ast.Name):
                        raise Undecided(f'Parser.{cname}: `{short(c)}`: the node handed to the flush helper is not a plain variable')
                    bad = _returned_by(methods, cname, c.args[idx].id, depth + 1)
                    if bad:
                        return f'(via `{short(c)}` in Parser.{cname}) ' + bad
        return ''
    if not rets or not all(isinstance(r.value, ast.Name) for r in rets):
        raise Undecided(f'{qn}: cannot tell whether the flushed node `{x}` is what `{short(rets[0]) if rets else "(no return)"}` returns')
    if not all(r.value.id == x for r in rets):  # type: ignore[union-attr]
        return f'flushes into `{x}`, which is not what every return statement of {qn} returns'
    return ''


def _consumers(methods: T.Dict[str, ast.FunctionDef], primitive: str) -> T.Set[str]:
    out = {primitive}
    changed = True
    while changed:
        changed = False
        for n, fn in methods.items():
            if n not in out and any(isinstance(c, ast.Call) and (attr_chain(c.func) or '').startswith('self.') and (attr_chain(c.func) or '')[5:] in out
                                    for c in walk_no_nested(fn)):
                out.add(n)
                changed = True
    return out


def _buffer_readers(methods: T.Dict[str, ast.FunctionDef], primitive: str) -> T.Set[str]:
    """Parser methods that (transitively) read the pending-whitespace buffer, other than the stream advance."""
    def reads(fn: ast.AST) -> bool:
        return any(isinstance(x, ast.Attribute) and attr_chain(x) == BUF and isinstance(x.ctx, ast.Load) for x in walk_no_nested(fn))
    out = {n for n, fn in methods.items() if n != primitive and reads(fn)}
    return out


def _unread_path(cfg: CFG, reset: T.Any, methods: T.Dict[str, ast.FunctionDef], primitive: str) -> T.Optional[str]:
    """Description of a point (function entry or a token-consuming call) from which `reset` can be reached without any node in
    between reading the buffer; None if every such path reads it (by a loop, a call taking it, or a helper that reads it)."""
    cons = _consumers(methods, primitive)
    helpers = _buffer_readers(methods, primitive)

    def calls(e: T.Optional[ast.AST], names: T.Set[str]) -> bool:
        return e is not None and any(isinstance(c, ast.Call) and (attr_chain(c.func) or '').startswith('self.') and (attr_chain(c.func) or '')[5:] in names
                                     for c in walk_no_nested(e))

    def reads(n: T.Any) -> bool:
        e = n.expr()
        if e is None or n.id == reset.id:
            return False
        roots = [n.ast.iter] if n.kind == 'iter' else [e]
        direct = any(isinstance(x, ast.Attribute) and attr_chain(x) == BUF and isinstance(x.ctx, ast.Load) for r in roots for x in walk_no_nested(r))
        return direct or calls(e, helpers - cons)
    readers = [n for n in cfg.nodes if reads(n)]
    starts = [(cfg.entry, 'the function entry')] + [(n, f'`{short(n.expr(), 50)}`') for n in cfg.nodes if n.id != reset.id and calls(n.expr(), cons)]
    for st, what in starts:
        if st in readers:
            continue
        if reset.id in cfg.reachable([st], avoid=readers):
            return what
    return None


def _check_tail(ctx: RuleCtx, mod: T.Any, methods: T.Dict[str, ast.FunctionDef], primitive: str, own_flush: T.Dict[str, T.List[ast.AST]],
                flush_helpers: T.Set[str]) -> None:
    """A method that flushes the pending whitespace into the node it returns (an accumulating block, the node wrapper) must do so
    after its last token-consuming call on every returning path: whatever the stream advance collected after the last flush would
    otherwise stay pending when the method returns - at the end of input it is never attached to anything."""
    cons = _consumers(methods, primitive)

    def calls(e: T.Optional[ast.AST], names: T.Set[str]) -> T.List[ast.Call]:
        return [c for c in (walk_no_nested(e) if e is not None else []) if isinstance(c, ast.Call) and (attr_chain(c.func) or '').startswith('self.')
                and (attr_chain(c.func) or '').count('.') == 1 and (attr_chain(c.func) or '')[5:] in names]
    n = 0
    for name, fn in methods.items():
        rets = [r for r in walk_no_nested(fn) if isinstance(r, ast.Return) and isinstance(r.value, ast.Name)]
        via_helper = [c for c in walk_no_nested(fn) if isinstance(c, ast.Call) and (attr_chain(c.func) or '')[5:] in flush_helpers
                      and (attr_chain(c.func) or '').startswith('self.') and c.args and rets and all(norm(c.args[0]) == r.value.id for r in rets)]  # type: ignore[union-attr]
        if name not in own_flush and not via_helper:
            continue
        cfg = CFG(fn)
        flushes = [nd for w in own_flush.get(name, []) for nd in cfg.stmt_nodes(w)] + [nd for c in via_helper for nd in cfg.node_containing(c)]
        starts = [nd for nd in cfg.nodes if nd not in flushes and calls(nd.expr(), cons - flush_helpers)]
        n += 1
        bad = [st for st in starts if cfg.exit_return.id in cfg.reachable([st], avoid=flushes, edge_ok=lambda a, b, lab: lab != 'exc')]
        qn = f'Parser.{name}'
        if bad:
            c0 = calls(bad[0].expr(), cons - flush_helpers)[0]
            ctx.violation(mod, qn, c0, f'after the token-consuming call `{short(c0)}` the method can return without flushing the pending-whitespace buffer '
                          f'into the node it returns (it does flush it elsewhere): whitespace/comments collected by that call stay pending, '
                          f'and at the end of the input they are never attached to the tree', c0)
        else:
            ctx.ok(f'{qn}: every returning path flushes the buffer after its last of {len(starts)} token-consuming statements')
    ctx.note(f'{n} method(s) flush the buffer into the node they return')


def check_keepers(ctx: RuleCtx, model: NodeModel) -> None:
    """Every path of every append_whitespaces (and of WhitespaceNode's accumulator) keeps the token text."""
    mod = model.mod
    n = 0
    for cname, c in model.classes.items():
        for fn in c.body:
            if not isinstance(fn, ast.FunctionDef) or fn.name not in ('append_whitespaces', 'append'):
                continue
            if fn.name == 'append' and not any(k.name == 'WhitespaceNode' for k in model.mro(cname)):
                continue
            tok = params_of(fn)[1]
            for p in enumerate_paths(fn.body, unroll=1):
                if p.outcome == 'raise':
                    continue
                kept = False
                for st in p.stmts():
                    for x in ast.walk(st):
                        if isinstance(x, ast.Call) and any(isinstance(a, ast.Name) and a.id == tok for a in x.args):
                            m = call_method(x)
                            if m in ('append_whitespaces', 'append') or m in model.classes and model.roles(m)[0][1] == 'tok':
                                kept = True
                        if isinstance(x, ast.AugAssign) and (attr_chain(x.target) or '').startswith('self.') and f'{tok}.value' in norm(x.value) \
                                and isinstance(x.op, ast.Add):
                            kept = True
                n += 1
                mentioned = any(isinstance(x, ast.Name) and x.id == tok for st in p.stmts() for x in ast.walk(st))
                overwritten = [x for st in p.stmts() for x in ast.walk(st) if isinstance(x, ast.Assign) and (attr_chain(x.targets[0]) or '').startswith('self.')
                               and f'{tok}.value' in norm(x.value) and norm(x.targets[0]) not in norm(x.value) and fn.name == 'append']
                if kept:
                    ctx.ok(f'{cname}.{fn.name}: whitespace token kept on path `{p.describe()}`')
                elif not mentioned:
                    ctx.violation(mod, f'{cname}.{fn.name}', fn, f'on the path `{p.describe()}` the whitespace token `{tok}` is not used at all: its text is lost', fn)
                elif overwritten:
                    ctx.violation(mod, f'{cname}.{fn.name}', overwritten[0], f'`{short(overwritten[0])}` replaces the accumulated whitespace text by the text of the last token', overwritten[0])
                else:
                    raise Undecided(f'{cname}.{fn.name}: how the path `{p.describe()}` keeps the whitespace token `{tok}` is not understood')
    ctx.floor('whitespace keeper paths', n, 6)


def check_buffer(ctx: RuleCtx, model: NodeModel, primitive: str, wrapper: str) -> None:
    mod = model.mod
    from .c02_model import split_parallel
    methods = {n_: split_parallel(f_) for n_, f_ in normal_methods(mod, 'Parser').items()}   # `p, self.buf = self.buf, []` read as two assignments
    resets = slices = 0
    own_flush: T.Dict[str, T.List[ast.AST]] = {}     # method -> reset statements that flush into its returned local
    flush_helpers: T.Set[str] = set()               # methods that flush into a parameter
    resetters: T.Set[str] = set()
    for name, fn in methods.items():
        for st in walk_no_nested(fn):
            if isinstance(st, (ast.Assign, ast.AugAssign, ast.AnnAssign)):
                tg = st.targets if isinstance(st, ast.Assign) else [st.target]
                if any(_is_buf(t) or (isinstance(t, ast.Subscript) and _is_buf(t.value)) for t in tg) and name != '__init__':
                    resetters.add(name)
    # transitive: who may reset the buffer
    changed = True
    while changed:
        changed = False
        for name, fn in methods.items():
            if name in resetters:
                continue
            for c in walk_no_nested(fn):
                if isinstance(c, ast.Call) and (attr_chain(c.func) or '').startswith('self.') and (attr_chain(c.func) or '')[5:] in resetters:
                    resetters.add(name)
                    changed = True
                    break
    for name, fn in methods.items():
        qn = f'Parser.{name}'
        # mutations of the buffer other than by the stream advance
        for c in walk_no_nested(fn):
            if isinstance(c, ast.Call) and isinstance(c.func, ast.Attribute) and _is_buf(c.func.value) \
                    and c.func.attr in ('append', 'extend', 'insert', 'pop', 'remove', 'clear', 'sort', 'reverse'):
                if name == primitive:
                    # inside the stream advance: the appended value must be the token just read (self.current or a local alias of it)
                    al = {norm(st.value) for st in walk_no_nested(fn) if isinstance(st, ast.Assign) and any(attr_chain(t) == 'self.current' for t in st.targets)}
                    al |= {norm(st.targets[0]) for st in walk_no_nested(fn) if isinstance(st, ast.Assign) and norm(st.value) == 'self.current'}
                    if not (c.func.attr == 'append' and c.args and (norm(c.args[0]) == 'self.current' or norm(c.args[0]) in al)):
                        raise Undecided(f'{qn}: `{short(c)}` inside the stream advance does not append the token just read in a recognised way')
                    ctx.ok(f'{qn}: `{short(c)}` appends the token just read')
                else:
                    ctx.violation(mod, qn, c, f'`{short(c)}` changes the pending-whitespace buffer outside the stream advance Parser.{primitive}', c)
            if isinstance(c, ast.Delete):
                raise Undecided(f'{qn}: del statement')
        writes = [st for st in walk_no_nested(fn) if isinstance(st, (ast.Assign, ast.AnnAssign, ast.AugAssign))
                  and any(_is_buf(t) for t in (st.targets if isinstance(st, ast.Assign) else [st.target]))]
        if not writes or name == '__init__':
            continue
        cfg = CFG(fn)
        for w in writes:
            val = w.value
            wn = cfg.stmt_nodes(w)
            if not wn:
                continue
            if isinstance(w, ast.AugAssign):
                raise Undecided(f'{qn}: `{short(w)}`')
            if isinstance(val, ast.List) and not val.elts:
                resets += 1
                ok, why = True, ''
                for node in wn:
                    for pid, lab in cfg.pred[node.id]:
                        pn = cfg.nodes[pid]
                        x = None
                        if pn.kind == 'stmt' and isinstance(pn.ast, ast.Assign) and isinstance(pn.ast.targets[0], ast.Name) and _is_buf(pn.ast.value):
                            # ownership moved to a local first: `L = buffer; buffer = []`, then L is flushed on every way on
                            x = _alias_flush(cfg, fn, node, pn.ast.targets[0].id, methods, primitive)
                            if x is None:
                                al = pn.ast.targets[0].id
                                users = [n_ for n_ in cfg.nodes if n_.id != pn.id and n_.expr() is not None and any(
                                    isinstance(y, ast.Name) and y.id == al and isinstance(y.ctx, ast.Load)
                                    for r_ in ([n_.ast.iter] if n_.kind == 'iter' else [n_.expr()]) for y in walk_no_nested(r_))]
                                if cfg.exit_return.id in cfg.reachable([node], avoid=users):
                                    ok, why = False, f'moves the pending tokens to `{al}`, which is never read again on a path to a return'
                                    continue
                                raise Undecided(f'{qn}: the pending whitespace is moved to `{al}`; how it is flushed from there is not a recognised loop')
                        if pn.kind == 'join' and isinstance(pn.ast, ast.For) and \
                                all(cfg.nodes[q].kind == 'iter' and cfg.nodes[q].ast is pn.ast and l2 == 'done' for q, l2 in cfg.pred[pn.id]):
                            x = _flush_loop(pn.ast, _is_buf)
                        if x is None:
                            lost = _unread_path(cfg, node, methods, primitive)
                            if lost is None:
                                raise Undecided(f'{qn}: the pending whitespace is read before `{short(w)}` in a way that is not a recognised flush loop')
                            ok, why = False, f'can be reached after {lost} without the buffer being read in between'
                            continue
                        # the receiving node is returned by this function; when it is a parameter (flush helper), by every caller
                        bad = _returned_by(methods, name, x, 0)
                        if x in params_of(fn)[1:]:
                            flush_helpers.add(name)
                        elif not bad:
                            own_flush.setdefault(name, []).append(w)
                        if x in params_of(fn)[1:]:
                            # a flush helper: every call of it is a flush point
                            resets += sum(1 for cfn in methods.values() for c in walk_no_nested(cfn)
                                          if isinstance(c, ast.Call) and attr_chain(c.func) == f'self.{name}') - 1
                        if bad:
                            ok, why = False, bad
                ctx.require(ok, f'{qn}: reset `{short(w)}` directly follows a flush of every pending token into the returned node', mod, qn, w,
                            f'the buffer reset `{short(w)}` {why}: pending whitespace/comments would be dropped', w)
            elif isinstance(val, ast.Subscript) and _is_buf(val.value) and isinstance(val.slice, ast.Slice) and val.slice.upper is None \
                    and val.slice.step is None and isinstance(val.slice.lower, ast.Call) and norm(val.slice.lower.func) == 'len' \
                    and isinstance(val.slice.lower.args[0], ast.Name):
                slices += 1
                _check_slice(ctx, model, fn, qn, cfg, w, val.slice.lower.args[0].id, resetters)
            else:
                raise Undecided(f'{qn}: buffer assignment `{short(w)}` is neither a reset nor a prefix slice')
    _check_tail(ctx, mod, methods, primitive, own_flush, flush_helpers)
    ctx.floor('buffer flush points (resets, or calls of a flush helper)', resets, 1)
    ctx.floor('buffer prefix slices', slices, 1)
    ctx.note(f'methods that may reset the buffer: {sorted(resetters)}')


def _check_slice(ctx: RuleCtx, model: NodeModel, fn: ast.FunctionDef, qn: str, cfg: CFG, w: ast.AST, pre: str, resetters: T.Set[str]) -> None:
    mod = model.mod
    wn = cfg.stmt_nodes(w)[0]
    defs = [s for s in walk_no_nested(fn) if isinstance(s, ast.Assign) and any(isinstance(t, ast.Name) and t.id == pre for t in s.targets)]
    ok = len(defs) == 1 and norm(defs[0].value) in (f'{BUF}.copy()', f'list({BUF})', f'{BUF}[:]')
    if not ok:
        raise Undecided(f'{qn}: `{pre}` is not a single snapshot of the buffer')
    dn = cfg.stmt_nodes(defs[0])[0]
    # (1) snapshot dominates the slice, and between them the buffer can only grow at the end
    dom = cfg.dominated_by_any(wn, [dn])
    between = cfg.reachable([dn], avoid=[wn]) & ({wn.id} | {n.id for n in cfg.nodes if cfg.can_reach(n, wn)})
    grows = True
    culprit = ''
    for nid in between:
        e = cfg.nodes[nid].expr()
        if e is None or nid == wn.id:
            continue
        for c in walk_no_nested(e):
            if isinstance(c, ast.Call) and (attr_chain(c.func) or '').startswith('self.') and (attr_chain(c.func) or '')[5:] in resetters:
                grows, culprit = False, short(c)
    ctx.require(dom and grows, f'{qn}: `{pre}` is a snapshot taken before the slice and the buffer only grows in between', mod, qn, w,
                f'`{short(w)}` removes len({pre}) leading tokens, but {"the snapshot does not dominate it" if not dom else f"`{culprit}` may reset the buffer in between"}', w)
    # (2) every path from the slice to a return replays the snapshot into a node T whose text is merged into a token value
    loops = [n for n in cfg.nodes if n.kind == 'iter' and _flush_loop(n.ast, lambda e: isinstance(e, ast.Name) and e.id == pre)]
    merges = []
    for n in cfg.nodes:
        st = n.ast
        if n.kind == 'stmt' and isinstance(st, (ast.Assign, ast.AugAssign)):
            tg = st.targets[0] if isinstance(st, ast.Assign) else st.target
            if isinstance(tg, ast.Attribute) and tg.attr == 'value' and isinstance(tg.value, ast.Name):
                for lp in loops:
                    x = _flush_loop(lp.ast, lambda e: True)
                    keeps_old = isinstance(st, ast.AugAssign) or norm(tg) in norm(st.value)
                    if f'{x}.whitespaces.value' in norm(st.value) and keeps_old:
                        merges.append((n, tg.value.id, lp))
    good = False
    why = 'no statement merges the replayed text into a token value'
    for mn, tokname, lp in merges:
        if not cfg.must_pass(wn, cfg.exit_return, [mn]):
            why = 'a path to a return skips the merge'
            continue
        if not cfg.must_pass(wn, mn, [lp]):
            why = 'the merge can be reached without replaying the snapshot'
            continue
        uses = [n for n in cfg.nodes if n.kind == 'stmt' and any(
            isinstance(c, ast.Call) and any(isinstance(a, ast.Name) and a.id == tokname for a in c.args)
            and ((call_method(c) in model.classes and 'tok' in [r for _, r in model.roles(call_method(c))]) or
                 (len(c.args) > 1 and isinstance(c.args[0], ast.Name) and c.args[0].id in model.classes and 'tok' in [r for _, r in model.roles(c.args[0].id)]))
            for c in walk_no_nested(n.ast))]
        if not uses or not cfg.must_pass(mn, cfg.exit_return, uses):
            why = f'the token `{tokname}` carrying the merged text is not turned into a node on every path to a return'
            continue
        good = True
    if good:
        ctx.ok(f'{qn}: the prefix removed by `{short(w)}` is replayed and merged into the operator token on every returning path')
        return
    # Not recognised.  A violation needs positive evidence: a returning path on which the removed prefix is not replayed in full,
    # or on which the node it was replayed into is never read again.
    def loads(n: T.Any, name: str) -> T.List[ast.AST]:
        e = n.expr()
        roots = ([n.ast.iter] if n.kind == 'iter' else [e]) if e is not None else []
        return [x for r in roots for x in walk_no_nested(r) if isinstance(x, ast.Name) and x.id == name and isinstance(x.ctx, ast.Load)]

    def partial(n: T.Any) -> bool:
        """reads of the snapshot that cannot replay it in full: len(pre), pre[<constant>]"""
        e = n.expr()
        par: T.Dict[int, ast.AST] = {}
        for x in (walk_no_nested(e) if e is not None else []):
            for ch in ast.iter_child_nodes(x):
                par[id(ch)] = x
        for x in loads(n, pre):
            p_ = par.get(id(x))
            if isinstance(p_, ast.Call) and norm(p_.func) == 'len':
                continue
            if isinstance(p_, ast.Subscript) and p_.value is x and isinstance(p_.slice, ast.Constant):
                continue
            return False
        return True
    full = [n for n in cfg.nodes if n.id != wn.id and loads(n, pre) and not partial(n)]
    if cfg.exit_return.id in cfg.reachable([wn], avoid=full):
        ctx.violation(mod, qn, 'removed prefix re-attached', f'`{short(w)}` drops len({pre}) pending tokens and a path to a return never replays the whole '
                      f'snapshot `{pre}` (it is not iterated or handed on in between)', w)
        return
    for lp in loops:
        x = _flush_loop(lp.ast, lambda e: True)
        body_ids = {id(y) for y in ast.walk(lp.ast)}
        readers = [n for n in cfg.nodes if any(id(y) not in body_ids for y in loads(n, x or ''))]
        after = [cfg.nodes[b] for b, lab in cfg.succ[lp.id] if lab == 'done']
        if cfg.exit_return.id in cfg.reachable(after, avoid=readers, include_start=True):
            ctx.violation(mod, qn, 'removed prefix re-attached', f'`{short(w)}` drops len({pre}) pending tokens; they are replayed into `{x}`, '
                          f'but a path to a return never reads `{x}` again: the text is lost', w)
            return
    raise Undecided(f'{qn}: how the prefix removed by `{short(w)}` is re-attached is not understood ({why})')
