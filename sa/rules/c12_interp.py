"""Helper of the C12 pack: a finite-domain evaluator for small repository functions.

The decision tables of C12 (`TestRun*.complete`, `process_test_result`, the timeout
table, `--slice`) are sequential state machines over one enum-valued field: an
atom such as `self.res == RUNNING` changes its meaning after `self.res = OK`, so a
table over unversioned atoms cannot express them.  This module evaluates the
*AST* of such a function (never the repository code itself) over a finite world:

  * tracked state has concrete values (enum members folded from the class body,
    small integers, None, booleans, strings, lists);
  * everything else is an opaque symbol `Sym`; a branch on an opaque symbol is a
    *free atom*: the driver `explore` re-runs the evaluation once per truth value,
    so every leaf is one consistent path (finite predicate abstraction, no solver);
  * `self.m()`, `super().m()`, properties and enum methods are resolved through
    the repository MRO and evaluated the same way (depth bounded);
  * any construct outside the subset, or an operation that mixes a concrete value
    with an unknown one in a way that cannot be decided, raises `Undecided`.

Ordering comparisons on concrete numbers are logged (`Interp.compares`) so that a
rule can confirm that its sample domain is exhaustive for the constants used.
"""
from __future__ import annotations

import ast
import typing as T

from ..core import Undecided, AnchorMissing, Module, Repo, norm, short, attr_chain, chains_in, decorator_names
from ..consteval import fold_expr, EnumMember


class Member:
    __slots__ = ('cls', 'name',)

    def __init__(self, cls: str, name: str):
        self.cls = cls
        self.name = name

    def __eq__(self, o: object) -> bool:
        return isinstance(o, Member) and self.cls == o.cls and self.name == o.name

    def __hash__(self) -> int:
        return hash((self.cls, self.name,))

    def __repr__(self) -> str:
        return f'{self.cls}.{self.name}'


class Sym:
    """An unknown value, named by the expression that produced it."""
    __slots__ = ('text', 'deps')

    def __init__(self, text: str, deps: T.Iterable[str] = ()):
        self.text = text
        self.deps = frozenset(deps)

    def __repr__(self) -> str:
        return f'?{self.text}'

    def __eq__(self, o: object) -> bool:
        return isinstance(o, Sym) and o.text == self.text

    def __hash__(self) -> int:
        return hash(('Sym', self.text))


class ClassRef:
    __slots__ = ('mod', 'node',)

    def __init__(self, mod: Module, node: ast.ClassDef):
        self.mod = mod
        self.node = node


class FuncRef:
    __slots__ = ('mod', 'node', 'env',)

    def __init__(self, mod: Module, node: T.Any, env: T.Optional[T.Dict[str, T.Any]] = None):
        # env: closure environment of a nested def / lambda
        self.mod = mod
        self.node = node
        self.env = env


class Builtin:
    __slots__ = ('name',)

    def __init__(self, name: str):
        self.name = name


class Obj:
    """A symbolic object with some concrete (tracked) attributes."""

    def __init__(self, name: str, cls: T.Optional[ClassRef] = None, attrs: T.Optional[T.Dict[str, T.Any]] = None):
        self.name = name
        self.cls = cls
        self.attrs: T.Dict[str, T.Any] = dict(attrs or {})

    def __repr__(self) -> str:
        return f'<{self.name}>'


class BoundMethod:
    __slots__ = ('fn', 'self_val', 'defcls', 'mod',)

    def __init__(self, fn: T.Any, self_val: T.Any, defcls: T.Optional[ClassRef], mod: Module):
        self.fn = fn
        self.self_val = self_val
        self.defcls = defcls
        self.mod = mod


class SuperRef:
    __slots__ = ('obj', 'after',)

    def __init__(self, obj: T.Any, after: ClassRef):
        self.obj = obj
        self.after = after


class TInt(int):
    """A sampled integer input that remembers which input it is (arithmetic results are plain numbers)."""
    tag: str

    def __new__(cls, v: int, tag: str) -> 'TInt':
        o = int.__new__(cls, v)
        o.tag = tag
        return o


class TFloat(float):
    tag: str

    def __new__(cls, v: float, tag: str) -> 'TFloat':
        o = float.__new__(cls, v)
        o.tag = tag
        return o


def tagged(v: T.Any, tag: str) -> T.Any:
    if isinstance(v, bool) or v is None:
        return v
    if isinstance(v, int):
        return TInt(v, tag)
    if isinstance(v, float):
        return TFloat(v, tag)
    return v


def tag_of(v: T.Any) -> T.Optional[str]:
    return getattr(v, 'tag', None) if isinstance(v, (TInt, TFloat)) else None


class NeedAtom(Exception):
    def __init__(self, key: str, text: str):
        super().__init__(key)
        self.key = key
        self.text = text


class _Return(Exception):
    def __init__(self, value: T.Any):
        self.value = value


class Raised(Exception):
    """The evaluated code raises exception class `name`."""

    def __init__(self, name: str, node: T.Optional[ast.AST] = None):
        super().__init__(name)
        self.name = name
        self.node = node


class _Break(Exception):
    pass


class _Continue(Exception):
    pass


class Frame:
    def __init__(self, mod: Module, env: T.Dict[str, T.Any], defcls: T.Optional[ClassRef], self_val: T.Any, depth: int):
        self.mod = mod
        self.env = env
        self.defcls = defcls
        self.self_val = self_val
        self.depth = depth
        self.exc: T.Optional[Raised] = None


BUILTINS = {'len', 'int', 'min', 'max', 'isinstance', 'print', 'str', 'bool', 'any', 'all', 'sum', 'sorted', 'list', 'set',
            'tuple', 'range', 'abs', 'super', 'float', 'dict', 'frozenset', 'enumerate', 'zip', 'repr', 'type'}
STR_METHODS = {'split', 'strip', 'startswith', 'endswith', 'upper', 'lower', 'format', 'join', 'replace', 'isdigit', 'lstrip', 'rstrip'}
LIST_MUTATORS = {'append', 'extend', 'insert', 'pop', 'remove', 'clear', 'add', 'update', 'discard', 'appendleft', 'popleft', 'sort', 'reverse', 'setdefault'}
CONCRETE = (bool, int, float, str, type(None), tuple, list, set, frozenset, dict, Member)
MAX_DEPTH = 5


def is_sym(v: T.Any) -> bool:
    return isinstance(v, Sym)


class Interp:
    def __init__(self, repo: Repo, atoms: T.Optional[T.Dict[str, bool]] = None, max_steps: int = 20000):
        self.repo = repo
        self.atoms = dict(atoms or {})
        self.used: T.Dict[str, bool] = {}          # free atoms consulted in this run: readable text -> value
        self.effects: T.List[str] = []             # opaque calls made, in order
        self.writes: T.Dict[str, int] = {}
        self.compares: T.List[T.Tuple[str, T.Any, T.Any]] = []
        self.steps = 0
        self.max_steps = max_steps
        self._enum_cache: T.Dict[str, T.Dict[str, Member]] = {}

    # -- free atoms -------------------------------------------------------
    def _version(self, deps: T.Iterable[str]) -> str:
        vs = []
        for d in sorted(deps):
            n = 0
            for w, c in self.writes.items():
                if d == w or d.startswith(w + '.') or w.startswith(d + '.'):
                    n += c
            if n:
                vs.append(f'{d}:{n}')
        return ('@' + ','.join(vs)) if vs else ''

    def atom(self, text: str, deps: T.Iterable[str] = ()) -> bool:
        key = text + self._version(deps)
        if key not in self.atoms:
            raise NeedAtom(key, text)
        self.used[key] = self.atoms[key]
        return self.atoms[key]

    def truth(self, v: T.Any) -> bool:
        if isinstance(v, Sym):
            return self.atom(v.text, v.deps)
        if isinstance(v, (Obj, ClassRef, FuncRef, Member, Builtin, BoundMethod)):
            return True
        return bool(v)

    def _bump(self, chain: T.Optional[str]) -> None:
        if chain:
            self.writes[chain] = self.writes.get(chain, 0) + 1

    # -- class helpers ----------------------------------------------------
    def is_enum(self, c: ClassRef) -> bool:
        for b in c.node.bases:
            n = attr_chain(b) or ''
            if n.split('.')[-1] in ('Enum', 'IntEnum', 'Flag', 'IntFlag', 'StrEnum'):
                return True
        return False

    def enum_members(self, c: ClassRef) -> T.Dict[str, Member]:
        key = f'{c.mod.rel}:{c.node.name}'
        if key not in self._enum_cache:
            out: T.Dict[str, Member] = {}
            for st in c.node.body:
                if isinstance(st, ast.Assign) and len(st.targets) == 1 and isinstance(st.targets[0], ast.Name) and not st.targets[0].id.startswith('_'):
                    out[st.targets[0].id] = Member(c.node.name, st.targets[0].id)
            self._enum_cache[key] = out
        return self._enum_cache[key]

    def _cache(self) -> T.Dict[T.Any, T.Any]:
        return self.repo.__dict__.setdefault('_c12_cache', {})

    def mro(self, c: ClassRef) -> T.List[T.Tuple[Module, ast.ClassDef]]:
        ca = self._cache()
        key = ('mro', c.mod.rel, id(c.node))
        if key not in ca:
            ca[key] = self.repo.mro(c.mod, c.node)
        return ca[key]

    def find_method(self, c: ClassRef, name: str, after: T.Optional[ClassRef] = None) -> T.Optional[T.Tuple[ClassRef, T.Any]]:
        started = after is None
        for m, k in self.mro(c):
            if not started:
                if k is after.node:  # type: ignore[union-attr]
                    started = True
                continue
            for st in k.body:
                if isinstance(st, (ast.FunctionDef, ast.AsyncFunctionDef)) and st.name == name:
                    return ClassRef(m, k), st
        return None

    def class_of(self, mod: Module, name: str) -> ClassRef:
        ca = self._cache()
        key = ('cls', mod.rel, name)
        if key not in ca:
            ca[key] = self.repo.resolve_class(mod, name)
        r = ca[key]
        if r is None:
            raise AnchorMissing(f'{mod.rel}: class {name} not found')
        return ClassRef(r[0], r[1])

    def try_class(self, mod: Module, name: str) -> T.Optional[ClassRef]:
        try:
            return self.class_of(mod, name)
        except AnchorMissing:
            return None

    # -- calling ----------------------------------------------------------
    def call_function(self, fn: T.Any, args: T.List[T.Any], kwargs: T.Dict[str, T.Any], self_val: T.Any,
                      defcls: T.Optional[ClassRef], mod: Module, depth: int, closure: T.Optional[T.Dict[str, T.Any]] = None) -> T.Any:
        if depth > MAX_DEPTH:
            raise Undecided(f'evaluation deeper than {MAX_DEPTH} calls at {getattr(fn, "name", "<lambda>")}')
        env: T.Dict[str, T.Any] = dict(closure or {})
        a = fn.args
        params = [p.arg for p in a.posonlyargs + a.args]
        vals = list(args)
        if self_val is not None and params and 'staticmethod' not in decorator_names(fn):
            vals = [self_val] + vals
        if len(vals) > len(params) and a.vararg is None:
            raise Undecided(f'too many arguments for {getattr(fn, "name", "<lambda>")}')
        for p, v in zip(params, vals):
            env[p] = v
        if a.vararg is not None:
            env[a.vararg.arg] = tuple(vals[len(params):])
        frame = Frame(mod, env, defcls, self_val, depth)
        defaults = dict(zip(params[len(params) - len(a.defaults):], a.defaults))
        for k in a.kwonlyargs:
            params.append(k.arg)
        for k, d in zip(a.kwonlyargs, a.kw_defaults):
            if d is not None:
                defaults[k.arg] = d
        for k, v in kwargs.items():
            if k not in params:
                raise Undecided(f'unknown keyword {k} for {getattr(fn, "name", "<lambda>")}')
            env[k] = v
        for p in params:
            if p not in env:
                if p in defaults:
                    env[p] = self.eval(defaults[p], Frame(mod, {}, None, None, depth))
                else:
                    raise Undecided(f'missing argument {p} for {getattr(fn, "name", "<lambda>")}')
        if isinstance(fn, ast.Lambda):
            return self.eval(fn.body, frame)
        try:
            self.exec_block(fn.body, frame)
        except _Return as r:
            return r.value
        return None

    def call_method(self, obj: Obj, name: str, *args: T.Any, **kwargs: T.Any) -> T.Any:
        """Entry point: evaluate `obj.name(*args)` with obj's dynamic class."""
        if obj.cls is None:
            raise Undecided(f'{obj.name} has no class')
        r = self.find_method(obj.cls, name)
        if r is None:
            raise AnchorMissing(f'{obj.cls.node.name}.{name} not found')
        return self.call_function(r[1], list(args), dict(kwargs), obj, r[0], r[0].mod, 0)

    # -- statements ---------------------------------------------------------
    def _tick(self) -> None:
        self.steps += 1
        if self.steps > self.max_steps:
            raise Undecided('evaluation does not terminate within the step bound')

    def exec_block(self, body: T.List[ast.stmt], fr: Frame) -> None:
        for st in body:
            self.exec_stmt(st, fr)

    def run_body(self, body: T.List[ast.stmt], fr: Frame) -> T.Tuple[str, T.Any]:
        """Evaluate a statement list that may `return`: ('return', value) or ('fall', None)."""
        try:
            self.exec_block(body, fr)
        except _Return as r:
            return ('return', r.value)
        return ('fall', None)

    def exec_stmt(self, st: ast.stmt, fr: Frame) -> None:
        self._tick()
        if isinstance(st, ast.Expr):
            if isinstance(st.value, ast.Constant):
                return
            self.eval(st.value, fr)
            return
        if isinstance(st, ast.Assign):
            v = self.eval(st.value, fr)
            for t in st.targets:
                self.assign(t, v, fr)
            return
        if isinstance(st, ast.AnnAssign):
            if st.value is not None:
                self.assign(st.target, self.eval(st.value, fr), fr)
            return
        if isinstance(st, ast.AugAssign):
            load = _as_load(st.target)
            cur = self.eval(load, fr)
            v = self.binop(st.op, cur, self.eval(st.value, fr), st)
            self.assign(st.target, v, fr)
            return
        if isinstance(st, ast.If):
            if self.truth(self.eval(st.test, fr)):
                self.exec_block(st.body, fr)
            else:
                self.exec_block(st.orelse, fr)
            return
        if isinstance(st, ast.Return):
            raise _Return(self.eval(st.value, fr) if st.value is not None else None)
        if isinstance(st, ast.Raise):
            if st.exc is None:
                if fr.exc is not None:
                    raise Raised(fr.exc.name, st)
                raise Undecided('bare raise outside a handler')
            e = st.exc.func if isinstance(st.exc, ast.Call) else st.exc
            name = (attr_chain(e) or short(e)).split('.')[-1]
            raise Raised(name, st)
        if isinstance(st, ast.Pass) or isinstance(st, (ast.Global, ast.Nonlocal, ast.Import, ast.ImportFrom)):
            return
        if isinstance(st, ast.Assert):
            if not self.truth(self.eval(st.test, fr)):
                raise Raised('AssertionError', st)
            return
        if isinstance(st, ast.Break):
            raise _Break()
        if isinstance(st, ast.Continue):
            raise _Continue()
        if isinstance(st, (ast.FunctionDef, ast.AsyncFunctionDef)):
            fr.env[st.name] = FuncRef(fr.mod, st, fr.env)
            return
        if isinstance(st, (ast.For, ast.AsyncFor)):
            self.exec_for(st, fr)
            return
        if isinstance(st, ast.While):
            broke = False
            while self.truth(self.eval(st.test, fr)):
                self._tick()
                try:
                    self.exec_block(st.body, fr)
                except _Break:
                    broke = True
                    break
                except _Continue:
                    continue
            if not broke:
                self.exec_block(st.orelse, fr)
            return
        if isinstance(st, (ast.With, ast.AsyncWith)):
            for i in st.items:
                v = self.eval(i.context_expr, fr)
                if i.optional_vars is not None:
                    self.assign(i.optional_vars, v if not isinstance(v, CONCRETE) else Sym(norm(i.context_expr)), fr)
            self.exec_block(st.body, fr)
            return
        if isinstance(st, ast.Try):
            self.exec_try(st, fr)
            return
        if isinstance(st, ast.Delete):
            for t in st.targets:
                self._bump(attr_chain(t.value if isinstance(t, ast.Subscript) else t))
            return
        raise Undecided(f'statement outside the evaluated subset: {short(st)}')

    def exec_for(self, st: T.Union[ast.For, ast.AsyncFor], fr: Frame) -> None:
        it = self.eval(st.iter, fr)
        if isinstance(it, Sym):
            # opaque loop: allowed only when it is a pure notification loop (calls, no state writes)
            for n in ast.walk(ast.Module(body=st.body, type_ignores=[])):
                if isinstance(n, (ast.Return, ast.Raise, ast.Break, ast.Assign, ast.AugAssign, ast.AnnAssign, ast.Delete)):
                    raise Undecided(f'loop over an unknown collection changes state: {short(st)}')
            calls = [norm(n) for n in ast.walk(ast.Module(body=st.body, type_ignores=[])) if isinstance(n, ast.Call)]
            self.effects.append(f'for {norm(st.target)} in {norm(st.iter)}: ' + '; '.join(calls))
            return
        if isinstance(it, dict):
            it = list(it.keys())
        if isinstance(it, (set, frozenset)):
            it = sorted(it, key=repr)
        if not isinstance(it, (list, tuple, range, str)):
            raise Undecided(f'cannot iterate {short(st.iter)}')
        broke = False
        for item in list(it):
            self._tick()
            self.assign(st.target, item, fr)
            try:
                self.exec_block(st.body, fr)
            except _Break:
                broke = True
                break
            except _Continue:
                continue
        if not broke:
            self.exec_block(st.orelse, fr)

    def exec_try(self, st: ast.Try, fr: Frame) -> None:
        try:
            try:
                self.exec_block(st.body, fr)
            except Raised as r:
                for h in st.handlers:
                    if self._handler_matches(h, r.name):
                        if h.name:
                            fr.env[h.name] = Sym(h.name)
                        saved = fr.exc
                        fr.exc = r
                        try:
                            self.exec_block(h.body, fr)
                        finally:
                            fr.exc = saved
                        break
                else:
                    raise
            else:
                self.exec_block(st.orelse, fr)
        finally:
            if st.finalbody:
                self.exec_block(st.finalbody, fr)

    @staticmethod
    def _handler_matches(h: ast.ExceptHandler, name: str) -> bool:
        if h.type is None:
            return True
        types = h.type.elts if isinstance(h.type, ast.Tuple) else [h.type]
        for t in types:
            n = (attr_chain(t) or '').split('.')[-1]
            if n == name or n == 'BaseException':
                return True
            if n == 'Exception' and name not in ('SystemExit', 'KeyboardInterrupt', 'CancelledError', 'GeneratorExit'):
                return True
        return False

    def assign(self, t: ast.AST, v: T.Any, fr: Frame) -> None:
        if isinstance(t, ast.Name):
            fr.env[t.id] = v
            self._bump(t.id)
            return
        if isinstance(t, ast.Attribute):
            base = self.eval(t.value, fr)
            self._bump(attr_chain(t))
            if isinstance(base, Obj):
                base.attrs[t.attr] = v
            elif isinstance(base, Sym):
                pass
            else:
                raise Undecided(f'assignment to attribute of a concrete value: {short(t)}')
            return
        if isinstance(t, (ast.Tuple, ast.List)):
            if isinstance(v, Sym):
                for i, e in enumerate(t.elts):
                    self.assign(e, Sym(f'{v.text}[{i}]', v.deps), fr)
                return
            if isinstance(v, (tuple, list)) and len(v) == len(t.elts) and not any(isinstance(e, ast.Starred) for e in t.elts):
                for e, x in zip(t.elts, v):
                    self.assign(e, x, fr)
                return
            if isinstance(v, (tuple, list)):
                raise Raised('ValueError', t)
            raise Undecided(f'cannot unpack into {short(t)}')
        if isinstance(t, ast.Subscript):
            base = self.eval(t.value, fr)
            self._bump(attr_chain(t.value))
            if isinstance(base, (list, dict)):
                idx = self.eval(t.slice, fr)
                if isinstance(idx, Sym):
                    raise Undecided(f'store at unknown index: {short(t)}')
                try:
                    base[idx] = v
                except (IndexError, KeyError, TypeError) as e:
                    raise Raised(e.__class__.__name__, t)
            elif not isinstance(base, Sym):
                raise Undecided(f'cannot store into {short(t)}')
            return
        raise Undecided(f'assignment target outside the subset: {short(t)}')

    # -- expressions ----------------------------------------------------------
    def eval(self, e: ast.AST, fr: Frame) -> T.Any:
        self._tick()
        m = getattr(self, 'e_' + e.__class__.__name__, None)
        if m is None:
            raise Undecided(f'expression outside the evaluated subset: {short(e)}')
        return m(e, fr)

    def e_Constant(self, e: ast.Constant, fr: Frame) -> T.Any:
        return e.value

    def e_Name(self, e: ast.Name, fr: Frame) -> T.Any:
        if e.id in fr.env:
            return fr.env[e.id]
        return self.global_name(e.id, fr.mod)

    def global_name(self, name: str, mod: Module) -> T.Any:
        if mod.has_cls(name):
            return ClassRef(mod, mod.cls(name))
        if mod.has_func(name):
            return FuncRef(mod, mod.func(name))
        if mod.has_assign(name):
            try:
                v = fold_expr(self.repo, mod, mod.assign_value(name))
            except Undecided:
                return Sym(name)
            return self._from_folded(v, name)
        if name in BUILTINS:
            return Builtin(name)
        r = self.try_class(mod, name)
        if r is not None:
            return r
        return Sym(name)

    def _from_folded(self, v: T.Any, name: str) -> T.Any:
        if isinstance(v, EnumMember):
            return Member(v.cls, v.name)
        if isinstance(v, (bool, int, float, str, type(None))):
            return v
        if isinstance(v, (tuple, list, set, frozenset)):
            items = [self._from_folded(x, name) for x in v]
            if any(isinstance(x, Sym) for x in items):
                return Sym(name)
            return type(v)(items)
        return Sym(name)

    def e_Attribute(self, e: ast.Attribute, fr: Frame) -> T.Any:
        base = self.eval(e.value, fr)
        return self.getattr(base, e.attr, e, fr)

    def getattr(self, base: T.Any, attr: str, e: ast.AST, fr: Frame) -> T.Any:
        if isinstance(base, Obj):
            if attr in base.attrs:
                return base.attrs[attr]
            if base.cls is not None:
                r = self.find_method(base.cls, attr)
                if r is not None:
                    decs = decorator_names(r[1])
                    if 'property' in decs:
                        return self.call_function(r[1], [], {}, base, r[0], r[0].mod, fr.depth + 1)
                    return BoundMethod(r[1], base if 'staticmethod' not in decs else None, r[0], r[0].mod)
                # class-level constant
                for m, k in self.mro(base.cls):
                    if m.has_assign(attr, k):
                        try:
                            return self._from_folded(fold_expr(self.repo, m, m.assign_value(attr, k)), attr)
                        except Undecided:
                            break
            return Sym(f'{base.name}.{attr}', [f'{base.name}.{attr}'])
        if isinstance(base, Sym):
            return Sym(f'{base.text}.{attr}', set(base.deps) | {f'{base.text}.{attr}'})
        if isinstance(base, ClassRef):
            if self.is_enum(base):
                mem = self.enum_members(base)
                if attr in mem:
                    return mem[attr]
            r = self.find_method(base, attr)
            if r is not None:
                return BoundMethod(r[1], None, r[0], r[0].mod)
            for m, k in self.mro(base):
                if m.has_assign(attr, k):
                    try:
                        return self._from_folded(fold_expr(self.repo, m, m.assign_value(attr, k)), attr)
                    except Undecided:
                        break
            return Sym(f'{base.node.name}.{attr}')
        if isinstance(base, Member):
            if attr == 'name':
                return base.name
            if attr == 'value':
                c = self._member_class(base, fr)
                for st in c.node.body:
                    if isinstance(st, ast.Assign) and isinstance(st.targets[0], ast.Name) and st.targets[0].id == base.name:
                        try:
                            return self._from_folded(fold_expr(self.repo, c.mod, st.value), attr)
                        except Undecided:
                            return Sym(f'{base!r}.value')
            c = self._member_class(base, fr)
            r = self.find_method(c, attr)
            if r is not None:
                decs = decorator_names(r[1])
                if 'property' in decs:
                    return self.call_function(r[1], [], {}, base, r[0], r[0].mod, fr.depth + 1)
                return BoundMethod(r[1], base if 'staticmethod' not in decs else None, r[0], r[0].mod)
            raise Undecided(f'unknown attribute {attr} of enum member {base!r}')
        if isinstance(base, SuperRef):
            obj = base.obj
            cls = obj.cls if isinstance(obj, Obj) else None
            if cls is None:
                raise Undecided('super() on an object without class')
            r = self.find_method(cls, attr, after=base.after)
            if r is None:
                return Sym(f'super().{attr}')
            return BoundMethod(r[1], obj, r[0], r[0].mod)
        if isinstance(base, (str, list, tuple, dict, set, frozenset)):
            return BoundMethod(attr, base, None, fr.mod)   # builtin method of a concrete value
        raise Undecided(f'attribute {attr} of a concrete value in {short(e)}')

    def _member_class(self, m: Member, fr: Frame) -> ClassRef:
        return self.class_of(fr.mod, m.cls)

    def e_BoolOp(self, e: ast.BoolOp, fr: Frame) -> T.Any:
        is_and = isinstance(e.op, ast.And)
        v: T.Any = None
        for x in e.values:
            v = self.eval(x, fr)
            t = self.truth(v)
            if is_and and not t:
                return v
            if not is_and and t:
                return v
        return v

    def e_UnaryOp(self, e: ast.UnaryOp, fr: Frame) -> T.Any:
        v = self.eval(e.operand, fr)
        if isinstance(e.op, ast.Not):
            return not self.truth(v)
        if isinstance(v, Sym):
            return Sym(norm(e), v.deps)
        if isinstance(v, (int, float)) and not isinstance(v, bool) or isinstance(v, bool):
            if isinstance(e.op, ast.USub):
                return -v
            if isinstance(e.op, ast.UAdd):
                return +v
        raise Undecided(f'cannot evaluate {short(e)}')

    def e_IfExp(self, e: ast.IfExp, fr: Frame) -> T.Any:
        return self.eval(e.body, fr) if self.truth(self.eval(e.test, fr)) else self.eval(e.orelse, fr)

    def e_Tuple(self, e: ast.Tuple, fr: Frame) -> T.Any:
        return tuple(self.eval(x, fr) for x in e.elts)

    def e_List(self, e: ast.List, fr: Frame) -> T.Any:
        return [self.eval(x, fr) for x in e.elts]

    def e_Set(self, e: ast.Set, fr: Frame) -> T.Any:
        vals = [self.eval(x, fr) for x in e.elts]
        if any(isinstance(v, Sym) for v in vals):
            return Sym(norm(e), chains_in(e))
        try:
            return set(vals)
        except TypeError:
            raise Undecided(f'unhashable element in {short(e)}')

    def e_Dict(self, e: ast.Dict, fr: Frame) -> T.Any:
        out: T.Dict[T.Any, T.Any] = {}
        for k, v in zip(e.keys, e.values):
            if k is None:
                raise Undecided(f'dict unpacking in {short(e)}')
            kk = self.eval(k, fr)
            if isinstance(kk, Sym):
                return Sym(norm(e), chains_in(e))
            out[kk] = self.eval(v, fr)
        return out

    def e_JoinedStr(self, e: ast.JoinedStr, fr: Frame) -> T.Any:
        parts: T.List[str] = []
        for v in e.values:
            if isinstance(v, ast.Constant):
                parts.append(str(v.value))
                continue
            assert isinstance(v, ast.FormattedValue)
            x = self.eval(v.value, fr)
            spec = ''
            if v.format_spec is not None:
                s = self.eval(v.format_spec, fr)
                if not isinstance(s, str):
                    return Sym(norm(e), chains_in(e))
                spec = s
            if not isinstance(x, (int, float, str, bool, type(None))):
                return Sym(norm(e), chains_in(e))
            if v.conversion == ord('r'):
                x = repr(x)
            elif v.conversion == ord('s'):
                x = str(x)
            try:
                parts.append(format(x, spec))
            except (ValueError, TypeError):
                return Sym(norm(e), chains_in(e))
        return ''.join(parts)

    def e_Await(self, e: ast.Await, fr: Frame) -> T.Any:
        return self.eval(e.value, fr)

    def e_Lambda(self, e: ast.Lambda, fr: Frame) -> T.Any:
        return FuncRef(fr.mod, e, fr.env)

    def e_Subscript(self, e: ast.Subscript, fr: Frame) -> T.Any:
        base = self.eval(e.value, fr)
        if isinstance(e.slice, ast.Slice):
            parts = [self.eval(x, fr) if x is not None else None for x in (e.slice.lower, e.slice.upper, e.slice.step)]
            if isinstance(base, Sym) or any(isinstance(p, Sym) for p in parts):
                return Sym(norm(e), chains_in(e))
            if not isinstance(base, (list, tuple, str)):
                raise Undecided(f'cannot slice {short(e)}')
            try:
                return base[slice(*parts)]
            except (TypeError, ValueError) as ex:
                raise Raised(ex.__class__.__name__, e)
        idx = self.eval(e.slice, fr)
        if isinstance(base, Sym) or isinstance(idx, Sym):
            return Sym(norm(e), chains_in(e))
        if isinstance(base, (list, tuple, str, dict)):
            try:
                return base[idx]
            except (IndexError, KeyError, TypeError) as ex:
                raise Raised(ex.__class__.__name__, e)
        if isinstance(base, (ClassRef, Builtin)):
            return base   # typing subscripts
        raise Undecided(f'cannot index {short(e)}')

    def e_ListComp(self, e: ast.ListComp, fr: Frame) -> T.Any:
        r = self._comp(e, e.generators, fr, lambda f: self.eval(e.elt, f))
        return r

    def e_GeneratorExp(self, e: ast.GeneratorExp, fr: Frame) -> T.Any:
        return self._comp(e, e.generators, fr, lambda f: self.eval(e.elt, f))

    def e_SetComp(self, e: ast.SetComp, fr: Frame) -> T.Any:
        r = self._comp(e, e.generators, fr, lambda f: self.eval(e.elt, f))
        return r if isinstance(r, Sym) else set(r)

    def _comp(self, e: ast.AST, gens: T.List[ast.comprehension], fr: Frame, emit: T.Callable[[Frame], T.Any]) -> T.Any:
        out: T.List[T.Any] = []
        opaque = [False]

        def rec(i: int, f: Frame) -> None:
            if i == len(gens):
                out.append(emit(f))
                return
            g = gens[i]
            it = self.eval(g.iter, f)
            if isinstance(it, Sym):
                opaque[0] = True
                return
            if isinstance(it, dict):
                it = list(it)
            if not isinstance(it, (list, tuple, range, set, frozenset, str)):
                raise Undecided(f'cannot iterate {short(g.iter)}')
            for item in (sorted(it, key=repr) if isinstance(it, (set, frozenset)) else list(it)):
                self._tick()
                f2 = Frame(f.mod, dict(f.env), f.defcls, f.self_val, f.depth)
                self.assign(g.target, item, f2)
                if all(self.truth(self.eval(c, f2)) for c in g.ifs):
                    rec(i + 1, f2)
        rec(0, fr)
        if opaque[0]:
            return Sym(norm(e), chains_in(e))
        return out

    def e_Compare(self, e: ast.Compare, fr: Frame) -> T.Any:
        left = self.eval(e.left, fr)
        for op, rn in zip(e.ops, e.comparators):
            right = self.eval(rn, fr)
            r = self.compare(op, left, right, e)
            if isinstance(r, Sym):
                if len(e.ops) > 1:
                    raise Undecided(f'chained comparison on unknown values: {short(e)}')
                return r
            if not r:
                return False
            left = right
        return True

    def compare(self, op: ast.cmpop, a: T.Any, b: T.Any, e: ast.AST) -> T.Any:
        if isinstance(a, Sym) or isinstance(b, Sym):
            deps = set(chains_in(e))
            for x in (a, b):
                if isinstance(x, Sym):
                    deps |= x.deps
            return Sym(norm(e), deps)
        opaque = (Obj, ClassRef, FuncRef, BoundMethod, Builtin)
        if isinstance(op, (ast.Eq, ast.NotEq)):
            if tag_of(a) or tag_of(b):
                self.compares.append(('Eq', a, b))
            if isinstance(a, opaque) or isinstance(b, opaque):
                r = a is b
            else:
                r = (a == b) and (isinstance(a, Member) == isinstance(b, Member))
            return r if isinstance(op, ast.Eq) else not r
        if isinstance(op, (ast.Is, ast.IsNot)):
            if a is None or b is None or isinstance(a, (bool, Member)) or isinstance(b, (bool, Member)) or isinstance(a, opaque) or isinstance(b, opaque):
                if isinstance(a, Member) and isinstance(b, Member):
                    r = a == b
                elif isinstance(a, bool) and isinstance(b, bool):
                    r = a == b
                else:
                    r = a is b
                return r if isinstance(op, ast.Is) else not r
            raise Undecided(f'identity comparison of values: {short(e)}')
        if isinstance(op, (ast.In, ast.NotIn)):
            if tag_of(a) and isinstance(b, (tuple, list, set, frozenset, dict)):
                for x in b:
                    self.compares.append(('Eq', a, x))
            if isinstance(b, (tuple, list, set, frozenset, dict, str)):
                try:
                    r = a in b
                except TypeError:
                    raise Raised('TypeError', e)
                return r if isinstance(op, ast.In) else not r
            raise Undecided(f'membership in a non-container: {short(e)}')
        # ordering
        self.compares.append((op.__class__.__name__, a, b))
        try:
            if isinstance(op, ast.Lt):
                return a < b
            if isinstance(op, ast.LtE):
                return a <= b
            if isinstance(op, ast.Gt):
                return a > b
            if isinstance(op, ast.GtE):
                return a >= b
        except TypeError:
            raise Raised('TypeError', e)
        raise Undecided(f'comparison operator in {short(e)}')

    def e_BinOp(self, e: ast.BinOp, fr: Frame) -> T.Any:
        return self.binop(e.op, self.eval(e.left, fr), self.eval(e.right, fr), e)

    def binop(self, op: ast.operator, a: T.Any, b: T.Any, e: ast.AST) -> T.Any:
        if isinstance(a, Sym) or isinstance(b, Sym):
            deps = set(chains_in(e))
            for x in (a, b):
                if isinstance(x, Sym):
                    deps |= x.deps
            return Sym(norm(e), deps)
        ok = (int, float, str, list, tuple, bool)
        if not isinstance(a, ok + (type(None),)) or not isinstance(b, ok + (type(None),)):
            raise Undecided(f'arithmetic on non-numeric values: {short(e)}')
        try:
            if isinstance(op, ast.Add):
                return a + b
            if isinstance(op, ast.Sub):
                return a - b
            if isinstance(op, ast.Mult):
                return a * b
            if isinstance(op, ast.FloorDiv):
                return a // b
            if isinstance(op, ast.Div):
                return a / b
            if isinstance(op, ast.Mod):
                return a % b
        except TypeError:
            raise Raised('TypeError', e)
        except ZeroDivisionError:
            raise Raised('ZeroDivisionError', e)
        raise Undecided(f'operator in {short(e)}')

    def e_Call(self, e: ast.Call, fr: Frame) -> T.Any:
        if isinstance(e.func, ast.Name) and e.func.id == 'super' and not e.args and 'super' not in fr.env:
            if fr.defcls is None or fr.self_val is None:
                raise Undecided('super() outside a method')
            return SuperRef(fr.self_val, fr.defcls)
        fn = self.eval(e.func, fr)
        args: T.List[T.Any] = []
        for a in e.args:
            if isinstance(a, ast.Starred):
                v = self.eval(a.value, fr)
                if isinstance(v, (list, tuple)):
                    args.extend(v)
                else:
                    raise Undecided(f'star argument in {short(e)}')
            else:
                args.append(self.eval(a, fr))
        kwargs: T.Dict[str, T.Any] = {}
        for k in e.keywords:
            if k.arg is None:
                raise Undecided(f'**kwargs in {short(e)}')
            kwargs[k.arg] = self.eval(k.value, fr)
        if isinstance(fn, Builtin):
            return self.builtin(fn.name, args, kwargs, e, fr)
        if isinstance(fn, BoundMethod):
            if isinstance(fn.fn, str):
                return self.value_method(fn.self_val, fn.fn, args, kwargs, e)
            return self.call_function(fn.fn, args, kwargs, fn.self_val, fn.defcls, fn.mod, fr.depth + 1)
        if isinstance(fn, FuncRef):
            has_obj = any(isinstance(a, Obj) for a in list(args) + list(kwargs.values()))
            try:
                return self.call_function(fn.node, args, kwargs, None, None, fn.mod, fr.depth + 1, fn.env)
            except Undecided:
                if has_obj or fn.env is not None:
                    raise
                self.effects.append(norm(e))
                return Sym(norm(e), chains_in(e))
        if isinstance(fn, Sym):
            if fn.text in ('sys.exit', 'exit', 'os._exit'):
                raise Raised('SystemExit', e)
            self.effects.append(norm(e))
            if isinstance(e.func, ast.Attribute) and e.func.attr in LIST_MUTATORS:
                self._bump(attr_chain(e.func.value))
            return Sym(norm(e), chains_in(e))
        if isinstance(fn, ClassRef):
            self.effects.append(norm(e))
            return Sym(norm(e), chains_in(e))
        raise Undecided(f'call of a non-callable in {short(e)}')

    def value_method(self, recv: T.Any, name: str, args: T.List[T.Any], kwargs: T.Dict[str, T.Any], e: ast.AST) -> T.Any:
        if any(isinstance(a, Sym) for a in args) and not (isinstance(recv, list) and name in ('append', 'insert', 'remove')):
            return Sym(norm(e), chains_in(e))
        try:
            if isinstance(recv, str):
                if name not in STR_METHODS:
                    raise Undecided(f'string method {name} in {short(e)}')
                if name == 'format':
                    if any(not isinstance(a, (int, float, str, bool, type(None))) for a in list(args) + list(kwargs.values())):
                        return Sym(norm(e), chains_in(e))
                    return recv.format(*args, **kwargs)
                if name == 'join':
                    items = list(args[0])
                    if any(not isinstance(x, str) for x in items):
                        return Sym(norm(e), chains_in(e))
                    return recv.join(items)
                return getattr(recv, name)(*args)
            if isinstance(recv, dict):
                if name == 'items':
                    return [(k, v) for k, v in recv.items()]
                if name == 'keys':
                    return list(recv.keys())
                if name == 'values':
                    return list(recv.values())
                if name in ('get', 'setdefault', 'pop', 'update'):
                    return getattr(recv, name)(*args)
            if isinstance(recv, list):
                if name in ('append', 'extend', 'insert', 'pop', 'remove', 'clear', 'reverse', 'index', 'count', 'copy'):
                    return getattr(recv, name)(*args)
            if isinstance(recv, (set, frozenset)):
                if name in ('add', 'discard', 'update', 'union', 'copy'):
                    return getattr(recv, name)(*args)
            if isinstance(recv, tuple) and name in ('index', 'count'):
                return getattr(recv, name)(*args)
        except (ValueError, IndexError, KeyError, TypeError) as ex:
            raise Raised(ex.__class__.__name__, e)
        raise Undecided(f'method {name} of a concrete value in {short(e)}')

    def builtin(self, name: str, args: T.List[T.Any], kwargs: T.Dict[str, T.Any], e: ast.Call, fr: Frame) -> T.Any:
        if name == 'isinstance' and len(args) == 2:
            x, c = args
            classes = list(c) if isinstance(c, tuple) else [c]
            if isinstance(x, Sym):
                return Sym(norm(e), chains_in(e) | set(x.deps))
            for k in classes:
                if isinstance(k, ClassRef):
                    if isinstance(x, Member) and x.cls == k.node.name:
                        return True
                    if isinstance(x, Obj) and x.cls is not None and any(kk is k.node for _, kk in self.mro(x.cls)):
                        return True
                elif isinstance(k, Builtin):
                    py = {'int': int, 'str': str, 'bool': bool, 'float': float, 'list': list, 'tuple': tuple, 'dict': dict, 'set': set}.get(k.name)
                    if py is not None and isinstance(x, py) and not isinstance(x, (Member,)):
                        return True
                else:
                    raise Undecided(f'isinstance against {short(e.args[1])}')
            if isinstance(x, Obj) and x.cls is None:
                return Sym(norm(e), chains_in(e))
            return False
        if name == 'print':
            self.effects.append(norm(e))
            return None
        if any(isinstance(a, Sym) for a in args):
            return Sym(norm(e), chains_in(e))
        try:
            if name == 'len' and len(args) == 1 and isinstance(args[0], (list, tuple, str, dict, set, frozenset)):
                return len(args[0])
            if name == 'int' and len(args) == 1 and isinstance(args[0], (int, float, str, bool)):
                return int(args[0])
            if name == 'float' and len(args) == 1 and isinstance(args[0], (int, float, str, bool)):
                return float(args[0])
            if name == 'str' and len(args) == 1 and isinstance(args[0], (int, float, str, bool, type(None))):
                return str(args[0])
            if name == 'bool' and len(args) == 1:
                return self.truth(args[0])
            if name == 'abs' and len(args) == 1 and isinstance(args[0], (int, float)):
                return abs(args[0])
            if name in ('min', 'max') and not kwargs:
                xs = list(args[0]) if len(args) == 1 else list(args)
                if all(isinstance(x, (int, float)) for x in xs) and xs:
                    return min(xs) if name == 'min' else max(xs)
            if name == 'sum' and len(args) == 1:
                xs = list(args[0])
                if all(isinstance(x, (int, float)) for x in xs):
                    return sum(xs)
            if name in ('any', 'all') and len(args) == 1 and isinstance(args[0], (list, tuple)):
                ts = [self.truth(x) for x in args[0]]
                return any(ts) if name == 'any' else all(ts)
            if name in ('list', 'tuple', 'set', 'frozenset') and len(args) <= 1:
                src = list(args[0]) if args else []
                return {'list': list, 'tuple': tuple, 'set': set, 'frozenset': frozenset}[name](src)
            if name == 'range' and all(isinstance(a, int) for a in args):
                return list(range(*args))
            if name == 'enumerate' and len(args) == 1 and isinstance(args[0], (list, tuple)):
                return list(enumerate(args[0]))
            if name == 'zip' and all(isinstance(a, (list, tuple)) for a in args):
                return list(zip(*args))
            if name == 'sorted' and len(args) == 1 and isinstance(args[0], (list, tuple, set, frozenset)):
                items = list(args[0])
                key = kwargs.get('key')
                rev = bool(kwargs.get('reverse', False))
                if key is None:
                    return sorted(items, reverse=rev)
                if isinstance(key, FuncRef):
                    keys = [self.call_function(key.node, [x], {}, None, None, key.mod, fr.depth + 1, key.env) for x in items]
                    if any(isinstance(k, Sym) for k in keys):
                        return Sym(norm(e), chains_in(e))
                    order = sorted(range(len(items)), key=lambda i: keys[i], reverse=rev)
                    return [items[i] for i in order]
        except (ValueError, TypeError) as ex:
            raise Raised(ex.__class__.__name__, e)
        raise Undecided(f'builtin {name} on these arguments: {short(e)}')


def _as_load(t: ast.AST) -> ast.AST:
    import copy
    c = copy.deepcopy(t)
    for n in ast.walk(c):
        if hasattr(n, 'ctx'):
            n.ctx = ast.Load()   # type: ignore[attr-defined]
    return c


class Leaf:
    def __init__(self, atoms: T.Dict[str, bool], data: T.Any, interp: Interp):
        self.atoms = atoms        # free atoms this path consulted (key -> value)
        self.data = data          # whatever the run function returned
        self.interp = interp

    def atom(self, text: str) -> T.Optional[bool]:
        """Value of the free atom whose text is `text` (any version), None when not consulted."""
        for k, v in self.atoms.items():
            if k == text or k.startswith(text + '@'):
                return v
        return None


def explore(repo: Repo, run: T.Callable[[Interp], T.Any], limit: int = 256) -> T.List[Leaf]:
    """All consistent evaluations of `run` (one per truth assignment of the free atoms it meets)."""
    leaves: T.List[Leaf] = []
    stack: T.List[T.Dict[str, bool]] = [{}]
    runs = 0
    while stack:
        atoms = stack.pop()
        runs += 1
        if runs > 4 * limit:
            raise Undecided('too many free conditions in the evaluated function')
        it = Interp(repo, atoms)
        try:
            data = run(it)
        except NeedAtom as n:
            stack.append({**atoms, n.key: False})
            stack.append({**atoms, n.key: True})
            continue
        leaves.append(Leaf(dict(it.used), data, it))
        if len(leaves) > limit:
            raise Undecided('too many paths in the evaluated function')
    return leaves


def outcome(it: Interp, thunk: T.Callable[[], T.Any]) -> T.Tuple[str, T.Any]:
    """Run thunk; ('return', value) or ('raise', exception class name)."""
    try:
        return ('return', thunk())
    except Raised as r:
        return ('raise', r.name)
    except RecursionError:
        raise Undecided('evaluation recursion too deep')
