"""C06 helper: order-determinism classification (DESIGN B.5, K10).

A *site* is one use of a hash-ordered (set-typed) value.  Verdicts:
  violation  - the value is proven set-typed (annotation / constructor) and the consumer is a proven
               order-sensitive one whose ordered result is not proven to be neutralised
  sanitised  - consumed through sorted(...)
  benign     - order-insensitive consumer (membership, len, set algebra, any/all/..., fills a set, log/exception text,
               handed to a parameter the callee stores into a set / sorts)
  info       - anything that cannot be classified (never a violation)
"""
from __future__ import annotations

import ast
import typing as T

from ..core import Module, Repo, attr_chain, walk_no_nested, norm, short
from .c06_types import (Resolver, Ty, UNKNOWN, SET_OPS, SET_RETURNING_METHODS, MAPPING_NAMES, ann_node, base_name, sub_args,
                        is_abstract_stub)

FuncNode = T.Union[ast.FunctionDef, ast.AsyncFunctionDef]

INSENSITIVE_FUNCS = {'len', 'any', 'all', 'sum', 'min', 'max', 'set', 'frozenset', 'bool', 'isinstance', 'id', 'type', 'hash', 'Counter'}
PASSTHROUGH_FUNCS = {'list', 'tuple', 'enumerate', 'zip', 'iter', 'next', 'reversed', 'map', 'filter', 'chain', 'from_iterable', 'OrderedSet',
                     'str', 'repr', 'format', 'deque', 'fromkeys', 'dict', 'join', 'listify', 'unique_list', 'islice', 'cast', 'bytes',
                     'OrderedDict', 'stringlistify', 'extract_as_list'}
SET_MUTATORS = {'add', 'update', 'discard', 'remove', 'difference_update', 'intersection_update', 'symmetric_difference_update', 'clear'}
SET_QUERIES = {'issubset', 'issuperset', 'isdisjoint', 'union', 'intersection', 'difference', 'symmetric_difference', 'copy', '__contains__'}
ORDERED_MUTATORS = {'append', 'extend', 'insert', 'appendleft', 'extendleft', 'write', 'writelines', 'prepend', 'append_direct',
                    'extend_direct', 'setdefault', 'push', 'put', 'add_item'}
ITER_MUTATORS = {'extend', 'extendleft', 'writelines', 'extend_direct'}   # consume their argument by iteration
STR_METHODS = {'split', 'rsplit', 'strip', 'lstrip', 'rstrip', 'lower', 'upper', 'replace', 'encode', 'decode', 'format', 'splitlines',
               'title', 'capitalize', 'expandtabs', 'ljust', 'rjust', 'center', 'zfill', 'partition', 'rpartition', 'copy'}
PURE_FUNCS = {'isinstance', 'issubclass', 'len', 'str', 'int', 'bool', 'float', 'repr', 'sorted', 'list', 'tuple', 'set', 'frozenset', 'dict',
              'any', 'all', 'min', 'max', 'sum', 'getattr', 'hasattr', 'type', 'id', 'zip', 'enumerate', 'range', 'reversed', 'iter', 'next',
              'abs', 'ord', 'chr', 'bytes', 'format', 'map', 'filter', 'callable', 'hash', 'round', 'divmod', 'OrderedSet', 'Path', 'PurePath',
              'PurePosixPath', 'PureWindowsPath', 'deepcopy', 'cast', 'listify', 'unique_list', 'stringlistify', 'has_path_sep', 'quote_arg',
              'join_args', 'split_args', 'chain', 'OptionKey', 'File', 'Version', 'version_compare', 'typeslistify'}
PURE_METHODS = STR_METHODS | {'startswith', 'endswith', 'get', 'keys', 'values', 'items', 'count', 'index', 'isdigit', 'isalpha', 'isalnum',
                              'isupper', 'islower', 'find', 'rfind', 'join', 'hexdigest', 'digest', 'is_absolute', 'as_posix', 'evolve',
                              'relative_to', 'is_relative_to', 'with_suffix', 'match', 'search', 'fullmatch', 'group', 'groups', 'from_iterable',
                              'fromkeys', 'exists', 'isfile', 'isdir', 'isabs', 'basename', 'dirname', 'normpath', 'abspath', 'realpath',
                              'relpath', 'splitext', 'commonpath', 'expanduser', 'fspath', 'samefile', 'getmtime', 'deepcopy'} | SET_QUERIES
EXC_SUFFIXES = ('Exception', 'Error', 'Warning')


UNORDERED = 'unordered source: '
DIR_METHODS = {'iterdir', 'rglob'}
DIR_FUNCS = {'os.listdir', 'os.scandir', 'glob.glob', 'glob.iglob', 'os.walk', 'listdir', 'scandir', 'iglob'}


def _is_empty_literal(e: ast.AST) -> bool:
    if isinstance(e, ast.Constant):
        return e.value is None or e.value == '' or e.value == ()
    if isinstance(e, (ast.List, ast.Tuple, ast.Set)):
        return all(_is_empty_literal(x) for x in e.elts)
    if isinstance(e, ast.Dict):
        return not e.keys
    if isinstance(e, ast.Call) and not e.args and not e.keywords and attr_chain(e.func) in ('set', 'frozenset', 'list', 'tuple', 'dict', 'OrderedSet'):
        return True
    return False


def unordered_source(e: ast.Call) -> T.Optional[str]:
    """Calls whose result order is decided by the file system or the process environment, not by the build definition."""
    f = e.func
    cn = attr_chain(f) or ''
    if cn in DIR_FUNCS:
        return UNORDERED + f'directory-listing order ({cn}())'
    if isinstance(f, ast.Attribute):
        if f.attr in DIR_METHODS and not e.keywords and len(e.args) <= 1:
            return UNORDERED + f'directory-listing order (.{f.attr}())'
        if f.attr == 'glob' and cn.split('.')[0] not in ('self', 'mesonlib') and len(e.args) == 1 and cn != 'glob.glob' \
                and isinstance(e.args[0], (ast.Constant, ast.JoinedStr)):
            return UNORDERED + 'directory-listing order (.glob())'
        if f.attr in ('items', 'keys', 'values') and attr_chain(f.value) == 'os.environ' and not e.args:
            return UNORDERED + f'order of environment variables (os.environ.{f.attr}())'
    return None


class FC:
    """Function context: locals with their annotations / defining values."""

    def __init__(self, mod: Module, fn: FuncNode, qual: str, cls: T.Optional[ast.ClassDef], parent: T.Optional['FC'] = None,
                 nodes: T.Optional[T.List[ast.AST]] = None):
        self.nodes = nodes
        self.mod = mod
        self.fn = fn
        self.qual = qual
        self.cls = cls
        self.parent = parent
        self.params: T.Dict[str, T.Optional[ast.AST]] = {}
        self.anns: T.Dict[str, ast.AST] = {}
        self.values: T.Dict[str, T.List[ast.AST]] = {}
        self.aug: T.Dict[str, T.List[ast.AugAssign]] = {}
        self.opaque: T.Set[str] = set()       # bound by for / with / except / unpacking
        self.loads: T.Dict[str, T.List[ast.Name]] = {}
        self.nested: T.Dict[str, FuncNode] = {}
        self.unpack: T.Dict[str, T.Tuple[ast.AST, int, int]] = {}     # name -> (unpacked value, position, arity) for `a, b = value`
        a = fn.args
        for p in a.posonlyargs + a.args + a.kwonlyargs:
            self.params[p.arg] = p.annotation
        if a.vararg:
            self.params[a.vararg.arg] = None
            self.opaque.add(a.vararg.arg)
        if a.kwarg:
            self.params[a.kwarg.arg] = None
            self.opaque.add(a.kwarg.arg)
        for n in self._own_nodes():
            if isinstance(n, (ast.FunctionDef, ast.AsyncFunctionDef)):
                self.nested.setdefault(n.name, n)
                self.opaque.add(n.name)
            elif isinstance(n, ast.AnnAssign) and isinstance(n.target, ast.Name):
                self.anns.setdefault(n.target.id, n.annotation)
                if n.value is not None:
                    self.values.setdefault(n.target.id, []).append(n.value)
            elif isinstance(n, ast.Assign):
                for t in n.targets:
                    if isinstance(t, ast.Name):
                        self.values.setdefault(t.id, []).append(n.value)
                    else:
                        self._opaque_targets(t)
                        if isinstance(t, (ast.Tuple, ast.List)) and all(isinstance(x, ast.Name) for x in t.elts):
                            for i, x in enumerate(t.elts):
                                if x.id in self.unpack:
                                    self.unpack[x.id] = (n.value, -1, 0)      # unpacked twice: not tracked
                                else:
                                    self.unpack[x.id] = (n.value, i, len(t.elts))
            elif isinstance(n, ast.AugAssign) and isinstance(n.target, ast.Name):
                self.aug.setdefault(n.target.id, []).append(n)
            elif isinstance(n, (ast.For, ast.AsyncFor)):
                self._opaque_targets(n.target, True)
            elif isinstance(n, ast.comprehension):
                self._opaque_targets(n.target, True)
            elif isinstance(n, (ast.With, ast.AsyncWith)):
                for i in n.items:
                    if i.optional_vars is not None:
                        self._opaque_targets(i.optional_vars, True)
            elif isinstance(n, ast.ExceptHandler) and n.name:
                self.opaque.add(n.name)
            elif isinstance(n, ast.NamedExpr) and isinstance(n.target, ast.Name):
                self.values.setdefault(n.target.id, []).append(n.value)
            elif isinstance(n, ast.Name) and isinstance(n.ctx, ast.Load):
                self.loads.setdefault(n.id, []).append(n)

    def _own_nodes(self) -> T.Iterable[ast.AST]:
        if self.nodes is not None:
            return self.nodes
        return list(self._walk_own())

    def _walk_own(self) -> T.Iterator[ast.AST]:
        for st in self.fn.body:
            if isinstance(st, (ast.FunctionDef, ast.AsyncFunctionDef, ast.ClassDef)):
                yield st
                continue
            yield from walk_no_nested(st)

    def _opaque_targets(self, t: ast.AST, names_too: bool = False) -> None:
        for n in ast.walk(t):
            if isinstance(n, ast.Name) and (names_too or isinstance(t, (ast.Tuple, ast.List, ast.Starred))):
                self.opaque.add(n.id)

    def is_local(self, name: str) -> bool:
        return name in self.params or name in self.anns or name in self.values or name in self.opaque or name in self.aug

    def owner(self, name: str) -> T.Optional['FC']:
        fc: T.Optional[FC] = self
        while fc is not None:
            if fc.is_local(name):
                return fc
            fc = fc.parent
        return None


class Site(T.NamedTuple):
    mod: Module
    func: str
    node: ast.AST         # the consumer construct (position-free when unparsed)
    value: ast.AST        # the set-typed expression
    verdict: str          # violation | sanitised | benign | info
    consumer: str
    reason: str
    ty: Ty


class Analyzer:
    def __init__(self, repo: Repo, res: Resolver):
        self.repo = repo
        self.res = res
        self._ty_memo: T.Dict[T.Tuple[int, int], Ty] = {}
        self._fcs: T.Dict[int, FC] = {}
        self._effect_memo: T.Dict[int, T.Tuple[str, str]] = {}
        self._param_memo: T.Dict[T.Tuple[int, str], T.Tuple[str, str]] = {}
        self._busy_local: T.Set[T.Tuple[int, str]] = set()
        self._busy_name: T.Set[T.Tuple[int, str]] = set()
        self._ret_memo: T.Dict[int, T.Optional[Ty]] = {}
        self._busy_cls: T.Set[T.Tuple[int, int]] = set()
        self._cls_memo: T.Dict[T.Tuple[int, int], T.Any] = {}
        self.sorted_sites: T.List[T.Tuple[Module, str, ast.Call, Ty]] = []
        self.calls_resolved = 0
        self.calls_unresolved = 0

    # ------------------------------------------------------------------ contexts
    def fc_for(self, mod: Module, fn: FuncNode, qual: str = '', cls: T.Optional[ast.ClassDef] = None, parent: T.Optional[FC] = None) -> FC:
        fc = self._fcs.get(id(fn))
        if fc is None:
            if not qual:
                qual = self._qual_of(mod, fn)
            if cls is None and parent is None:
                cls = self._class_of_fn(mod, qual)
            fc = FC(mod, fn, qual, cls if cls is not None else (parent.cls if parent else None), parent, self.res.own_nodes(mod, fn))
            self._fcs[id(fn)] = fc
        return fc

    def _qual_of(self, mod: Module, fn: FuncNode) -> str:
        for q, f in mod.funcs().items():
            if f is fn:
                return q
        return fn.name

    def _class_of_fn(self, mod: Module, qual: str) -> T.Optional[ast.ClassDef]:
        parts = qual.split('#')[0].split('.')
        for i in range(len(parts) - 1, 0, -1):
            q = '.'.join(parts[:i])
            if mod.has_cls(q):
                return mod.cls(q)
        return None

    def parent(self, fc: FC, node: ast.AST) -> T.Optional[ast.AST]:
        return fc.mod.parent_map().get(node)

    # ------------------------------------------------------------------ typing
    def ty(self, e: ast.AST, fc: FC, depth: int = 0) -> Ty:
        key = (id(e), id(fc))
        if key in self._ty_memo:
            return self._ty_memo[key]
        if depth > 12:
            return UNKNOWN
        t = self._ty(e, fc, depth)
        if t.kind != 'cycle' and not self._busy_name:
            self._ty_memo[key] = t
        return t

    def _ty(self, e: ast.AST, fc: FC, depth: int) -> Ty:
        res = self.res
        if isinstance(e, (ast.Set, ast.SetComp)):
            return Ty('set', None, fc.mod, 'set display / comprehension')
        if isinstance(e, (ast.List, ast.ListComp, ast.Dict, ast.DictComp, ast.Tuple, ast.Constant, ast.JoinedStr, ast.GeneratorExp)):
            return Ty('ordered')
        if isinstance(e, ast.Name):
            return self._name_ty(e.id, fc, depth)
        if isinstance(e, ast.NamedExpr):
            return self.ty(e.value, fc, depth + 1)
        if isinstance(e, ast.IfExp):
            return self._join([self.ty(e.body, fc, depth + 1), self.ty(e.orelse, fc, depth + 1)], fc)
        if isinstance(e, ast.BoolOp):
            vals = list(e.values)
            if isinstance(e.op, ast.Or):
                # `x or <empty literal>`: the fallback has no order to speak of - the type is that of x
                kept = [v for v in vals if not _is_empty_literal(v)]
                vals = kept or vals
            return self._join([self.ty(v, fc, depth + 1) for v in vals], fc)
        if isinstance(e, ast.BinOp) and isinstance(e.op, SET_OPS):
            l, r = self.ty(e.left, fc, depth + 1), self.ty(e.right, fc, depth + 1)
            if 'cycle' in (l.kind, r.kind) and 'set' not in (l.kind, r.kind):
                return Ty('cycle')
            if l.kind == 'set':
                return l._replace(why=f'set algebra on {short(e.left, 40)} ({l.why})')
            if r.kind == 'set' and not isinstance(e.op, ast.Sub):
                return r._replace(why=f'set algebra on {short(e.right, 40)} ({r.why})')
            if isinstance(e.left, ast.Call) and isinstance(e.left.func, ast.Attribute) and e.left.func.attr in ('keys', 'items') and l.kind != 'unknown':
                return Ty('set', None, fc.mod, 'set algebra on a dict view')
            if l.kind == 'ambiguous' or r.kind == 'ambiguous':
                return Ty('ambiguous', None, fc.mod, 'set algebra on an ambiguous operand')
            return UNKNOWN
        if isinstance(e, ast.Attribute):
            return self._attr_ty(e, fc, depth)
        if isinstance(e, ast.Subscript):
            base = self.ty(e.value, fc, depth + 1)
            if base.ann is not None and base.mod is not None and base_name(base.ann) in MAPPING_NAMES and not isinstance(e.slice, ast.Slice):
                args = sub_args(base.ann)
                if len(args) == 2:
                    return res.ann_ty(args[1], base.mod, f'value of {short(e.value, 40)}: {norm(base.ann)}')
            return UNKNOWN
        if isinstance(e, ast.Call):
            return self._call_ty(e, fc, depth)
        if isinstance(e, ast.Await):
            return self.ty(e.value, fc, depth + 1)
        return UNKNOWN

    def _join(self, tys: T.List[Ty], fc: FC) -> Ty:
        if any(t.kind == 'cycle' for t in tys):
            tys = [t for t in tys if t.kind != 'cycle']
            if not tys:
                return Ty('cycle')
        kinds = {t.kind for t in tys}
        if kinds == {'set'}:
            return tys[0]
        if 'set' in kinds or 'ambiguous' in kinds:
            sets = [t for t in tys if t.kind in ('set', 'ambiguous')]
            return Ty('ambiguous', None, fc.mod, 'set on some branches only: ' + sets[0].why)
        if kinds == {'ordered'}:
            return tys[0]
        return UNKNOWN

    def _name_ty(self, name: str, fc: FC, depth: int) -> Ty:
        owner = fc.owner(name)
        if owner is None:
            return self.res.global_ty(fc.mod, name)
        key = (id(owner), name)
        if key in self._busy_name:
            return Ty('cycle')
        if name in owner.anns:
            return self.res.ann_ty(owner.anns[name], owner.mod, f'{name} annotated {norm(owner.anns[name])}')
        if name in owner.params and owner.params[name] is not None and name not in owner.values:
            return self.res.ann_ty(owner.params[name], owner.mod, f'parameter {name}: {norm(owner.params[name])}')
        if name in owner.opaque:
            up = owner.unpack.get(name)
            if up is not None and up[1] >= 0 and name not in owner.values and name not in owner.params:
                return self._unpacked_ty(up[0], up[1], up[2], owner, depth)
            return UNKNOWN
        vals = owner.values.get(name, [])
        if not vals:
            return UNKNOWN
        self._busy_name.add(key)
        try:
            tys = [self.ty(v, owner, depth + 1) for v in vals]
        finally:
            self._busy_name.discard(key)
        tys = [t for t in tys if t.kind != 'cycle']
        if name in owner.params and owner.params[name] is not None:
            tys.append(self.res.ann_ty(owner.params[name], owner.mod, f'parameter {name}'))
        if not tys:
            return UNKNOWN
        t = self._join(tys, owner)
        if t.kind == 'set' and not t.why.startswith(name):
            t = t._replace(why=f'{name} = {short(vals[0], 50)}: {t.why}')
        return t

    def _unpacked_ty(self, value: ast.AST, i: int, arity: int, fc: FC, depth: int) -> Ty:
        """Type of position i of a value unpacked into `arity` names: a tuple display, or a value annotated Tuple[A, B, ...]."""
        if isinstance(value, ast.BoolOp) and isinstance(value.op, ast.Or):
            vals = [v for v in value.values if not _is_empty_literal(v)]
            if len(vals) == 1:
                value = vals[0]
        if isinstance(value, (ast.Tuple, ast.List)) and len(value.elts) == arity:
            return self.ty(value.elts[i], fc, depth + 1)
        t = self.ty(value, fc, depth + 1)
        if t.ann is not None and t.mod is not None and base_name(t.ann) in ('Tuple', 'tuple'):
            args = sub_args(t.ann)
            if len(args) == arity:
                return self.res.ann_ty(args[i], t.mod, f'position {i} of {short(value, 40)}: {norm(t.ann)}')
        return UNKNOWN

    def class_of(self, e: ast.AST, fc: FC, depth: int = 0) -> T.Optional[T.Tuple[Module, ast.ClassDef]]:
        """Repository class of the value of `e`, from self / annotations / constructors."""
        if depth > 6:
            return None
        key = (id(e), id(fc))
        if key in self._cls_memo:
            return self._cls_memo[key]
        if key in self._busy_cls:
            return None
        self._busy_cls.add(key)
        try:
            r = self._class_of(e, fc, depth)
        finally:
            self._busy_cls.discard(key)
        if not self._busy_cls:
            self._cls_memo[key] = r
        return r

    def _class_of(self, e: ast.AST, fc: FC, depth: int) -> T.Optional[T.Tuple[Module, ast.ClassDef]]:
        if isinstance(e, ast.Name):
            if e.id in ('self', 'cls') and fc.cls is not None and fc.owner(e.id) is not None:
                o = fc.owner(e.id)
                assert o is not None
                return (o.mod, o.cls) if o.cls is not None else None
            owner = fc.owner(e.id)
            if owner is None:
                return None
            ann = owner.anns.get(e.id) or owner.params.get(e.id)
            if ann is not None:
                return self.res.class_by_ann(ann, owner.mod)
            vals = owner.values.get(e.id, [])
            if len(vals) == 1:
                return self.class_of(vals[0], owner, depth + 1)
            return None
        if isinstance(e, ast.Call):
            n = attr_chain(e.func)
            if n:
                if n in ('copy.deepcopy', 'copy.copy', 'deepcopy') and e.args:
                    return self.class_of(e.args[0], fc, depth + 1)
                r = self.res.resolve_cls(fc.mod, n)
                if r is not None:
                    return r
            fns = self.callees(e, fc)
            if len(fns) == 1 and fns[0][2].returns is not None:
                return self.res.class_by_ann(fns[0][2].returns, fns[0][0])
            return None
        if isinstance(e, ast.Attribute):
            base = self.class_of(e.value, fc, depth + 1)
            if base is not None:
                t = self.res.class_attr_ty(base[0], base[1], e.attr)
                if t is not None and t.ann is not None and t.mod is not None:
                    return self.res.class_by_ann(t.ann, t.mod)
                # self.x = ClassName(...)
                for m, c in self.repo.mro(base[0], base[1]):
                    self.res.attr_table(m, c)
                    cn = self.res.ctor_calls.get(id(c), {}).get(e.attr)
                    if cn:
                        r = self.res.resolve_cls(m, cn)
                        if r is not None:
                            return r
            return None
        return None

    def _attr_ty(self, e: ast.Attribute, fc: FC, depth: int) -> Ty:
        res = self.res
        if attr_chain(e) == 'os.environ' and fc.owner('os') is None:
            return Ty('set', None, fc.mod, UNORDERED + 'order of environment variables (os.environ)')
        # module attribute through the import table first
        if isinstance(e.value, ast.Name) and fc.owner(e.value.id) is None:
            m2 = res.module_alias(fc.mod, e.value.id)
            if m2 is not None:
                return res.global_ty(m2, e.attr)
        base = self.class_of(e.value, fc)
        if base is not None:
            t = res.class_attr_ty(base[0], base[1], e.attr)
            if t is not None:
                return t
            # property?
            fm = self.repo.find_method(base[0], base[1], e.attr)
            if fm is not None and fm[2].returns is not None:
                return res.ann_ty(fm[2].returns, fm[0], f'property {fm[1].name}.{e.attr} -> {norm(fm[2].returns)}')
            return UNKNOWN
        cands = res.attr_by_name(e.attr)
        if not cands:
            return UNKNOWN
        kinds = {t.kind for t in cands}
        if kinds == {'set'}:
            return cands[0]._replace(why=f'attribute name .{e.attr}: every declaring class says set ({cands[0].why})')
        if 'set' in kinds or 'ambiguous' in kinds:
            s = [t for t in cands if t.kind in ('set', 'ambiguous')][0]
            return Ty('ambiguous', None, fc.mod, f'attribute name .{e.attr} is a set in some classes only ({s.why})')
        if kinds == {'ordered'}:
            return cands[0]
        return UNKNOWN

    def _call_ty(self, e: ast.Call, fc: FC, depth: int) -> Ty:
        res = self.res
        f = e.func
        src = unordered_source(e)
        if src is not None:
            return Ty('set', None, fc.mod, src)
        if isinstance(f, ast.Name):
            if f.id in ('set', 'frozenset') and fc.owner(f.id) is None:
                return Ty('set', None, fc.mod, f'{f.id}(...)')
            if f.id in ('sorted', 'list', 'tuple', 'dict', 'str', 'OrderedSet', 'reversed', 'enumerate', 'zip', 'len', 'int', 'bool', 'repr'):
                return Ty('ordered')
            if f.id in ('deepcopy', 'copy', 'cast') and e.args:
                return self.ty(e.args[-1], fc, depth + 1)
        if isinstance(f, ast.Attribute):
            if attr_chain(f) in ('copy.deepcopy', 'copy.copy', 'T.cast', 'typing.cast') and e.args:
                return self.ty(e.args[-1], fc, depth + 1)
            recv = self.ty(f.value, fc, depth + 1)
            if recv.kind == 'set' and f.attr in SET_RETURNING_METHODS:
                return recv._replace(why=f'{f.attr}() of a set ({recv.why})')
            if recv.kind == 'set' and f.attr in (SET_MUTATORS | SET_QUERIES | {'pop'}):
                return Ty('ordered')
            if recv.ann is not None and recv.mod is not None and base_name(recv.ann) in MAPPING_NAMES:
                args = sub_args(recv.ann)
                if len(args) == 2 and f.attr in ('get', 'pop', 'setdefault'):
                    t = res.ann_ty(args[1], recv.mod, f'value of {short(f.value, 40)}: {norm(recv.ann)}')
                    if f.attr == 'get' and len(e.args) == 2 and t.kind == 'set' and not (isinstance(e.args[1], ast.Constant) and e.args[1].value is None):
                        d = self.ty(e.args[1], fc, depth + 1)
                        if d.kind != 'set':
                            return Ty('ambiguous', None, fc.mod, t.why)
                    return t
                if f.attr in ('keys', 'values', 'items'):
                    return Ty('ordered', recv.ann, recv.mod, f'.{f.attr}() of {norm(recv.ann)}')
        fns = self.callees(e, fc)
        if fns:
            tys = []
            for m, c, fn in fns:
                if fn.returns is None:
                    tys.append(UNKNOWN)
                else:
                    q = f'{c.name}.{fn.name}' if c is not None else fn.name
                    t = res.ann_ty(fn.returns, m, f'{q}() annotated -> {norm(fn.returns)}')
                    if t.kind == 'set':
                        t = self._refine_return(t, m, c, fn)
                    tys.append(t)
            return self._join(tys, fc)
        return UNKNOWN

    def _refine_return(self, t: Ty, mod: Module, cls: T.Optional[ast.ClassDef], fn: FuncNode) -> Ty:
        """A function annotated to return a set: look at what it really returns (an OrderedSet is an AbstractSet too)."""
        key = id(fn)
        if key in self._ret_memo:
            return self._ret_memo[key] or t
        self._ret_memo[key] = None
        fc2 = self.fc_for(mod, fn, cls=cls)
        kinds = []
        for n in fc2._own_nodes():
            if isinstance(n, ast.Return) and n.value is not None:
                kinds.append(self.ty(n.value, fc2).kind)
        out = t
        if kinds and all(k == 'ordered' for k in kinds):
            out = Ty('ordered', None, mod, f'{fn.name}() is annotated {norm(fn.returns)} but returns an insertion-ordered container')
        elif 'set' not in kinds and base_name(fn.returns) in ('AbstractSet', 'MutableSet') and kinds:
            out = Ty('ambiguous', t.ann, t.mod, t.why + ' (abstract set type; returned values are not proven to be builtin sets)')
        self._ret_memo[key] = out
        return out

    # ------------------------------------------------------------------ callees
    def callees(self, call: ast.Call, fc: FC) -> T.List[T.Tuple[Module, T.Optional[ast.ClassDef], FuncNode]]:
        f = call.func
        out: T.List[T.Tuple[Module, T.Optional[ast.ClassDef], FuncNode]] = []
        if isinstance(f, ast.Name):
            # nested function of an enclosing context
            c: T.Optional[FC] = fc
            while c is not None:
                if f.id in c.nested:
                    return [(c.mod, None, c.nested[f.id])]
                c = c.parent
            if fc.owner(f.id) is not None:
                return []
            r = self.res.resolve_global(fc.mod, f.id)
            if r is not None and r[0].has_func(r[1]):
                return [(r[0], None, r[0].func(r[1]))]
            return []
        if not isinstance(f, ast.Attribute):
            return []
        v = f.value
        if isinstance(v, ast.Name) and fc.owner(v.id) is None:
            m2 = self.res.module_alias(fc.mod, v.id)
            if m2 is not None:
                r = self.res.resolve_global(m2, f.attr)
                if r is not None and r[0].has_func(r[1]):
                    return [(r[0], None, r[0].func(r[1]))]
                return []
            rc = self.res.resolve_cls(fc.mod, v.id)
            if rc is not None:
                fm = self.repo.find_method(rc[0], rc[1], f.attr)
                return [fm] if fm is not None else []
        if isinstance(v, ast.Call) and isinstance(v.func, ast.Name) and v.func.id == 'super' and fc.cls is not None:
            for m, c2 in self.repo.mro(fc.mod, fc.cls)[1:]:
                for st in c2.body:
                    if isinstance(st, (ast.FunctionDef, ast.AsyncFunctionDef)) and st.name == f.attr:
                        return [(m, c2, st)]
            return []
        base = self.class_of(v, fc)
        if base is not None:
            fm = self.repo.find_method(base[0], base[1], f.attr)
            if fm is not None:
                out = [fm]
                # overriding definitions in indexed subclasses of an abstract stub
                if is_abstract_stub(fm[2]):
                    alts = [x for x in self.res.methods_by_name(f.attr) if x[2] is not fm[2] and not is_abstract_stub(x[2])]
                    if 0 < len(alts) <= 4:
                        out = alts   # type: ignore[assignment]
                return out
            return []
        if isinstance(v, ast.Name):
            o = fc.owner(v.id)
            if o is not None and (o.anns.get(v.id) is not None or o.params.get(v.id) is not None):
                return []       # declared with a type that is not a repository class (T.TextIO, Path, ...): an external callee
        cands = [x for x in self.res.methods_by_name(f.attr) if not is_abstract_stub(x[2])]
        if 0 < len(cands) <= 3:
            return cands  # type: ignore[return-value]
        return []
