"""C19 — version comparison order and constraint logic (DESIGN §2 C19)."""
from __future__ import annotations

import ast
import typing as T

from ..core import Undecided, norm, short, attr_chain, walk_no_nested
from ..report import Rule, RuleCtx
from .. import tables
from ..tables import Atom
from . import cmpcore
from .c19_norm import normalise
from .c19_site import r5

UNIVERSAL = 'mesonbuild/utils/universal.py'

EXPLANATION = (
    'Decides structural clauses of C19: R1 the four ordering dunders of Version delegate to one comparison core with '
    'operator.lt/gt/le/ge and ==/!=/hash read the same field; R2 every result of the core is comparator(f(ours), f(theirs)) '
    'with one projection on both sides, and the (projection, direction) sequence is [kind: int above str, value, length]; '
    'R3 the rows of _version_extract_cmpop pick the longest documented prefix and return (operator, text minus that many characters); '
    'version_compare_many files a requirement under "failed" iff version_compare is false and its verdict is "failed is empty"; '
    'R4 the decision tables of Range.__contains__/__post_init__/_intersect_min/_intersect_max/intersect/always and '
    'version_check_to_range equal the reference range algebra on every world of their atoms. '
    'All tables are extracted after a syntactic normalisation (c19_norm: tail duplication + forward substitution of locals by their '
    'reaching definition), so early returns vs. if/elif with a result variable, named sub-conditions, hoisted attribute reads and '
    'renamed locals give the same rows; a constant module-level dict {operator.X: lambda v: Range(..)} is folded and read arm by arm. '
    'R2 also: every ranking key is the kind, the component itself or the field length - a projection (e.g. .lower()) that __eq__/__hash__ do not '
    'apply makes <, ==, > inconsistent and is a violation; '
    'R5 (interpreterbase.py, if-clause narrowing): by origin, the receiver of Range.always is the project range read from project_meson_versions[..] '
    'and its argument the condition range self.tmp_meson_version (through locals and one level of private helpers), the value stored for the branch is '
    'their intersection, and the saved range is stored back on every CFG path out of the branch and before the table is read again. '
    'R5 does NOT model exceptions raised by statements outside any try (sa.cfg has exception edges only inside try), nor writers of tmp_meson_version in other modules. '
    'Does NOT decide the order axioms on concrete version strings (tokenisation is run-time); a local whose definition may have been '
    'invalidated before its use, and range expressions that are not chains of Range(..)/.intersect(..), end Undecided.')
TECHNIQUE = ('decision tables by path enumeration over canonical atoms + world enumeration, after tail duplication and copy propagation of '
             'locals; symbolic comparison of row outcomes/effects; constant folding of a dispatch table; def-use roles of call-site operands + CFG must-pass-through')
ASSUMPTIONS = ['operator.lt/gt/le/ge/eq/ne and Python tuple/int/str comparison behave as documented',
               'dataclasses generates __eq__ for Range over all five fields']

# reference: documented comparison prefixes (Reference manual: version_compare) -> operator
PREFIXES = {'>=': 'ge', '<=': 'le', '!=': 'ne', '==': 'eq', '=': 'eq', '>': 'gt', '<': 'lt'}


def r1(ctx: RuleCtx) -> None:
    mod = ctx.repo.module(UNIVERSAL)
    core = cmpcore.one_core(ctx, mod, 'Version')
    ctx.check.extra['version_core'] = core


def r2(ctx: RuleCtx) -> None:
    mod = ctx.repo.module(UNIVERSAL)
    keys = cmpcore.ranking_keys(ctx, mod, 'Version', '__cmp')
    want = [('isinstance(@, int)', 'asc'), ('@', 'asc'), ('len(@)', 'asc')]
    # ==, < and > describe one relation only if "all ranking keys equal" is the same as __eq__ (R1: __eq__/__hash__ compare the raw
    # field): a component may be ranked by its kind, by itself and by the length of the field, never through another projection
    foreign = [k for k, _ in keys if k not in {w for w, _ in want}]
    if foreign:
        ctx.violation(mod, 'Version.__cmp', 'projection not applied by __eq__', f'the comparison core ranks components through {foreign} but __eq__/__ne__/__hash__ '
                      f'compare the raw components: unless that projection is one-to-one, for two versions that differ only under {foreign[0]} neither <, == nor > holds (<= and >= both hold); '
                      f'in any case the order is no longer [kind, value, length]')
    else:
        ctx.require(keys == want, f'Version ranking keys {keys}', mod, 'Version.__cmp', 'ranking keys',
                    f'ranking keys are {keys}; reference (kind: int above str, value ascending, longer is greater) is {want}')
    # tokens: digits become int, letters stay str; nothing else is a component
    fn = mod.func('Version.__init__')
    rx = ctx.repo.module(UNIVERSAL).assign_value('_VERSION_TOK_RE')
    from ..consteval import fold_expr, Regex
    r = fold_expr(ctx.repo, mod, rx)
    ctx.require(isinstance(r, Regex) and r.pattern == r'(\d+)|([a-zA-Z]+)', 'Version token regex is digits | letters', mod, '<module>', rx,
                f'token regex changed: {r!r}')
    ints = [n for n in ast.walk(fn) if isinstance(n, ast.IfExp) and isinstance(n.body, ast.Call) and norm(n.body.func) == 'int']
    ok = len(ints) == 1 and norm(ints[0].body.args[0]) == norm(ints[0].test) and 'group(1)' in norm(ints[0].test) and 'group(2)' in norm(ints[0].orelse)
    ctx.require(ok, 'digit runs are converted with int(), letter runs kept', mod, 'Version.__init__', fn, 'component conversion is not int(group(1)) if group(1) else group(2)')


def _sample_heads() -> T.List[str]:
    alpha = ['>', '<', '=', '!', '1']
    return [''] + alpha + [a + b for a in alpha for b in alpha]


def _cmpop_result(ret: T.Tuple[T.Any, ...], where: str) -> T.Optional[T.Tuple[str, int]]:
    """Shape of one result of _version_extract_cmpop: `(operator.X, ARG1[n:]...[m:].strip())` -> (X, n+m).
    None: the row does not return a pair at all.  Shapes that cannot be read are Undecided."""
    if ret[0] != 'return':
        return None
    e = ast.parse(ret[1], mode='eval').body
    if not (isinstance(e, ast.Tuple) and len(e.elts) == 2):
        if isinstance(e, (ast.Name, ast.Call, ast.Subscript, ast.Attribute, ast.IfExp)):
            raise Undecided(f'_version_extract_cmpop: {where}: cannot read the result {ret[1]}')
        return None
    op = attr_chain(e.elts[0]) or ''
    if not op.startswith('operator.'):
        raise Undecided(f'_version_extract_cmpop: {where}: cannot read the operator in {ret[1]}')
    rest = e.elts[1]
    n = 0
    while True:
        if isinstance(rest, ast.Call) and isinstance(rest.func, ast.Attribute) and rest.func.attr == 'strip' and not rest.args and not rest.keywords:
            rest = rest.func.value      # whitespace around the version is not significant (the tokenizer skips it)
        elif isinstance(rest, ast.Subscript):
            sl = rest.slice
            if not (isinstance(sl, ast.Slice) and sl.upper is None and sl.step is None
                    and (sl.lower is None or (isinstance(sl.lower, ast.Constant) and isinstance(sl.lower.value, int) and sl.lower.value >= 0))):
                raise Undecided(f'_version_extract_cmpop: {where}: unknown rewrite {norm(e.elts[1])}')
            n += sl.lower.value if sl.lower is not None else 0      # type: ignore[attr-defined]
            rest = rest.value
        else:
            break
    if norm(rest) != 'ARG1':
        raise Undecided(f'_version_extract_cmpop: {where}: unknown rewrite {norm(e.elts[1])}')
    return op.split('.', 1)[1], n


def _emptiness(e: ast.AST) -> T.Optional[T.Tuple[str, str]]:
    """`not X` / `len(X) == 0` / `X == []` -> ('empty', X);  `bool(X)` / `len(X) > 0` / `X != []` -> ('nonempty', X)."""
    if isinstance(e, ast.UnaryOp) and isinstance(e.op, ast.Not):
        inner = _emptiness(e.operand)
        if inner is not None:
            return ('nonempty' if inner[0] == 'empty' else 'empty', inner[1])
        if isinstance(e.operand, ast.Name):
            return ('empty', e.operand.id)
        if isinstance(e.operand, ast.Call) and norm(e.operand.func) == 'len' and len(e.operand.args) == 1 and isinstance(e.operand.args[0], ast.Name):
            return ('empty', e.operand.args[0].id)
        return None
    if isinstance(e, ast.Call) and norm(e.func) == 'bool' and len(e.args) == 1 and isinstance(e.args[0], ast.Name):
        return ('nonempty', e.args[0].id)
    if isinstance(e, ast.Compare) and len(e.ops) == 1:
        l, r, op = e.left, e.comparators[0], e.ops[0]
        if isinstance(l, ast.Call) and norm(l.func) == 'len' and len(l.args) == 1 and isinstance(l.args[0], ast.Name) \
                and isinstance(r, ast.Constant) and r.value == 0:
            if isinstance(op, ast.Eq):
                return ('empty', l.args[0].id)
            if isinstance(op, (ast.Gt, ast.NotEq)):
                return ('nonempty', l.args[0].id)
        if isinstance(l, ast.Name) and isinstance(r, ast.List) and not r.elts:
            if isinstance(op, ast.Eq):
                return ('empty', l.id)
            if isinstance(op, ast.NotEq):
                return ('nonempty', l.id)
    return None


def r3(ctx: RuleCtx) -> None:
    mod = ctx.repo.module(UNIVERSAL)
    fn = mod.func('_version_extract_cmpop')
    # locals resolved by their reaching definition: the if/elif chain with `cmpop = ..; vstr2 = vstr2[n:]` and a
    # single trailing return gives the same rows as early returns of `(operator.X, vstr2[n:].strip())`
    tab = tables.extract(normalise(fn), inline=False, name='_version_extract_cmpop')
    pre_atoms: T.Dict[Atom, str] = {}
    for a in tab.atoms():
        if a.kind == 'truth':
            e = ast.parse(a.args[0], mode='eval').body
            if isinstance(e, ast.Call) and isinstance(e.func, ast.Attribute) and e.func.attr == 'startswith' and norm(e.func.value) == 'ARG1' \
                    and len(e.args) == 1 and isinstance(e.args[0], ast.Constant) and isinstance(e.args[0].value, str):
                pre_atoms[a] = e.args[0].value
                continue
        raise Undecided(f'_version_extract_cmpop: unknown atom {a!r}')
    ctx.floor('operator prefixes tested', len(pre_atoms), 7)
    ctx.require(set(pre_atoms.values()) == set(PREFIXES), f'prefixes tested {sorted(pre_atoms.values())}', mod, '_version_extract_cmpop', fn,
                f'the prefixes tested {sorted(pre_atoms.values())} differ from the documented {sorted(PREFIXES)}')
    for head in _sample_heads():
        world = {a: head.startswith(p) for a, p in pre_atoms.items()}
        rows = tab.fire(world)
        cands = [p for p in PREFIXES if head.startswith(p)]
        best = max(cands, key=len) if cands else ''
        want_op = PREFIXES.get(best, 'eq')
        if len(rows) != 1:
            raise Undecided(f'_version_extract_cmpop: {len(rows)} rows fire for a string starting with {head!r}')
        r = rows[0]
        node = r.path.events[-1].node if r.path.events else fn
        got = _cmpop_result(r.outcome, f'text starting {head!r}')
        if got is None:
            ctx.violation(mod, '_version_extract_cmpop', node, f'for a constraint starting with {head!r} the result is not an (operator, rest) pair: {r.outcome}')
            continue
        ctx.require(got == (want_op, len(best)),
                    f'text starting {head!r}: operator {want_op}, {len(best)} characters removed', mod, '_version_extract_cmpop', node,
                    f'for a constraint starting with {head!r} the code selects operator.{got[0]} and strips {got[1]} characters; '
                    f'documented: operator.{want_op}, {len(best)}')
    # version_compare applies the operator to (Version(v1), Version(rest)) in that order
    vc = mod.func('version_compare')
    calls = [c for c in ast.walk(vc) if isinstance(c, ast.Call) and norm(c.func) == 'cmpop']
    ok = len(calls) == 1 and [norm(a) for a in calls[0].args] == ['Version(vstr1)', 'Version(vstr2)']
    ctx.require(ok, 'version_compare applies cmpop(Version(lhs), Version(rest))', mod, 'version_compare', vc, 'operand order / wrapping changed in version_compare')
    _r3_compare_many(ctx, mod)


def _r3_compare_many(ctx: RuleCtx, mod: T.Any) -> None:
    """version_compare_many: a requirement goes to the failed list iff version_compare is false; the verdict is
    'the failed list is empty'.  The two lists are identified by their role, not by their name."""
    vm = mod.func('version_compare_many')
    vmn = normalise(vm)
    loops = [s for s in ast.walk(vmn) if isinstance(s, ast.For)]
    if not loops or len({norm(l) for l in loops}) != 1:
        raise Undecided('version_compare_many: expected one loop over the requirements')
    tab2 = tables.extract(vmn, body=loops[0].body, name='version_compare_many:loop', inline=False,
                          effects=lambda st: norm(st) if isinstance(st, ast.Expr) else None)
    role: T.Dict[bool, T.Set[str]] = {True: set(), False: set()}
    for r in tab2.rows:
        held = [v for a, v in r.conds.items() if 'version_compare(' in repr(a)]
        if len(held) != 1:
            raise Undecided(f'version_compare_many: row without exactly one version_compare test: {r!r}')
        effs = list(r.effects)
        m = None
        if len(effs) == 1:
            e = ast.parse(effs[0], mode='eval').body
            if isinstance(e, ast.Call) and isinstance(e.func, ast.Attribute) and e.func.attr == 'append' and isinstance(e.func.value, ast.Name) \
                    and len(e.args) == 1 and norm(e.args[0]) == norm(loops[0].target):
                m = e.func.value.id
        if m is None:
            ctx.violation(mod, 'version_compare_many', repr(r), f'row {r!r} should append the requirement to exactly one result list', r.path.events[-1].node if r.path.events else vm)
            continue
        role[held[0]].add(m)
    ok = len(role[True]) == 1 and len(role[False]) == 1 and role[True] != role[False]
    ctx.require(ok, f'version_compare_many: satisfied -> {sorted(role[True])}, failed -> {sorted(role[False])}', mod, 'version_compare_many', vm,
                f'satisfied requirements are appended to {sorted(role[True])}, failed ones to {sorted(role[False])}: the two lists are not kept apart')
    if not ok:
        return
    good, failed = next(iter(role[True])), next(iter(role[False]))
    rets = [s for s in walk_no_nested(vmn) if isinstance(s, ast.Return)]
    ctx.floor('version_compare_many returns', len(rets), 1)
    for ret in {norm(s): s for s in rets}.values():
        v = ret.value
        if not (isinstance(v, ast.Tuple) and len(v.elts) == 3):
            raise Undecided(f'version_compare_many: cannot read the result {short(ret)}')
        em = _emptiness(v.elts[0])
        if em is None:
            raise Undecided(f'version_compare_many: cannot read the verdict {short(v.elts[0])}')
        ctx.require(em == ('empty', failed), f'version_compare_many: verdict is "`{failed}` is empty"', mod, 'version_compare_many', ret,
                    f'the overall verdict `{norm(v.elts[0])}` is not "no failed constraint" (`not {failed}`)')
        ctx.require([norm(x) for x in v.elts[1:]] == [failed, good], 'version_compare_many: returns (verdict, failed, satisfied)', mod,
                    'version_compare_many', ret, f'the lists are returned as {[norm(x) for x in v.elts[1:]]}; expected [{failed}, {good}]')


def _truth(name: str) -> Atom:
    return Atom('truth', (name,))


def _assign_effects(st: ast.AST) -> T.Optional[str]:
    if isinstance(st, ast.Assign) and len(st.targets) == 1:
        t, v = st.targets[0], st.value
        if isinstance(t, ast.Tuple) and isinstance(v, ast.Tuple) and len(t.elts) == len(v.elts):
            return '; '.join(f'{norm(a)} := {norm(b)}' for a, b in zip(t.elts, v.elts))
        return f'{norm(t)} := {norm(v)}'
    if isinstance(st, ast.Expr) and isinstance(st.value, ast.Call):
        return 'call ' + norm(st.value)
    return None


def _effs(row: tables.Row) -> T.List[str]:
    out: T.List[str] = []
    for e in row.effects:
        out.extend(x.strip() for x in e.split(';'))
    return out


def r4_contains(ctx: RuleCtx) -> None:
    mod = ctx.repo.module(UNIVERSAL)
    fn = mod.func('Range.__contains__')
    tab = tables.extract(normalise(fn), inline=False, bool_returns=True, name='Range.__contains__')
    sem = {
        _truth('self.is_empty'): 'empty',
        Atom('is', ('self.min', 'None')): 'min_none', Atom('is', ('self.max', 'None')): 'max_none',
        _truth('self.min_eq'): 'min_eq', _truth('self.max_eq'): 'max_eq',
        Atom('cmp', ('lt', 'ARG1', 'self.min')): 'x<min', Atom('cmp', ('lt', 'self.min', 'ARG1')): 'x>min',
        Atom('cmp', ('lt', 'ARG1', 'self.max')): 'x<max', Atom('cmp', ('lt', 'self.max', 'ARG1')): 'x>max',
    }
    extra = list(sem)

    def view(w: T.Dict[Atom, bool]) -> T.Any:
        return {k: w.get(a) for a, k in sem.items()}

    def ref(v: T.Dict[str, T.Any]) -> T.Any:
        if v['empty']:
            return False
        if not v['min_none']:
            below = v['x<min'] if v['min_eq'] else not v['x>min']
            if below:
                return False
        if not v['max_none']:
            above = v['x>max'] if v['max_eq'] else not v['x<max']
            if above:
                return False
        return True
    _compare(ctx, mod, 'Range.__contains__', fn, tab, sem, view, ref, lambda r: r.outcome == ('return', 'True'), extra)


def _compare(ctx: RuleCtx, mod: T.Any, qn: str, fn: ast.AST, tab: tables.Table, sem: T.Dict[Atom, str],
             view: T.Callable[[T.Dict[Atom, bool]], T.Any], ref: T.Callable[[T.Any], T.Any], got: T.Callable[[tables.Row], T.Any],
             extra: T.Iterable[Atom] = ()) -> None:
    unknown = [a for a in tab.atoms() if a not in sem]
    if unknown:
        raise Undecided(f'{qn}: atoms outside the reference vocabulary: {unknown}')
    n = 0
    bad: T.Dict[str, T.Any] = {}
    for w in tab.worlds(extra):
        v = view(w)
        if v is None:
            continue
        want = ref(v)
        if want is None:
            continue
        rows = tab.fire(w)
        n += 1
        if len(rows) != 1:
            raise Undecided(f'{qn}: {len(rows)} rows fire in world {w}')
        g = got(rows[0])
        if g != want:
            bad.setdefault(repr(rows[0]), (rows[0], g, want, {sem[a]: x for a, x in w.items() if a in sem}))
    for key, (row, g, want, vw) in bad.items():
        node = row.path.events[-1].node if row.path.events else fn
        ctx.violation(mod, qn, key, f'row `{key}` yields {g!r}; the reference range algebra requires {want!r} (e.g. for {vw})', node)
    if not bad:
        ctx.ok(f'{qn}: {len(tab.rows)} rows agree with the reference on {n} worlds')
    ctx.note(f'{qn}: table {tab.dump()}')


def r4_post_init(ctx: RuleCtx) -> None:
    mod = ctx.repo.module(UNIVERSAL)
    fn = mod.func('Range.__post_init__')
    tab = tables.extract(normalise(fn), inline=False, effects=_assign_effects, name='Range.__post_init__')
    sem = {
        Atom('is', ('self.min', 'None')): 'min_none', Atom('is', ('self.max', 'None')): 'max_none',
        _truth('self.min_eq'): 'min_eq', _truth('self.max_eq'): 'max_eq',
        Atom('cmp', ('lt', 'self.min', 'self.max')): 'min<max', Atom('cmp', ('eq', 'self.max', 'self.min')): 'min==max',
        Atom('cmp', ('eq', 'self.min', 'self.max')): 'min==max',
        Atom('cmp', ('lt', 'self.max', 'self.min')): 'min>max',
    }

    def view(w: T.Dict[Atom, bool]) -> T.Any:
        return {k: w.get(a) for a, k in sem.items() if a in w}

    def ref(v: T.Dict[str, T.Any]) -> T.Any:
        if v.get('min_none') or v.get('max_none'):
            return 'unchanged'
        lt = v.get('min<max')
        eq = v.get('min==max')
        if lt is None and 'min>max' in v:
            lt = (not v['min>max']) and not eq
        if lt:
            return 'nonempty'
        if eq and v.get('min_eq') and v.get('max_eq'):
            return 'nonempty'
        return 'empty'

    def got(r: tables.Row) -> str:
        effs = _effs(r)
        last = [e for e in effs if e.startswith('self.is_empty :=')]
        if not last:
            return 'unchanged'
        if last[-1].endswith('True'):
            ok = 'self.min := None' in effs and 'self.max := None' in effs
            return 'empty' if ok else 'empty-without-clearing-bounds'
        return 'nonempty'
    _compare(ctx, mod, 'Range.__post_init__', fn, tab, sem, view, ref, got)


def _r4_intersect_side(ctx: RuleCtx, side: str) -> None:
    mod = ctx.repo.module(UNIVERSAL)
    qn = f'Range._intersect_{side}'
    fn = mod.func(qn)
    tab = tables.extract(normalise(fn), inline=False, effects=_assign_effects, name=qn)
    f, fe = f'self.{side}', f'self.{side}_eq'
    tighter = Atom('cmp', ('lt', f, 'ARG1')) if side == 'min' else Atom('cmp', ('lt', 'ARG1', f))
    looser = Atom('cmp', ('lt', 'ARG1', f)) if side == 'min' else Atom('cmp', ('lt', f, 'ARG1'))
    sem = {Atom('is', (f, 'None')): 'none', tighter: 'tighter', looser: 'looser', Atom('cmp', ('eq', 'ARG1', f)): 'equal'}

    def view(w: T.Dict[Atom, bool]) -> T.Any:
        return {k: w.get(a) for a, k in sem.items()}

    def ref(v: T.Dict[str, T.Any]) -> T.Any:
        if v['none'] or v['tighter']:
            return 'replace'
        if v['equal']:
            return 'and'
        return 'keep'

    def got(r: tables.Row) -> str:
        effs = set(_effs(r))
        if not effs:
            return 'keep'
        if effs == {f'{f} := ARG1', f'{fe} := ARG2'}:
            return 'replace'
        if effs in ({f'{fe} := ARG2 and {fe}'}, {f'{fe} := {fe} and ARG2'}):
            return 'and'
        return 'other:' + ';'.join(sorted(effs))
    _compare(ctx, mod, qn, fn, tab, sem, view, ref, got, list(sem))


def r4_intersect(ctx: RuleCtx) -> None:
    _r4_intersect_side(ctx, 'min')
    _r4_intersect_side(ctx, 'max')
    mod = ctx.repo.module(UNIVERSAL)
    fn = mod.func('Range.intersect')
    tab = tables.extract(normalise(fn, module=mod.tree), inline=False, effects=_assign_effects, name='Range.intersect')
    sem = {_truth('ARG1.is_empty'): 'x_empty', _truth('self.is_empty'): 'self_empty',
           Atom('is', ('ARG1.min', 'None')): 'xmin_none', Atom('is', ('ARG1.max', 'None')): 'xmax_none'}

    def view(w: T.Dict[Atom, bool]) -> T.Any:
        return {k: w.get(a) for a, k in sem.items()}

    def ref(v: T.Dict[str, T.Any]) -> T.Any:
        if v['x_empty']:
            return ('copy-x',)
        if v['self_empty']:
            return ('copy-self',)
        calls = []
        if not v['xmin_none']:
            calls.append('min')
        if not v['xmax_none']:
            calls.append('max')
        return ('copy-self', *calls, 'normalise')

    def got(r: tables.Row) -> T.Any:
        if r.outcome[0] != 'return':
            return r.outcome
        ret = r.outcome[1]
        effs = _effs(r)
        if ret in ('copy.copy(ARG1)', 'copy(ARG1)'):
            return ('copy-x',)
        res = None
        out: T.List[str] = []
        for e in effs:
            if e.endswith(':= copy.copy(self)') or e.endswith(':= copy(self)'):
                res = e.split(':=')[0].strip()
                out.append('copy-self')
            elif res and e == f'call {res}._intersect_min(ARG1.min, ARG1.min_eq)':
                out.append('min')
            elif res and e == f'call {res}._intersect_max(ARG1.max, ARG1.max_eq)':
                out.append('max')
            elif res and e == f'call {res}.__post_init__()':
                out.append('normalise')
            else:
                out.append('other:' + e)
        if ret != res:
            out.append('returns:' + ret)
        return tuple(out)
    _compare(ctx, mod, 'Range.intersect', fn, tab, sem, view, ref, got, list(sem))

    fn = mod.func('Range.always')
    # a returned local (`verdict = False ... return verdict`) is resolved by its reaching definition on the path
    tab = tables.extract(normalise(fn, calls={'intersect'}), inline=False, name='Range.always')
    nar = 'self.intersect(ARG1)'
    sem2 = {_truth(f'{nar}.is_empty'): 'empty', Atom('cmp', ('eq', nar, 'self')): 'same', Atom('cmp', ('eq', 'self', nar)): 'same'}

    def view2(w: T.Dict[Atom, bool]) -> T.Any:
        return {k: w.get(a) for a, k in sem2.items() if a in w}

    def ref2(v: T.Dict[str, T.Any]) -> T.Any:
        if v.get('empty'):
            return 'False'
        if v.get('same'):
            return 'True'
        return 'None'
    _compare(ctx, mod, 'Range.always', fn, tab, sem2, view2, ref2, lambda r: r.outcome[1] if r.outcome[0] == 'return' else r.outcome)


REF_CHECK = {  # op -> Range keyword arguments (V = Version(v))
    'ge': {'min': 'V', 'min_eq': 'True'}, 'gt': {'min': 'V', 'min_eq': 'False'},
    'le': {'max': 'V', 'max_eq': 'True'}, 'lt': {'max': 'V', 'max_eq': 'False'},
    'eq': {'min': 'V', 'max': 'V', 'min_eq': 'True', 'max_eq': 'True'},
}
ALL_OPS = set(REF_CHECK) | {'ne'}
Term = T.Tuple[T.Tuple[str, str], ...]


def _range_fields(mod: T.Any) -> T.List[T.Tuple[str, str]]:
    """Declared fields of the Range dataclass with their constant defaults (declaration order = positional order)."""
    out: T.List[T.Tuple[str, str]] = []
    for st in mod.cls('Range').body:
        if isinstance(st, ast.AnnAssign) and isinstance(st.target, ast.Name):
            if not isinstance(st.value, ast.Constant):
                raise Undecided(f'Range.{st.target.id}: the default is not a constant')
            out.append((st.target.id, norm(st.value)))
    if not out:
        raise Undecided('Range declares no fields')
    return out


def _term(kw: T.Dict[str, str], fields: T.List[T.Tuple[str, str]]) -> Term:
    """Canonical constraint: the keyword arguments that differ from the declared default."""
    dflt = dict(fields)
    return tuple(sorted((k, v) for k, v in kw.items() if dflt.get(k) != v))


class _RangeReader:
    """Reads the *shape* of a range-valued expression: a chain `A.intersect(B)...` of `Range(k=..)` constructor
    calls -> the list of constraints (policy form (d): no value is computed).  A call of an entry of a constant
    dispatch table `T.get(op)(v)` / `T[op](v)` is read through the lambda stored for the operator at hand."""

    def __init__(self, ctx: RuleCtx, mod: T.Any, opvar: str, vvar: str):
        self.ctx, self.mod, self.opvar, self.vvar = ctx, mod, opvar, vvar
        self.fields = _range_fields(mod)
        self.tables: T.Dict[str, T.Dict[str, ast.Lambda]] = {}

    def table(self, name: str) -> T.Dict[str, ast.Lambda]:
        if name not in self.tables:
            from .c19_fold import fold_operator_table
            self.tables[name] = fold_operator_table(self.ctx.repo, self.mod, name)
        return self.tables[name]

    def lookup(self, e: ast.AST) -> T.Optional[str]:
        """`T.get(op)` / `T[op]` -> 'T'."""
        if isinstance(e, ast.Call) and isinstance(e.func, ast.Attribute) and e.func.attr == 'get' and isinstance(e.func.value, ast.Name) \
                and len(e.args) == 1 and not e.keywords and norm(e.args[0]) == self.opvar:
            return e.func.value.id
        if isinstance(e, ast.Subscript) and isinstance(e.value, ast.Name) and norm(e.slice) == self.opvar:
            return e.value.id
        return None

    def value(self, e: ast.AST) -> str:
        t = norm(e)
        return 'V' if t == f'Version({self.vvar})' else t

    def terms(self, e: ast.AST, op: str) -> T.List[Term]:
        if isinstance(e, ast.Call) and isinstance(e.func, ast.Attribute) and e.func.attr == 'intersect' and len(e.args) == 1 and not e.keywords:
            return self.terms(e.func.value, op) + self.terms(e.args[0], op)
        if isinstance(e, ast.Call) and norm(e.func) == 'Range':
            names = [f for f, _ in self.fields]
            if len(e.args) > len(names) or any(k.arg is None for k in e.keywords) or any(isinstance(a, ast.Starred) for a in e.args):
                raise Undecided(f'version_check_to_range: cannot read the arguments of {short(e)}')
            kw = {names[i]: self.value(a) for i, a in enumerate(e.args)}
            kw.update({k.arg: self.value(k.value) for k in e.keywords})     # type: ignore[misc]
            return [_term(kw, self.fields)]
        if isinstance(e, ast.Call):
            tname = self.lookup(e.func)
            if tname is not None:
                lam = self.table(tname).get(op)
                if lam is None:
                    raise Undecided(f'version_check_to_range: {tname} has no entry for operator.{op} on a row that uses it')
                a = lam.args
                if a.vararg or a.kwarg or a.kwonlyargs or a.defaults or e.keywords or len(a.posonlyargs + a.args) != len(e.args):
                    raise Undecided(f'version_check_to_range: cannot bind the arguments of {short(lam)}')
                from ..tables import _Subst
                body = _Subst({p.arg: x for p, x in zip(a.posonlyargs + a.args, e.args)}).visit(ast.parse(norm(lam.body), mode='eval').body)
                return self.terms(body, op)
        raise Undecided(f'version_check_to_range: cannot read the range built by {short(e)}')


def names_in_text(text: str) -> T.Set[str]:
    try:
        return {n.id for n in ast.walk(ast.parse(text, mode='eval')) if isinstance(n, ast.Name)}
    except SyntaxError:
        return set()


def _resolve_effects(effs: T.List[str]) -> T.Dict[str, ast.AST]:
    """Last value stored to each plain local on one row, with earlier locals of the same row substituted
    (reaching definitions along one path)."""
    from ..tables import _Subst
    env: T.Dict[str, ast.AST] = {}
    for e in effs:
        if ':=' not in e or e.startswith('call '):
            touched = names_in_text(e[5:] if e.startswith('call ') else e) & set(env)
            if touched:
                raise Undecided(f'version_check_to_range: `{e}` may change the value of {sorted(touched)} after it was built')
            continue
        t, v = (x.strip() for x in e.split(':=', 1))
        if not t.isidentifier():
            touched = names_in_text(t) & set(env)
            if touched:
                raise Undecided(f'version_check_to_range: `{e}` stores into {sorted(touched)} after it was built')
            continue
        env[t] = _Subst(dict(env)).visit(ast.parse(v, mode='eval').body)
    return env


def r4_check_to_range(ctx: RuleCtx) -> None:
    mod = ctx.repo.module(UNIVERSAL)
    fn = mod.func('version_check_to_range')
    fnn = normalise(fn, calls={'Version', 'Range', 'intersect'})
    loops = [s for s in fnn.body if isinstance(s, ast.For)]
    if len(loops) != 1:
        raise Undecided('version_check_to_range: expected one loop over the checks')
    tab = tables.extract(fnn, body=loops[0].body, effects=_assign_effects, inline=False, name='version_check_to_range:loop')
    opvar = vvar = None
    for st in ast.walk(loops[0]):
        if isinstance(st, ast.Assign) and isinstance(st.value, ast.Call) and norm(st.value.func) == '_version_extract_cmpop':
            t = st.targets[0]
            if isinstance(t, ast.Tuple) and len(t.elts) == 2:
                opvar, vvar = norm(t.elts[0]), norm(t.elts[1])
    if opvar is None or vvar is None:
        raise Undecided('version_check_to_range: operator extraction call not found')
    params = [a.arg for a in fn.args.args]
    if len(params) != 2:
        raise Undecided('version_check_to_range: expected (checks, start)')
    acc = 'ARG2'
    rd = _RangeReader(ctx, mod, opvar, vvar)
    seen_ops: T.Set[str] = set()
    for r in tab.rows:
        op_true: T.Set[str] = set()
        op_false: T.Set[str] = set()
        feasible = True
        present: T.List[T.Set[str]] = []
        for a, v in r.conds.items():
            if a.kind == 'is' and a.args[0] == opvar and a.args[1].startswith('operator.'):
                (op_true if v else op_false).add(a.args[1].split('.', 1)[1])
            tname, has = None, v
            if a.kind == 'is' and a.args[1] == 'None':
                tname, has = rd.lookup(ast.parse(a.args[0], mode='eval').body), not v
            elif a.kind == 'in' and a.args[0] == opvar and a.args[1].isidentifier():
                tname = a.args[1]
            if tname is not None:
                keys = set(rd.table(tname))
                if has:
                    present.append(keys)
                else:
                    op_false |= keys
        # the operators this row stands for: a finite domain (the six functions _version_extract_cmpop returns),
        # `x is A` excludes `x is B`, membership in a constant table is decided by its keys
        if len(op_true) > 1:
            continue
        cand = (set(op_true) if op_true else set(ALL_OPS)) - op_false
        for keys in present:
            cand &= keys
        if not cand:
            continue       # infeasible row, or no operator matched: nothing is built
        node = r.path.events[-1].node if r.path.events else fn
        effs = _effs(r)
        env = _resolve_effects(effs)
        final = env.get(acc)
        narrowed = isinstance(final, ast.Call) and isinstance(final.func, ast.Attribute) and final.func.attr == 'intersect' \
            and norm(final.func.value) == acc and len(final.args) == 1
        if final is not None and not narrowed:
            raise Undecided(f'version_check_to_range: cannot read how the range is narrowed: {short(final)}')
        if narrowed and isinstance(final.args[0], ast.Name):          # type: ignore[union-attr]
            # the operand has no definition on this row (no arm ran): nothing is built for these operators, unless the
            # local is also bound outside the loop body (then the rule cannot tell what it holds)
            n = final.args[0].id                                        # type: ignore[union-attr]
            outside = [x for x in ast.walk(fnn) if isinstance(x, ast.Name) and x.id == n and isinstance(x.ctx, ast.Store)
                       and not any(x is y for y in ast.walk(loops[0]))]
            if n in params or outside:
                raise Undecided(f'version_check_to_range: `{n}` is bound outside the loop; cannot read the range of row {r!r}')
            ctx.note(f'version_check_to_range: operators {sorted(cand)}: no arm builds a range (row {r!r})')
            continue
        for op in sorted(cand):
            seen_ops.add(op)
            ctx.require(narrowed, f'{op}: the range is narrowed by intersect', mod, 'version_check_to_range', node,
                        f'row for operator {op} does not end with start = start.intersect(r)')
            if not narrowed:
                continue
            got = sorted(t for t in rd.terms(final.args[0], op) if t)        # type: ignore[union-attr]
            if op in REF_CHECK:
                want = [_term(REF_CHECK[op], rd.fields)]
                what = f'operator {op} builds Range({REF_CHECK[op]})'
            else:
                # != : the full range, minus an extremum of the current range that it equals
                def eq_bound(side: str) -> bool:
                    vals = [v for a, v in r.conds.items() if a.kind == 'cmp' and a.args[0] == 'eq'
                            and set(a.args[1:]) == {f'Version({vvar})', f'{acc}.{side}'}]
                    return bool(vals and vals[0])
                want = []
                if eq_bound('min'):
                    want.append(_term({'min': 'V', 'min_eq': 'False'}, rd.fields))
                if eq_bound('max'):
                    want.append(_term({'max': 'V', 'max_eq': 'False'}, rd.fields))
                what = f'!= row ({"min" if eq_bound("min") else ""}{"max" if eq_bound("max") else ""}) removes only the extrema'
            ctx.require(got == sorted(want), what, mod, 'version_check_to_range', node,
                        f'operator {op}: the row `{r!r}`'[:400] + f' intersects with {[dict(t) for t in got]}; the reference is {[dict(t) for t in sorted(want)]}')
    ctx.require(seen_ops == ALL_OPS, f'all operators have a row: {sorted(seen_ops)}', mod, 'version_check_to_range', fn,
                f'operators with a row: {sorted(seen_ops)}; expected {sorted(ALL_OPS)}')
    # condition_with_min
    fn2 = mod.func('version_compare_condition_with_min')
    tab2 = tables.extract(fn2, name='version_compare_condition_with_min')
    for r in tab2.rows:
        mn = [v for a, v in r.conds.items() if a == Atom('is', ('ARG1.min', 'None')) or (a.kind == 'is' and a.args[1] == 'None' and a.args[0].endswith('.min'))]
        if not mn:
            raise Undecided(f'version_compare_condition_with_min: row without min test: {r!r}')
        if mn[0]:
            ok = r.outcome[0] == 'return' and r.outcome[1].endswith('.is_empty')
            ctx.require(ok, 'no lower bound: result is is_empty', mod, 'version_compare_condition_with_min', fn2, f'no-minimum row returns {r.outcome}')
        else:
            e = ast.parse(r.outcome[1], mode='eval').body if r.outcome[0] == 'return' else None
            ok = isinstance(e, ast.Compare) and len(e.ops) == 1 and (
                (isinstance(e.ops[0], ast.LtE) and norm(e.left) == 'Version(ARG2)' and norm(e.comparators[0]).endswith('.min')) or
                (isinstance(e.ops[0], ast.GtE) and norm(e.comparators[0]) == 'Version(ARG2)' and norm(e.left).endswith('.min')))
            ctx.require(ok, 'lower bound: result is Version(minimum) <= condition.min', mod, 'version_compare_condition_with_min', fn2,
                        f'lower-bound row returns {r.outcome}')


RULES = [
    Rule('C19.R1', 'one comparison core; ==/!=/hash on the same field', r1),
    Rule('C19.R2', 'symmetric ranking keys [kind, value, length]', r2),
    Rule('C19.R3', 'operator prefix chain: longest prefix first, matching slice', r3),
    Rule('C19.R4a', 'Range.__contains__ boundary table', r4_contains),
    Rule('C19.R4b', 'Range.__post_init__ emptiness table', r4_post_init),
    Rule('C19.R4c', 'Range._intersect_min/_max/intersect/always tables', r4_intersect),
    Rule('C19.R4d', 'version_check_to_range operator table', r4_check_to_range),
    Rule('C19.R5', 'if-clause narrowing: always() receiver/argument roles, narrowed range stored, saved range restored on every path', r5),
]
