"""C19 — version comparison order and constraint logic (DESIGN §2 C19)."""
from __future__ import annotations

import ast
import typing as T

from ..core import Undecided, norm, short, attr_chain, walk_no_nested
from ..report import Rule, RuleCtx
from .. import tables
from ..tables import Atom
from . import cmpcore
from .c19_norm import normalise, normal_form, record_as_tuple, record_fields
from .c19_site import r5, r6, r7

UNIVERSAL = 'mesonbuild/utils/universal.py'

EXPLANATION = (
    'Decides structural clauses of C19: R1 the four ordering dunders of Version delegate to one comparison core with '
    'operator.lt/gt/le/ge and ==/!=/hash read the same field; R2 every result of the core is comparator(f(ours), f(theirs)) '
    'with one projection on both sides, and the (projection, direction) sequence is [kind: int above str, value, length]; '
    'R3 the rows of _version_extract_cmpop pick the longest documented prefix and return (operator, text minus that many characters); '
    'version_compare_many files a requirement under "failed" iff version_compare is false and its verdict is "failed is empty"; '
    'R4 the decision tables of Range.__contains__/__post_init__/_intersect_min/_intersect_max/intersect/always and '
    'version_check_to_range equal the reference range algebra on every world of their atoms. '
    'All tables are extracted after a syntactic normalisation (c19_norm: tail duplication + forward substitution of locals by their '
    'reaching definition), so early returns vs. if/elif with a result variable, named sub-conditions, hoisted attribute reads and '
    'renamed locals give the same rows; a constant module-level dict {operator.X: lambda v: Range(..)} is folded and read arm by arm. '
    'R2 also: every ranking key is the kind, the component itself or the field length - a projection (e.g. .lower()) that __eq__/__hash__ do not '
    'apply makes <, ==, > inconsistent and is a violation; '
    'R5 (interpreterbase.py, if-clause narrowing): by origin, the receiver of Range.always is the project range read from project_meson_versions[..] '
    'and its argument the condition range self.tmp_meson_version (through locals and one level of private helpers), the value stored for the branch is '
    'their intersection, and the saved range is stored back on every CFG path out of the branch and before the table is read again. '
    'R5 does NOT model exceptions raised by statements outside any try other than control-flow requests of self-calls (round 12), nor writers of tmp_meson_version in other modules. '
    'Round 6: anchors are found by role and followed through helpers - the token producer (comprehension or append-loop, in __init__ or a module helper), '
    'the accumulator of version_check_to_range (the range returned after the loop), the lists of version_compare_many (loop or filtering comprehensions), '
    'the (operator, rest) pair of version_compare; Range.intersect is ONE table after inlining its private helpers; ==/!= are read from their decision tables; '
    'ranking-key guards are decided by world enumeration.  A violation always names a construct that does the wrong thing on a path; code the pack cannot read is Undecided. '
    'Round 7: every table is extracted from ONE normal form (c19_norm.normal_form): private helpers of the class/module inlined with arguments bound by '
    'signature (effect, value-returning, in if-tests; repeated after normalisation), loops over constant tables (module or local tuple/dict, .items()) unrolled, '
    'module literals and len() of constants folded, walrus / conditional-expression returns / list-growth spellings / m.groups() / index loops / EAFP lookups desugared; '
    'the comparison core is found by role (method, Class.m(self,..), staticmethod or module function; operands bound by signature); Range.intersect is judged on the final '
    'bound and flag value per world. R3 also: the requirements iterable is walked at most once per path (typestate), and blanks before the operator must not select the '
    'operator (armed finding); R6: no call site uses the 3-tuple of version_compare_many as a truth value (armed finding). '
    'Round 8: the normal form also folds operator.xx(a, b) into comparisons, a match of a regex that is a plain alternation of literals into the startswith chain '
    '(m.group()/m.end()/`m is None` folded), `T[k]`/`T.get(k)` on constant dicts (module or local) with a literal key, NamedTuple/dataclass record fields, '
    'functools.partial aliases of private helpers, staticmethod helpers, and inlines a helper that returns from inside a loop when the rest of the caller is terminal; '
    'the comparison core may compare sort-key sequences (`comparator([key(c) for c in a], [key(c) for c in b])`: keys in order, then the length). '
    'R3 also: an exit of version_compare_many without failed requirements reports success; R5 also: the condition range is reset between two branches of an if/elif chain; '
    'R7: the version_compare method answers with the verdict of version_compare_many (range membership returned as the verdict is a violation). '
    'Round 9: also normalised - an index loop whose bound was hoisted into a local, `for T in map(f, xs)`, a callable picked first (`(f if c else g)(x)`), '
    'a NamedTuple result read by field name (the (operator, version) pair), min()/max() as pure values; intersect may return the unchanged copy directly. '
    'Round 10: also normalised - a lookup with a computed key in a small constant table (chain of `K == k`), `s[:n] == lit` as startswith, `x = A if c else B` / '
    '`for t in (A if c else B)` / `(A if c else B).m(..)` as if/else, partial(f, a)(x) as f(a, x) (also through a local), repeated strip(); the comparison core may answer '
    'three-way (negative/zero/positive) with the dunders comparing the answer with 0. '
    'Round 11: also read - ordering dunders generated in the class body from a template function (`__lt__ = _tmpl(operator.lt)`) or aliased, the findall() form of the token '
    'producer, a keyword dict grown by update()/item stores and splatted (`Range(**bounds)`), range constraints compared as half-ranges. R3 also: a constant verdict of '
    'version_compare on a path whose tests do not look at the operator; R7 also: the condition range is not recorded on a path that saw a `!=` constraint (flags by constant '
    'propagation, flag = any(..), predicate helper). '
    'Round 12: also read - a left fold `reduce(step, xs, init)` (step = private function or lambda) as the accumulating loop; the emptiness normalisation of Range called under the name of the '
    'private method/function that __post_init__ merely delegates to (R4c treats it as one call of the normaliser, R4b judges its body); every distinct copy of the filing loop of '
    'version_compare_many after tail duplication. R4d also: a row whose new accumulator does not depend on the accumulated range drops the earlier checks. '
    'R6 also: a call site that tests the satisfied list (3rd element) while it consults neither the verdict nor, in a test, the failed list decides on "some requirement holds" '
    '(elements attributed to the call by reaching definitions; `x[2]`, unpacked names, len()/== [] spellings). R5 also: while the narrowed range is stored, a `self.` call that can leave through '
    'a control-flow request (exception classes the source derives directly from BaseException: continue/break/subdir_done; who-may-raise closure over self-calls in the module) must stand under a '
    'try whose finally / catch-all handler stores the saved range back; a handler that restores but is not catch-all, or a callee that writes the table itself, ends Undecided. '
    'Round 13: also read - a three-way core that answers `(x > y) - (x < y)` (the sign of comparing x with y, directly or through a private helper; mirrored spellings) as the key of x/y with its direction; '
    'named constructors of Range (classmethod/staticmethod of Range or a module function whose body is one `return Range(..)`/`cls(..)` expression) replaced by the constructor expression with the '
    'arguments bound by signature; public methods of Range other than intersect/always read through like private helpers (closed world: no subclass of Range in the module), so always() may be the '
    'projection `self.m(inner)[k]` of a pair-returning method (`(a, b)[k]` folded when the dropped elements are pure); R5 reads `a, b = r.m(x)` through the pair summary of m (element expression bound to '
    'receiver/argument) and treats `r.m(x)` as the always() question when Range.always is by definition `self.m(inner)[k]`. R4c also: a row of Range.always that answers False without the intersection '
    '(a shortcut on the bounds) must hold only where a lower bound of one range and the upper bound of the other exclude each other (above, or equal with an exclusive side - decided on the worlds of the '
    'pair\'s own atoms: None-ness, order, both inclusivity flags) or an operand is empty; a shortcut answering None is always allowed; one answering True ends Undecided; a verdict that is not one of '
    'True/False/None after normalisation is an unread shape (Undecided), never a violation. '
    'Does NOT decide at consumers of version_compare_many whether the branch taken on the verdict is the accepting one (polarity of the caller\'s own logic), nor decisions taken on a comparison of '
    'the list lengths. '
    'NOT decided: (a) if-clause narrowing is applied whatever the condition does with the result of version_compare (`not ..`, `.. or true`): the narrowed range is then '
    'not the set of versions that run the block - in scope of the property, but evaluate_if cannot see it and a rule would have to prescribe a design; '
    '(b) int() of a digit run longer than the interpreter limit raises ValueError (not an order property). '
    'Does NOT decide the order axioms on concrete version strings (tokenisation is run-time); a local whose definition may have been '
    'invalidated before its use, and range expressions that are not chains of Range(..)/.intersect(..), end Undecided.')
TECHNIQUE = ('decision tables by path enumeration over canonical atoms + world enumeration, after tail duplication and copy propagation of '
             'locals; symbolic comparison of row outcomes/effects; constant folding of a dispatch table; def-use roles of call-site operands + CFG must-pass-through')
ASSUMPTIONS = ['operator.lt/gt/le/ge/eq/ne and Python tuple/int/str comparison behave as documented',
               'dataclasses generates __eq__ for Range over all five fields']

# reference: documented comparison prefixes (Reference manual: version_compare) -> operator
PREFIXES = {'>=': 'ge', '<=': 'le', '!=': 'ne', '==': 'eq', '=': 'eq', '>': 'gt', '<': 'lt'}


ANCHORED = {'_version_extract_cmpop'}       # helpers that have a table of their own: their calls stay calls


RANGE_TABLES = {'intersect', 'always'}       # public methods of Range that have a table of their own: their calls stay calls


def _public_methods(mod: T.Any, cls: str) -> T.Set[str]:
    """Public (non-dunder, non-private) plain methods of `cls` that may be read through like private helpers (round 13: a
    query merged into / split off a public sibling, e.g. always() as a projection of a pair-returning method): closed world -
    no class of the module derives from `cls`, so `self.m(..)` is that method."""
    for c in ast.walk(mod.tree):
        if isinstance(c, ast.ClassDef) and any(cls in {n.id for n in ast.walk(b) if isinstance(n, ast.Name)} for b in c.bases):
            return set()
    return {m.name for m in mod.cls(cls).body if isinstance(m, ast.FunctionDef) and not m.name.startswith('_') and m.name not in RANGE_TABLES}


def _nf(mod: T.Any, fn: T.Any, cls: T.Optional[str] = None, calls: T.Iterable[str] = (), skip: T.Iterable[str] = ()) -> T.Any:
    """The normal form all tables are extracted from (see c19_norm.normal_form)."""
    public = _public_methods(mod, cls) if cls == 'Range' else set()
    return normal_form(fn, mod.tree, cls=cls, calls=calls, skip=(ANCHORED | set(skip)) - {fn.name}, public=public - {fn.name})


def _normaliser_names(mod: T.Any) -> T.Set[str]:
    """Names under which the emptiness normalisation of Range can be called: `__post_init__` and, transitively, the private
    method `self._m()` / module function `_f(self)` / `Range._m(self)` that a normaliser consists of (extract method so that the
    dunder is not called explicitly, E1), or a private method that only calls a normaliser (an alias)."""
    names = {'__post_init__'}

    def sole_call(f: ast.AST) -> T.Optional[str]:
        body = [st for st in f.body if not (isinstance(st, ast.Expr) and isinstance(st.value, ast.Constant)) and not isinstance(st, ast.Pass)]   # type: ignore[attr-defined]
        if len(body) != 1 or not isinstance(body[0], (ast.Expr, ast.Return)) or not isinstance(body[0].value, ast.Call):
            return None
        c = body[0].value
        params = [a.arg for a in f.args.posonlyargs + f.args.args]             # type: ignore[attr-defined]
        if not params or c.keywords:
            return None
        if isinstance(c.func, ast.Attribute) and norm(c.func.value) == params[0] and not c.args:
            return c.func.attr
        if isinstance(c.func, ast.Attribute) and norm(c.func.value) == 'Range' and [norm(a) for a in c.args] == [params[0]]:
            return c.func.attr
        if isinstance(c.func, ast.Name) and [norm(a) for a in c.args] == [params[0]]:
            return c.func.id
        return None
    cands: T.Dict[str, ast.AST] = {m.name: m for m in mod.cls('Range').body if isinstance(m, ast.FunctionDef)}
    for st in mod.tree.body:
        if isinstance(st, ast.FunctionDef) and st.name.startswith('_'):
            cands.setdefault(st.name, st)
    for _ in range(4):
        for nm, f in cands.items():
            tgt = sole_call(f)
            if tgt is None:
                continue
            if nm in names and tgt in cands and tgt.startswith('_'):
                names.add(tgt)          # a normaliser that only delegates: the delegate is the normaliser
            elif tgt in names and nm.startswith('_'):
                names.add(nm)           # an alias of a normaliser
    return names


def r1(ctx: RuleCtx) -> None:
    mod = ctx.repo.module(UNIVERSAL)
    core = cmpcore.one_core(ctx, mod, 'Version')
    ctx.check.extra['version_core'] = core


def r2(ctx: RuleCtx) -> None:
    mod = ctx.repo.module(UNIVERSAL)
    keys = cmpcore.ranking_keys(ctx, mod, 'Version')
    want = [('isinstance(@, int)', 'asc'), ('@', 'asc'), ('len(@)', 'asc')]
    # ==, < and > describe one relation only if "all ranking keys equal" is the same as __eq__ (R1: __eq__/__hash__ compare the raw
    # field): a component may be ranked by its kind, by itself and by the length of the field, never through another projection
    foreign = [k for k, _ in keys if k not in {w for w, _ in want}]
    if foreign:
        ctx.violation(mod, 'Version.__cmp', 'projection not applied by __eq__', f'the comparison core ranks components through {foreign} but __eq__/__ne__/__hash__ '
                      f'compare the raw components: unless that projection is one-to-one, for two versions that differ only under {foreign[0]} neither <, == nor > holds (<= and >= both hold); '
                      f'in any case the order is no longer [kind, value, length]')
    else:
        ctx.require(keys == want, f'Version ranking keys {keys}', mod, 'Version', 'ranking keys',
                    f'ranking keys are {keys}; reference (kind: int above str, value ascending, longer is greater) is {want}')
    # tokens: digits become int, letters stay str (the producer is found by role and followed into helpers)
    from .c19_tokens import check_tokens
    eq = mod.func('Version.__eq__')
    fields = {n.attr for n in ast.walk(eq) if isinstance(n, ast.Attribute) and isinstance(n.value, ast.Name) and n.value.id == 'self'}
    if len(fields) != 1:
        raise Undecided(f'Version.__eq__ reads {sorted(fields)}: cannot name the component field')
    check_tokens(ctx, mod, next(iter(fields)))


def _sample_heads() -> T.List[str]:
    alpha = ['>', '<', '=', '!', '1']
    return [''] + alpha + [a + b for a in alpha for b in alpha]


_MODULE_TREE: T.List[T.Any] = [None]


def _cmpop_result(ret: T.Tuple[T.Any, ...], where: str) -> T.Optional[T.Tuple[str, int]]:
    """Shape of one result of _version_extract_cmpop: `(operator.X, ARG1[n:]...[m:].strip())` -> (X, n+m).
    None: the row does not return a pair at all.  Shapes that cannot be read are Undecided."""
    if ret[0] != 'return':
        return None
    e = ast.parse(ret[1], mode='eval').body
    if _MODULE_TREE[0] is not None:
        e = record_as_tuple(_MODULE_TREE[0], e)          # a NamedTuple result is the tuple of its fields
    if not (isinstance(e, ast.Tuple) and len(e.elts) == 2):
        if isinstance(e, (ast.Name, ast.Call, ast.Subscript, ast.Attribute, ast.IfExp)):
            raise Undecided(f'_version_extract_cmpop: {where}: cannot read the result {ret[1]}')
        return None
    op = attr_chain(e.elts[0]) or ''
    if not op.startswith('operator.'):
        raise Undecided(f'_version_extract_cmpop: {where}: cannot read the operator in {ret[1]}')
    rest = e.elts[1]
    n = 0
    while True:
        if isinstance(rest, ast.Call) and isinstance(rest.func, ast.Attribute) and rest.func.attr == 'strip' and not rest.args and not rest.keywords:
            rest = rest.func.value      # whitespace around the version is not significant (the tokenizer skips it)
        elif isinstance(rest, ast.Subscript):
            sl = rest.slice
            if not (isinstance(sl, ast.Slice) and sl.upper is None and sl.step is None
                    and (sl.lower is None or (isinstance(sl.lower, ast.Constant) and isinstance(sl.lower.value, int) and sl.lower.value >= 0))):
                raise Undecided(f'_version_extract_cmpop: {where}: unknown rewrite {norm(e.elts[1])}')
            n += sl.lower.value if sl.lower is not None else 0      # type: ignore[attr-defined]
            rest = rest.value
        else:
            break
    if norm(rest) != 'ARG1':
        raise Undecided(f'_version_extract_cmpop: {where}: unknown rewrite {norm(e.elts[1])}')
    return op.split('.', 1)[1], n


def _emptiness(e: ast.AST) -> T.Optional[T.Tuple[str, str]]:
    """`not X` / `len(X) == 0` / `X == []` -> ('empty', X);  `bool(X)` / `len(X) > 0` / `X != []` -> ('nonempty', X)."""
    if isinstance(e, ast.UnaryOp) and isinstance(e.op, ast.Not):
        inner = _emptiness(e.operand)
        if inner is not None:
            return ('nonempty' if inner[0] == 'empty' else 'empty', inner[1])
        if isinstance(e.operand, ast.Name):
            return ('empty', e.operand.id)
        if isinstance(e.operand, ast.Call) and norm(e.operand.func) == 'len' and len(e.operand.args) == 1 and isinstance(e.operand.args[0], ast.Name):
            return ('empty', e.operand.args[0].id)
        return None
    if isinstance(e, ast.Call) and norm(e.func) == 'bool' and len(e.args) == 1 and isinstance(e.args[0], ast.Name):
        return ('nonempty', e.args[0].id)
    if isinstance(e, ast.Compare) and len(e.ops) == 1:
        l, r, op = e.left, e.comparators[0], e.ops[0]
        if isinstance(l, ast.Call) and norm(l.func) == 'len' and len(l.args) == 1 and isinstance(l.args[0], ast.Name) \
                and isinstance(r, ast.Constant) and r.value == 0:
            if isinstance(op, ast.Eq):
                return ('empty', l.args[0].id)
            if isinstance(op, (ast.Gt, ast.NotEq)):
                return ('nonempty', l.args[0].id)
        if isinstance(l, ast.Name) and isinstance(r, ast.List) and not r.elts:
            if isinstance(op, ast.Eq):
                return ('empty', l.id)
            if isinstance(op, ast.NotEq):
                return ('nonempty', l.id)
    return None


def r3(ctx: RuleCtx) -> None:
    mod = ctx.repo.module(UNIVERSAL)
    fn = mod.func('_version_extract_cmpop')
    # locals resolved by their reaching definition: the if/elif chain with `cmpop = ..; vstr2 = vstr2[n:]` and a
    # single trailing return gives the same rows as early returns of `(operator.X, vstr2[n:].strip())`
    _MODULE_TREE[0] = mod.tree
    tab = tables.extract(_nf(mod, fn), inline=False, name='_version_extract_cmpop')
    pre_atoms: T.Dict[Atom, str] = {}
    subjects: T.Set[str] = set()
    for a in tab.atoms():
        if a.kind == 'truth':
            e = ast.parse(a.args[0], mode='eval').body
            if isinstance(e, ast.Call) and isinstance(e.func, ast.Attribute) and e.func.attr == 'startswith' \
                    and norm(e.func.value) in ('ARG1', 'ARG1.strip()', 'ARG1.lstrip()') \
                    and len(e.args) == 1 and isinstance(e.args[0], ast.Constant) and isinstance(e.args[0].value, str):
                pre_atoms[a] = e.args[0].value
                subjects.add(norm(e.func.value))
                continue
        raise Undecided(f'_version_extract_cmpop: unknown atom {a!r}')
    if len(subjects) > 1:
        raise Undecided(f'_version_extract_cmpop: prefixes are tested on different texts {sorted(subjects)}')
    # whitespace: every row strips the remainder ('>= 1.0' is '>=1.0'), i.e. the function declares blanks around the version
    # insignificant; then blanks BEFORE the operator must not decide which operator is selected (' >=1.0' would silently become '==')
    stripped_rest = [r for r in tab.rows if r.outcome[0] == 'return' and '.strip()' in r.outcome[1]]
    if stripped_rest and len(stripped_rest) == len(tab.rows):
        ctx.require(subjects <= {'ARG1.strip()', 'ARG1.lstrip()'}, 'the operator prefix is looked for after leading blanks were removed', mod, '_version_extract_cmpop',
                    'operator prefix tested on the unstripped text',
                    'the remainder is stripped of blanks but the operator prefixes are tested on the unstripped text: with leading blanks no prefix matches and the '
                    'constraint silently turns into an equality test (version_compare("2.0", " >=1.0") is False, version_compare("1.0", " !=1.0") is True; '
                    'e.g. the parts of ">=1.0, <2.0".split(","))', fn)
    ctx.floor('operator prefixes tested', len(pre_atoms), 7)
    # a documented prefix that is not tested shows up below as a wrong row for the strings that start with it;
    # a tested prefix that is not documented is an operator meson does not have
    extra = sorted(set(pre_atoms.values()) - set(PREFIXES))
    ctx.require(not extra, f'prefixes tested {sorted(pre_atoms.values())}', mod, '_version_extract_cmpop', fn,
                f'the prefixes {extra} are accepted as comparison operators but are not documented ({sorted(PREFIXES)})')
    for head in _sample_heads():
        world = {a: head.startswith(p) for a, p in pre_atoms.items()}
        rows = tab.fire(world)
        cands = [p for p in PREFIXES if head.startswith(p)]
        best = max(cands, key=len) if cands else ''
        want_op = PREFIXES.get(best, 'eq')
        if len(rows) != 1:
            raise Undecided(f'_version_extract_cmpop: {len(rows)} rows fire for a string starting with {head!r}')
        r = rows[0]
        node = r.path.events[-1].node if r.path.events else fn
        got = _cmpop_result(r.outcome, f'text starting {head!r}')
        if got is None:
            ctx.violation(mod, '_version_extract_cmpop', node, f'for a constraint starting with {head!r} the result is not an (operator, rest) pair: {r.outcome}')
            continue
        ctx.require(got == (want_op, len(best)),
                    f'text starting {head!r}: operator {want_op}, {len(best)} characters removed', mod, '_version_extract_cmpop', node,
                    f'for a constraint starting with {head!r} the code selects operator.{got[0]} and strips {got[1]} characters; '
                    f'documented: operator.{want_op}, {len(best)}')
    _r3_version_compare(ctx, mod)
    _r3_compare_many(ctx, mod)


def _single_def(fn: ast.AST, name: str) -> T.Optional[ast.AST]:
    """The value bound to local `name` in fn when all its bindings are plain assignments of one and the same
    expression (tail duplication repeats statements); None otherwise."""
    vals: T.Dict[str, ast.AST] = {}
    plain: T.Set[int] = set()
    for n in walk_no_nested(fn, include_root=False):
        if isinstance(n, ast.Assign) and len(n.targets) == 1 and isinstance(n.targets[0], ast.Name) and n.targets[0].id == name:
            vals[norm(n.value)] = n.value
            plain.add(id(n.targets[0]))
        elif isinstance(n, ast.AnnAssign) and isinstance(n.target, ast.Name) and n.target.id == name:
            plain.add(id(n.target))
            if n.value is not None:
                vals[norm(n.value)] = n.value
    for n in walk_no_nested(fn, include_root=False):
        if isinstance(n, ast.Name) and n.id == name and isinstance(n.ctx, (ast.Store, ast.Del)) and id(n) not in plain:
            return None
    return next(iter(vals.values())) if len(vals) == 1 else None


def _extractor_fields(mod: T.Any) -> T.Optional[T.List[str]]:
    """Field names of the NamedTuple that _version_extract_cmpop returns (None: it returns a plain tuple)."""
    fn = _nf(mod, mod.func('_version_extract_cmpop'))
    names: T.Set[T.Tuple[str, ...]] = set()
    for r in walk_no_nested(fn, include_root=False):
        if isinstance(r, ast.Return) and isinstance(r.value, ast.Call) and isinstance(r.value.func, ast.Name):
            f = record_fields(mod.tree, r.value.func.id)
            if f is not None and len(f) == 2 and isinstance(record_as_tuple(mod.tree, r.value), ast.Tuple):
                names.add(tuple(f))
            else:
                return None
        elif isinstance(r, ast.Return):
            return None
    return list(next(iter(names))) if len(names) == 1 else None


def _r3_version_compare(ctx: RuleCtx, mod: T.Any) -> None:
    """version_compare applies the extracted operator to (Version(lhs), Version(rest)) in that order.  The pieces are
    found by role: the pair unpacked from `_version_extract_cmpop(<2nd parameter>)`, whatever the locals are called."""
    vc = mod.func('version_compare')
    params = [a.arg for a in vc.args.posonlyargs + vc.args.args]
    if len(params) != 2:
        raise Undecided('version_compare: expected (lhs, constraint)')
    lhs, rhs = params
    vcn = _nf(mod, vc, calls={'Version'})
    ops: T.Set[str] = set()
    rests: T.Set[str] = set()
    alias: T.Dict[str, str] = {}
    for st in walk_no_nested(vcn, include_root=False):
        if isinstance(st, ast.Assign) and isinstance(st.value, ast.Call) and norm(st.value.func) == '_version_extract_cmpop' and len(st.targets) == 1:
            if [norm(x) for x in st.value.args] != [rhs] or st.value.keywords:
                raise Undecided(f'version_compare: {short(st)} does not split the constraint parameter')
            t = st.targets[0]
            if isinstance(t, ast.Tuple) and len(t.elts) == 2 and all(isinstance(x, ast.Name) for x in t.elts):
                ops.add(t.elts[0].id)          # type: ignore[attr-defined]
                rests.add(t.elts[1].id)        # type: ignore[attr-defined]
            elif isinstance(t, ast.Name):
                ops.add(f'{t.id}[0]')
                rests.add(f'{t.id}[1]')
                names = _extractor_fields(mod)
                if names is not None:
                    alias[f'{t.id}.{names[0]}'] = f'{t.id}[0]'
                    alias[f'{t.id}.{names[1]}'] = f'{t.id}[1]'
            else:
                raise Undecided(f'version_compare: cannot read {short(st)}')
    if len(ops) != 1:
        raise Undecided('version_compare: the call that splits the constraint into (operator, rest) was not found')
    op, rest = next(iter(ops)), next(iter(rests))
    rets = [x for x in walk_no_nested(vcn, include_root=False) if isinstance(x, ast.Return)]
    ctx.floor('version_compare returns', len(rets), 1)
    for ret in {norm(x): x for x in rets}.values():
        v = ret.value
        for _ in range(4):
            if isinstance(v, ast.Name) and _single_def(vcn, v.id) is not None:
                v = _single_def(vcn, v.id)
            elif isinstance(v, ast.Call) and norm(v.func) == 'bool' and len(v.args) == 1:
                v = v.args[0]
            else:
                break
        if isinstance(v, ast.Constant) and isinstance(v.value, bool):
            # a verdict that does not come from the operator: if the tests that lead here do not look at the operator either, the same
            # answer is given for `<` and for `>=` (and for `==` and `!=`), which no order allows
            def guards(stmts: T.List[ast.stmt], acc: T.List[ast.AST]) -> T.Optional[T.List[ast.AST]]:
                for x in stmts:
                    if x is ret:
                        return acc
                    if isinstance(x, ast.If):
                        for sub in (x.body, x.orelse):
                            g = guards(sub, acc + [x.test])
                            if g is not None:
                                return g
                    elif any(y is ret for y in ast.walk(x)):
                        return None
                return None
            gs = guards(vcn.body, [])
            opnames = {o.split('[')[0].split('.')[0] for o in ops | set(alias)}
            if gs is None or any(names_in_text(norm(g)) & opnames for g in gs):
                raise Undecided(f'version_compare: cannot read the result {short(ret)}')
            ctx.violation(mod, 'version_compare', f'constant verdict {v.value}', f'`{norm(ret)}` under `{" and ".join(norm(g) for g in gs) or "no condition"}`: the verdict does not depend on the '
                          f'operator, so for such input `<` and `>=` (and `==` and `!=`) get the same answer {v.value} - version_compare does not agree with the Version order there', ret)
            continue
        if not (isinstance(v, ast.Call) and alias.get(norm(v.func), norm(v.func)) == op and len(v.args) == 2 and not v.keywords):
            raise Undecided(f'version_compare: cannot read the result {short(ret)}')
        inner: T.List[T.Optional[str]] = []
        for a in v.args:
            if isinstance(a, ast.Call) and norm(a.func) == 'Version' and len(a.args) == 1 and not a.keywords:
                inner.append(alias.get(norm(a.args[0]), norm(a.args[0])))
            elif norm(a) in (lhs, rest):
                inner.append(None)           # a bare string where a Version is needed
            else:
                raise Undecided(f'version_compare: cannot read the operand {short(a)}')
        if None in inner:
            ctx.violation(mod, 'version_compare', v, f'`{norm(v)}` hands the operator a plain string: both operands must be wrapped in Version(..)', ret)
        elif inner == [rest, lhs] and rest != lhs:
            ctx.violation(mod, 'version_compare', v, f'`{norm(v)}` applies the operator to (constraint, version): the operands are swapped', ret)
        elif inner[0] == lhs and inner[1] in (rest, rhs):
            # (the unstripped constraint would do as well: the tokenizer skips the operator characters)
            ctx.ok('version_compare applies op(Version(lhs), Version(rest))')
        else:
            raise Undecided(f'version_compare: cannot attribute the operands of {short(v)}')


def _partition_polarity(fnn: ast.AST, comp: ast.AST, lhs: str) -> T.Optional[bool]:
    """`[r for r in reqs if version_compare(lhs, r)]` or `[r for r, ok in pairs if ok]` with
    `pairs = [(r, version_compare(lhs, r)) for r in reqs]`: the polarity of the filter w.r.t. version_compare;
    None when the comprehension is not such a partition."""
    from ..tables import _Subst
    if not (isinstance(comp, ast.ListComp) and len(comp.generators) == 1 and len(comp.generators[0].ifs) == 1
            and not comp.generators[0].is_async and isinstance(comp.elt, ast.Name)):
        return None
    gen = comp.generators[0]
    cond: ast.AST = gen.ifs[0]
    if isinstance(gen.target, ast.Name):
        var = gen.target.id
        if comp.elt.id != var:
            return None
    elif isinstance(gen.target, ast.Tuple) and all(isinstance(x, ast.Name) for x in gen.target.elts) and isinstance(gen.iter, ast.Name):
        src = _single_def(fnn, gen.iter.id)
        if isinstance(src, ast.Call) and norm(src.func) in ('list', 'tuple') and len(src.args) == 1:
            src = src.args[0]
        if not (isinstance(src, (ast.ListComp, ast.GeneratorExp)) and len(src.generators) == 1 and not src.generators[0].ifs
                and isinstance(src.generators[0].target, ast.Name) and isinstance(src.elt, ast.Tuple) and len(src.elt.elts) == len(gen.target.elts)):
            return None
        var = src.generators[0].target.id
        mapping = {t.id: e for t, e in zip(gen.target.elts, src.elt.elts)}      # type: ignore[attr-defined]
        if norm(mapping.get(comp.elt.id)) != var:
            return None
        cond = _Subst(mapping).visit(ast.parse(norm(cond), mode='eval').body)
    else:
        return None
    atom, pol = tables.canon(cond, True)
    if atom.kind != 'truth':
        return None
    e = ast.parse(atom.args[0], mode='eval').body
    if isinstance(e, ast.Call) and norm(e.func) == 'version_compare' and [norm(x) for x in e.args] == [lhs, var] and not e.keywords:
        return pol
    return None


def _all_hold(e: ast.AST, lhs: str) -> T.Optional[bool]:
    """`all(version_compare(lhs, r) for r in S)` / `not any(not version_compare(lhs, r) for r in S)` -> True;
    `any(version_compare(..) ..)` / `not all(..)` ... -> False (a verdict, but not "all hold"); None: another shape."""
    neg = False
    while isinstance(e, ast.UnaryOp) and isinstance(e.op, ast.Not):
        e, neg = e.operand, not neg
    if not (isinstance(e, ast.Call) and isinstance(e.func, ast.Name) and e.func.id in ('all', 'any') and len(e.args) == 1 and not e.keywords
            and isinstance(e.args[0], (ast.GeneratorExp, ast.ListComp)) and len(e.args[0].generators) == 1 and not e.args[0].generators[0].ifs
            and isinstance(e.args[0].generators[0].target, ast.Name)):
        return None
    var = e.args[0].generators[0].target.id
    atom, pol = tables.canon(e.args[0].elt, True)
    if atom != _truth(f'version_compare({lhs}, {var})'):
        return None
    # all(P) ; not any(not P)  == every requirement holds
    return (e.func.id == 'all' and pol and not neg) or (e.func.id == 'any' and not pol and neg)


MATERIALISE = {'list', 'tuple', 'sorted', 'set', 'frozenset'}
DRAIN = MATERIALISE | {'any', 'all', 'sum', 'min', 'max', 'map', 'filter', 'zip', 'enumerate', 'iter', 'next', 'join', 'reversed', 'dict'}
HARMLESS = {'isinstance', 'len', 'bool', 'str', 'repr', 'type', 'id', 'hasattr', 'append', 'add', 'insert'}      # (storing the object is not walking it)


def _r3_single_pass(ctx: RuleCtx, mod: T.Any, vm: T.Any, vmn: T.Any) -> None:
    """The requirements may be any iterable (the signature says Iterable[str]): a generator can be walked once.  On every
    path the parameter is consumed at most once before it is rebound to a materialised list (typestate raw -> materialised)."""
    from ..paths import enumerate_paths
    args = vm.args.posonlyargs + vm.args.args
    if len(args) != 2:
        raise Undecided('version_compare_many: expected (version, requirements)')
    p = args[1].arg
    ann = norm(args[1].annotation) if args[1].annotation is not None else ''
    if 'Iterable' not in ann and 'Iterator' not in ann:
        ctx.ok(f'version_compare_many: `{p}` is not declared as a one-shot iterable')
        return

    def uses(node: ast.AST) -> T.Tuple[T.List[ast.AST], T.List[ast.AST]]:
        drains: T.List[ast.AST] = []
        unknown: T.List[ast.AST] = []
        parents: T.Dict[int, ast.AST] = {}
        for n in ast.walk(node):
            for ch in ast.iter_child_nodes(n):
                parents[id(ch)] = n
        for n in ast.walk(node):
            if not (isinstance(n, ast.Name) and n.id == p and isinstance(n.ctx, ast.Load)):
                continue
            par = parents.get(id(n))
            if isinstance(par, ast.comprehension) and par.iter is n:
                drains.append(par.iter)
            elif isinstance(par, ast.Call) and n in par.args and isinstance(par.func, (ast.Name, ast.Attribute)):
                nm = par.func.id if isinstance(par.func, ast.Name) else par.func.attr
                if nm in DRAIN:
                    drains.append(par)
                elif nm not in HARMLESS:
                    # handed to a function of the module whose parameter is declared `str`: one requirement, not walked as a list
                    callee = mod.func(nm) if isinstance(par.func, ast.Name) and mod.has_func(nm) else None
                    idx = par.args.index(n)
                    cps = (callee.args.posonlyargs + callee.args.args) if callee is not None else []
                    if not (idx < len(cps) and cps[idx].annotation is not None and norm(cps[idx].annotation).strip('\'"') == 'str'):
                        unknown.append(par)
            elif isinstance(par, (ast.List, ast.Tuple)) or (isinstance(par, ast.Compare) and all(isinstance(o, (ast.Is, ast.IsNot)) for o in par.ops)):
                pass              # wrapped into a display / identity test: not walked
            elif isinstance(par, ast.Assign) and par.value is n and all(isinstance(t, ast.Name) for t in par.targets):
                pass              # bound to another name as it is (e.g. the single requirement of an unrolled one-element list)
            elif par is None or (isinstance(par, ast.UnaryOp) and isinstance(par.op, ast.Not)) or isinstance(par, ast.BoolOp):
                pass              # truth test: does not walk it (a generator is always true, a list is true when non-empty)
            elif isinstance(par, ast.Starred):
                drains.append(par)
            else:
                unknown.append(par if par is not None else n)
        return drains, unknown
    worst: T.Optional[T.List[ast.AST]] = None
    unknown_all: T.List[ast.AST] = []
    npaths = 0
    for path in enumerate_paths(vmn.body, unroll=1):
        npaths += 1
        raw = True
        seen_loops: T.Set[int] = set()
        drains: T.List[ast.AST] = []
        for ev in path.events:
            if not raw or ev.node is None:
                continue
            if ev.kind == 'iter':
                if id(ev.node) not in seen_loops:
                    seen_loops.add(id(ev.node))
                    it = ev.node.iter                                   # type: ignore[attr-defined]
                    if isinstance(it, ast.Name) and it.id == p:
                        drains.append(ev.node)
                    else:
                        d, u = uses(it)
                        drains += d
                        unknown_all += u
                continue
            node = ev.node
            rebinds = isinstance(node, ast.Assign) and any(isinstance(t, ast.Name) and t.id == p for t in node.targets)
            d, u = uses(node.value if rebinds else node)               # type: ignore[attr-defined]
            drains += d
            unknown_all += u
            if rebinds:
                v = node.value                                          # type: ignore[attr-defined]
                if isinstance(v, (ast.List, ast.Tuple, ast.ListComp)) or (isinstance(v, ast.Call) and isinstance(v.func, ast.Name) and v.func.id in MATERIALISE):
                    raw = False
                else:
                    raise Undecided(f'version_compare_many: `{p}` is rebound to {short(v)}')
        if len(drains) > 1 and (worst is None or len(drains) > len(worst)):
            worst = drains
    if worst is not None:
        ctx.violation(mod, 'version_compare_many', worst[1], f'`{p}` (declared {ann}) is walked {len(worst)} times on one path ({"; ".join(short(x, 60) for x in worst)}): '
                      f'a generator is empty the second time, so requirements are lost', worst[1])
    elif unknown_all:
        raise Undecided(f'version_compare_many: cannot tell whether {short(unknown_all[0])} walks `{p}`')
    else:
        ctx.ok(f'version_compare_many: `{p}` is walked at most once on each of {npaths} paths')


def _r3_compare_many(ctx: RuleCtx, mod: T.Any) -> None:
    """version_compare_many: a requirement goes to the failed list iff version_compare is false; the verdict is
    'the failed list is empty'.  The two lists are identified by their role (appended to in the loop rows, or built
    as a filtering comprehension), not by their name."""
    vm = mod.func('version_compare_many')
    vmn = _nf(mod, vm)
    _r3_single_pass(ctx, mod, vm, vmn)
    lhs = (vm.args.posonlyargs + vm.args.args)[0].arg
    role: T.Dict[bool, T.Set[str]] = {True: set(), False: set()}
    # tail duplication repeats the loop on every path that reaches it (e.g. once over `[requirement]` and once over the iterable
    # when the single string is wrapped by a conditional expression): every distinct loop is read, the roles are the union
    loops = list({norm(s): s for s in ast.walk(vmn) if isinstance(s, ast.For)}.values())
    for loop in loops:
        tab2 = tables.extract(vmn, body=loop.body, name='version_compare_many:loop', inline=False,
                              effects=lambda st: norm(st) if isinstance(st, ast.Expr) else None)
        for r in tab2.rows:
            held = [v for a, v in r.conds.items() if 'version_compare(' in repr(a)]
            if len(held) != 1:
                raise Undecided(f'version_compare_many: row without exactly one version_compare test: {r!r}')
            effs = list(r.effects)
            m = None
            if len(effs) == 1:
                e = ast.parse(effs[0], mode='eval').body
                if isinstance(e, ast.Call) and isinstance(e.func, ast.Attribute) and e.func.attr == 'append' and isinstance(e.func.value, ast.Name) \
                        and len(e.args) == 1 and norm(e.args[0]) == norm(loop.target):
                    m = e.func.value.id
            if m is None:
                raise Undecided(f'version_compare_many: cannot read what row {r!r} does with the requirement')
            role[held[0]].add(m)
    for st in ast.walk(vmn):
        if isinstance(st, ast.Assign) and len(st.targets) == 1 and isinstance(st.targets[0], ast.Name):
            pol = _partition_polarity(vmn, st.value, lhs)
            if pol is not None:
                role[pol].add(st.targets[0].id)
    if not role[True] and not role[False]:
        raise Undecided('version_compare_many: neither a loop that files the requirements nor filtering comprehensions were found')

    def roles_of(name: str) -> T.Set[bool]:
        return {pol for pol in (True, False) if name in role[pol]}
    rets = [s for s in walk_no_nested(vmn) if isinstance(s, ast.Return)]
    ctx.floor('version_compare_many returns', len(rets), 1)
    for ret in {norm(s): s for s in rets}.values():
        v = ret.value
        if isinstance(v, ast.Tuple) and len(v.elts) == 3 and isinstance(v.elts[1], ast.List) and not v.elts[1].elts:
            # an early exit that reports NO failed requirement: the verdict "every requirement holds" is then true
            if isinstance(v.elts[0], ast.Constant) and isinstance(v.elts[0].value, bool):
                ctx.require(v.elts[0].value is True, 'version_compare_many: an exit without failed requirements reports success', mod, 'version_compare_many', ret,
                            f'`{norm(ret)}` reports failure although its list of failed requirements is empty (a constraint list holds iff each constraint holds: an empty list holds)')
                continue
            raise Undecided(f'version_compare_many: cannot read the verdict of {short(ret)}')
        if not (isinstance(v, ast.Tuple) and len(v.elts) == 3 and all(isinstance(x, ast.Name) for x in v.elts[1:])):
            raise Undecided(f'version_compare_many: cannot read the result {short(ret)}')
        failed, good = v.elts[1].id, v.elts[2].id          # type: ignore[attr-defined]
        if not roles_of(failed) or not roles_of(good):
            raise Undecided(f'version_compare_many: cannot tell how `{failed}` / `{good}` are filled')
        ctx.require(roles_of(failed) == {False}, f'version_compare_many: 2nd result `{failed}` holds the failed requirements', mod, 'version_compare_many', ret,
                    f'the list returned as "not found" (`{failed}`) receives the requirements for which version_compare is '
                    f'{" and ".join(str(x) for x in sorted(roles_of(failed)))}')
        ctx.require(roles_of(good) == {True}, f'version_compare_many: 3rd result `{good}` holds the satisfied requirements', mod, 'version_compare_many', ret,
                    f'the list returned as "found" (`{good}`) receives the requirements for which version_compare is '
                    f'{" and ".join(str(x) for x in sorted(roles_of(good)))}')
        held = _all_hold(v.elts[0], lhs)
        if held is not None:
            ctx.require(held, 'version_compare_many: verdict is "every requirement holds"', mod, 'version_compare_many', ret,
                        f'the overall verdict `{norm(v.elts[0])}` is true when some requirement holds / none holds, not when all hold')
            continue
        em = _emptiness(v.elts[0])
        if em is None or em[1] not in (good, failed):
            raise Undecided(f'version_compare_many: cannot read the verdict {short(v.elts[0])}')
        ctx.require(em == ('empty', failed), f'version_compare_many: verdict is "`{failed}` is empty"', mod, 'version_compare_many', ret,
                    f'the overall verdict `{norm(v.elts[0])}` is not "no failed constraint" (`not {failed}`)')


def _truth(name: str) -> Atom:
    return Atom('truth', (name,))


def _assign_effects(st: ast.AST) -> T.Optional[str]:
    if isinstance(st, ast.Assign) and len(st.targets) == 1:
        t, v = st.targets[0], st.value
        if isinstance(t, ast.Tuple) and isinstance(v, ast.Tuple) and len(t.elts) == len(v.elts):
            return '; '.join(f'{norm(a)} := {norm(b)}' for a, b in zip(t.elts, v.elts))
        return f'{norm(t)} := {norm(v)}'
    if isinstance(st, ast.Expr) and isinstance(st.value, ast.Call):
        return 'call ' + norm(st.value)
    return None


def _effs(row: tables.Row) -> T.List[str]:
    out: T.List[str] = []
    for e in row.effects:
        out.extend(x.strip() for x in e.split(';'))
    return out


def r4_contains(ctx: RuleCtx) -> None:
    mod = ctx.repo.module(UNIVERSAL)
    fn = mod.func('Range.__contains__')
    tab = tables.extract(_nf(mod, fn, 'Range'), inline=False, bool_returns=True, name='Range.__contains__')
    sem = {
        _truth('self.is_empty'): 'empty',
        Atom('is', ('self.min', 'None')): 'min_none', Atom('is', ('self.max', 'None')): 'max_none',
        _truth('self.min_eq'): 'min_eq', _truth('self.max_eq'): 'max_eq',
        Atom('cmp', ('lt', 'ARG1', 'self.min')): 'x<min', Atom('cmp', ('lt', 'self.min', 'ARG1')): 'x>min',
        Atom('cmp', ('lt', 'ARG1', 'self.max')): 'x<max', Atom('cmp', ('lt', 'self.max', 'ARG1')): 'x>max',
    }
    extra = list(sem)

    def view(w: T.Dict[Atom, bool]) -> T.Any:
        return {k: w.get(a) for a, k in sem.items()}

    def ref(v: T.Dict[str, T.Any]) -> T.Any:
        if v['empty']:
            return False
        if not v['min_none']:
            below = v['x<min'] if v['min_eq'] else not v['x>min']
            if below:
                return False
        if not v['max_none']:
            above = v['x>max'] if v['max_eq'] else not v['x<max']
            if above:
                return False
        return True
    _compare(ctx, mod, 'Range.__contains__', fn, tab, sem, view, ref, lambda r: r.outcome == ('return', 'True'), extra)


def _compare(ctx: RuleCtx, mod: T.Any, qn: str, fn: ast.AST, tab: tables.Table, sem: T.Dict[Atom, str],
             view: T.Callable[[T.Dict[Atom, bool]], T.Any], ref: T.Callable[[T.Any], T.Any], got: T.Callable[[tables.Row], T.Any],
             extra: T.Iterable[Atom] = ()) -> None:
    unknown = [a for a in tab.atoms() if a not in sem]
    if unknown:
        raise Undecided(f'{qn}: atoms outside the reference vocabulary: {unknown}')
    n = 0
    bad: T.Dict[str, T.Any] = {}
    for w in tab.worlds(extra):
        v = view(w)
        if v is None:
            continue
        want = ref(v)
        if want is None:
            continue
        rows = tab.fire(w)
        n += 1
        if len(rows) != 1:
            raise Undecided(f'{qn}: {len(rows)} rows fire in world {w}')
        g = got(rows[0])
        if g != want:
            bad.setdefault(repr(rows[0]), (rows[0], g, want, {sem[a]: x for a, x in w.items() if a in sem}))
    for key, (row, g, want, vw) in bad.items():
        node = row.path.events[-1].node if row.path.events else fn
        ctx.violation(mod, qn, key, f'row `{key}` yields {g!r}; the reference range algebra requires {want!r} (e.g. for {vw})', node)
    if not bad:
        ctx.ok(f'{qn}: {len(tab.rows)} rows agree with the reference on {n} worlds')
    ctx.note(f'{qn}: table {tab.dump()}')


def r4_post_init(ctx: RuleCtx) -> None:
    mod = ctx.repo.module(UNIVERSAL)
    fn = mod.func('Range.__post_init__')
    tab = tables.extract(_nf(mod, fn, 'Range'), inline=False, effects=_assign_effects, name='Range.__post_init__')
    sem = {
        Atom('is', ('self.min', 'None')): 'min_none', Atom('is', ('self.max', 'None')): 'max_none',
        _truth('self.min_eq'): 'min_eq', _truth('self.max_eq'): 'max_eq',
        Atom('cmp', ('lt', 'self.min', 'self.max')): 'min<max', Atom('cmp', ('eq', 'self.max', 'self.min')): 'min==max',
        Atom('cmp', ('eq', 'self.min', 'self.max')): 'min==max',
        Atom('cmp', ('lt', 'self.max', 'self.min')): 'min>max',
    }

    def view(w: T.Dict[Atom, bool]) -> T.Any:
        return {k: w.get(a) for a, k in sem.items() if a in w}

    def ref(v: T.Dict[str, T.Any]) -> T.Any:
        if v.get('min_none') or v.get('max_none'):
            return 'unchanged'
        lt = v.get('min<max')
        eq = v.get('min==max')
        if lt is None and 'min>max' in v:
            lt = (not v['min>max']) and not eq
        if lt:
            return 'nonempty'
        if eq and v.get('min_eq') and v.get('max_eq'):
            return 'nonempty'
        return 'empty'

    def got(r: tables.Row) -> str:
        effs = _effs(r)
        last = [e for e in effs if e.startswith('self.is_empty :=')]
        if not last:
            return 'unchanged'
        if last[-1].endswith('True'):
            ok = 'self.min := None' in effs and 'self.max := None' in effs
            return 'empty' if ok else 'empty-without-clearing-bounds'
        return 'nonempty'
    _compare(ctx, mod, 'Range.__post_init__', fn, tab, sem, view, ref, got)


def _bool_in_world(e: ast.AST, w: T.Dict[Atom, bool]) -> T.Optional[bool]:
    """Truth of a boolean combination of atoms in a world (and/or/not/conditional expression/constants); None when an
    atom of it is not part of the world."""
    if isinstance(e, ast.Constant) and isinstance(e.value, bool):
        return e.value
    if isinstance(e, ast.UnaryOp) and isinstance(e.op, ast.Not):
        v = _bool_in_world(e.operand, w)
        return None if v is None else not v
    if isinstance(e, ast.BoolOp):
        vals = [_bool_in_world(x, w) for x in e.values]
        if any(x is None for x in vals):
            return None
        return all(vals) if isinstance(e.op, ast.And) else any(vals)
    if isinstance(e, ast.IfExp):
        c = _bool_in_world(e.test, w)
        return None if c is None else _bool_in_world(e.body if c else e.orelse, w)
    if isinstance(e, ast.Call) and norm(e.func) == 'bool' and len(e.args) == 1:
        return _bool_in_world(e.args[0], w)
    atom, pol = tables.canon(e, True)
    if atom in w:
        return w[atom] == pol
    return None


def r4_intersect(ctx: RuleCtx) -> None:
    """Range.intersect as ONE table (private helpers inlined), judged on the *final state* of the result in every world:
    which bound it holds and the truth of its inclusivity flag, not the text of the stores that produce them."""
    mod = ctx.repo.module(UNIVERSAL)
    fn = mod.func('Range.intersect')
    # the emptiness normalisation is judged by R4b on __post_init__ (with its helpers inlined): here a call of it - under its dunder
    # name or the name of the private method/function __post_init__ merely delegates to - stays ONE call of the normaliser
    normalisers = _normaliser_names(mod)
    tab = tables.extract(_nf(mod, fn, 'Range', skip=normalisers), inline=False, effects=_assign_effects, name='Range.intersect')
    res_names = {e.split(':=')[0].strip() for r in tab.rows for e in _effs(r) if e.endswith(':= copy.copy(self)') or e.endswith(':= copy(self)')}
    if len(res_names) != 1:
        raise Undecided(f'Range.intersect: the working copy of self was not found (candidates {sorted(res_names)})')
    res = next(iter(res_names))
    sem: T.Dict[Atom, str] = {_truth('ARG1.is_empty'): 'x_empty', _truth('self.is_empty'): 'self_empty'}
    flags: T.Dict[str, T.Tuple[Atom, Atom]] = {}
    for side in ('min', 'max'):
        mine, theirs = f'{res}.{side}', f'ARG1.{side}'
        sem[Atom('is', (theirs, 'None'))] = f'x{side}_none'
        sem[Atom('is', (mine, 'None'))] = f'r{side}_none'
        tighter = ('lt', mine, theirs) if side == 'min' else ('lt', theirs, mine)
        looser = ('lt', theirs, mine) if side == 'min' else ('lt', mine, theirs)
        sem[Atom('cmp', tighter)] = f'{side}_tighter'
        sem[Atom('cmp', looser)] = f'{side}_looser'
        sem[Atom('cmp', ('eq', *sorted((mine, theirs))))] = f'{side}_equal'
        flags[side] = (_truth(f'ARG1.{side}_eq'), _truth(f'{res}.{side}_eq'))
        sem[flags[side][0]] = f'x{side}_eq'
        sem[flags[side][1]] = f'r{side}_eq'
    unknown = [a for a in tab.atoms() if a not in sem]
    # a bound of the result that receives ANOTHER field (of either range) is wrong on every path that stores it
    fields = {'min', 'max', 'min_eq', 'max_eq', 'is_empty'}
    for r in tab.rows:
        for e in _effs(r):
            t, _, v = (x.strip() for x in e.partition(':='))
            if t.startswith(res + '.') and t[len(res) + 1:] in fields and '.' in v and v.split('.')[0] in ('ARG1', res, 'self') and v.split('.', 1)[1] in fields \
                    and v.split('.', 1)[1] != t[len(res) + 1:]:
                ctx.violation(mod, 'Range.intersect', e, f'`{e}`: the {t[len(res) + 1:]} of the result receives the {v.split(".", 1)[1]} of a range (path `{r!r}`)'[:500],
                              r.path.events[-1].node if r.path.events else fn)
                return
    if unknown:
        raise Undecided(f'Range.intersect: atoms outside the reference vocabulary: {unknown}')

    def final(r: tables.Row, w: T.Dict[Atom, bool]) -> T.Any:
        """('copy-x',) / (copied, {side: (bound, flag)}, normalised) for one row in one world."""
        if r.outcome[0] != 'return':
            return r.outcome
        ret = r.outcome[1]
        if ret in ('copy.copy(ARG1)', 'copy(ARG1)'):
            if r.effects:
                raise Undecided(f'Range.intersect: row {r!r} has effects before returning a copy of the other range')
            return ('copy-x',)
        if ret in ('copy.copy(self)', 'copy(self)') and not r.effects:
            # an unchanged copy of self returned directly (no working copy bound on this path)
            return (True, {side: ('keep', w[flags[side][1]]) for side in ('min', 'max')}, False)
        if ret != res:
            raise Undecided(f'Range.intersect: cannot read the result {ret} of row {r!r}')
        copied = normalised = False
        state: T.Dict[str, T.Any] = {}
        for side in ('min', 'max'):
            state[side] = ['keep', w[flags[side][1]]]
        for e in _effs(r):
            if e in (f'{res} := copy.copy(self)', f'{res} := copy(self)'):
                copied = True
                continue
            if e in {f'call {res}.{m}()' for m in normalisers} | {f'call {m}({res})' for m in normalisers} | {f'call Range.{m}({res})' for m in normalisers}:
                normalised = True
                continue
            t, _, v = (x.strip() for x in e.partition(':='))
            side = next((sd for sd in ('min', 'max') if t in (f'{res}.{sd}', f'{res}.{sd}_eq')), None)
            if side is None or normalised:
                raise Undecided(f'Range.intersect: cannot classify the effect `{e}` of row {r!r}')
            if t == f'{res}.{side}':
                if v == f'ARG1.{side}':
                    state[side][0] = 'x'
                elif v != f'{res}.{side}' or state[side][0] != 'keep':
                    raise Undecided(f'Range.intersect: cannot read the bound stored by `{e}`')
            else:
                if state[side][1] is None:
                    raise Undecided(f'Range.intersect: `{e}` after an unreadable flag')
                # the flag is read before it is written in this store: evaluate over the *current* value
                w2 = dict(w)
                w2[flags[side][1]] = state[side][1]
                b = _bool_in_world(ast.parse(v, mode='eval').body, w2)
                if b is None:
                    raise Undecided(f'Range.intersect: cannot read the flag stored by `{e}`')
                state[side][1] = b
        return (copied, {k: tuple(x) for k, x in state.items()}, normalised)

    n = 0
    bad: T.Dict[str, T.Tuple[tables.Row, str]] = {}
    for w in tab.worlds(list(sem)):
        v = {k: w.get(a) for a, k in sem.items()}
        rows = tab.fire(w)
        if len(rows) != 1:
            raise Undecided(f'Range.intersect: {len(rows)} rows fire in a world')
        n += 1
        got = final(rows[0], w)
        if v['x_empty']:
            want: T.Any = ('copy-x',)
        else:
            st: T.Dict[str, T.Any] = {}
            for side in ('min', 'max'):
                x_eq, r_eq = v[f'x{side}_eq'], v[f'r{side}_eq']
                if v['self_empty'] or v[f'x{side}_none']:
                    st[side] = ('keep', r_eq)
                elif v[f'r{side}_none'] or v[f'{side}_tighter']:
                    st[side] = ('x', x_eq)                 # the strictly tighter bound (or any bound over none) replaces
                elif v[f'{side}_equal']:
                    st[side] = ('keep', x_eq and r_eq)     # equal bounds: inclusive only if both are
                    if isinstance(got, tuple) and len(got) == 3 and got[1][side][0] == 'x':
                        st[side] = ('x', x_eq and r_eq)    # storing the equal bound again changes nothing
                else:
                    st[side] = ('keep', r_eq)
            want = (True, st, not v['self_empty'])
        if got != want and repr(rows[0]) not in bad:
            bad[repr(rows[0])] = (rows[0], f'yields {got}; the reference range algebra requires {want} for '
                                  f'{ {k: x for k, x in v.items() if x is not None and any(sem[a] == k for a in rows[0].conds if a in sem)} }')
    for key, (row, msg) in bad.items():
        ctx.violation(mod, 'Range.intersect', key, f'row `{key}` {msg}'[:900], row.path.events[-1].node if row.path.events else fn)
    if not bad:
        ctx.ok(f'Range.intersect: {len(tab.rows)} rows agree with the reference on {n} worlds (final bound and inclusivity of both sides)')
    ctx.note(f'Range.intersect: table {tab.dump()}')

    fn = mod.func('Range.always')
    # a returned local (`verdict = False ... return verdict`) is resolved by its reaching definition on the path
    tab = tables.extract(_nf(mod, fn, 'Range', calls={'intersect'}), inline=False, name='Range.always')
    nar = 'self.intersect(ARG1)'
    sem2 = {_truth(f'{nar}.is_empty'): 'empty', Atom('cmp', ('eq', nar, 'self')): 'same', Atom('cmp', ('eq', 'self', nar)): 'same'}

    def view2(w: T.Dict[Atom, bool]) -> T.Any:
        return {k: w.get(a) for a, k in sem2.items() if a in w}

    def ref2(v: T.Dict[str, T.Any]) -> T.Any:
        if v.get('empty'):
            return 'False'
        if v.get('same'):
            return 'True'
        return 'None'

    def got2(r: tables.Row) -> T.Any:
        # the verdict must have been read down to one of the three answers: anything else (a call that was not read through,
        # a projection of something) is an unread shape, never a wrong answer
        if r.outcome[0] != 'return' or r.outcome[1] not in ('True', 'False', 'None'):
            raise Undecided(f'Range.always: cannot read the verdict of row {r!r}')
        return r.outcome[1]
    # a verdict taken from the bounds directly (a shortcut in front of / instead of the intersection, round 13): judged row by row
    pairs = [('ARG1.min', 'self.max'), ('self.min', 'ARG1.max')]        # (lower bound of one range, upper bound of the other)
    bsem: T.Dict[Atom, T.Tuple[int, str]] = {}
    for i, (lo, hi) in enumerate(pairs):
        bsem[Atom('is', (lo, 'None'))] = (i, 'lo_none')
        bsem[Atom('is', (hi, 'None'))] = (i, 'hi_none')
        bsem[Atom('cmp', ('lt', lo, hi))] = (i, 'lt')
        bsem[Atom('cmp', ('lt', hi, lo))] = (i, 'gt')
        bsem[Atom('cmp', ('eq', *sorted((lo, hi))))] = (i, 'eq')
        bsem[_truth(lo + '_eq')] = (i, 'lo_eq')
        bsem[_truth(hi + '_eq')] = (i, 'hi_eq')
    esem = {_truth('self.is_empty'): 'self_empty', _truth('ARG1.is_empty'): 'x_empty'}
    if not any(a in bsem or a in esem for a in tab.atoms()):
        _compare(ctx, mod, 'Range.always', fn, tab, sem2, view2, ref2, got2)
        return
    unknown = [a for a in tab.atoms() if a not in sem2 and a not in bsem and a not in esem]
    if unknown:
        raise Undecided(f'Range.always: atoms outside the reference vocabulary: {unknown}')

    def forced_conflict(i: int, conds: T.Dict[Atom, bool]) -> T.Tuple[bool, str]:
        """Do the row's tests on the pair (lower bound, upper bound) hold only where the two bounds exclude each other - lower above
        upper, or equal with an exclusive side?  Decided on the finite worlds of the pair's own atoms (policy form b); a world in which
        a compared bound is None is not part of the row (the comparison would not answer)."""
        mine = {role: v for a, v in conds.items() if a in bsem and bsem[a][0] == i for role in [bsem[a][1]]}
        if not mine:
            return False, 'both bounds absent'
        compared = bool({'lt', 'gt', 'eq'} & set(mine))
        for lo_none in (True, False):
            for hi_none in (True, False):
                for order in ('lt', 'eq', 'gt'):
                    for lo_eq in (True, False):
                        for hi_eq in (True, False):
                            w = {'lo_none': lo_none, 'hi_none': hi_none, 'lo_eq': lo_eq, 'hi_eq': hi_eq, 'lt': order == 'lt', 'eq': order == 'eq', 'gt': order == 'gt'}
                            if any(w[k] != v for k, v in mine.items()) or (compared and (lo_none or hi_none)):
                                continue
                            conflict = not lo_none and not hi_none and (order == 'gt' or (order == 'eq' and not (lo_eq and hi_eq)))
                            if not conflict:
                                lo, hi = pairs[i]
                                if lo_none or hi_none:
                                    return False, f'{lo if lo_none else hi} is None'
                                return False, f'{lo} {"<" if order == "lt" else "=="} {hi}' + (', both inclusive' if order == 'eq' else '')
        return True, ''
    for r in tab.rows:
        got = got2(r)
        seen = {k: v for a, v in r.conds.items() if a in sem2 for k in [sem2[a]]}
        if seen.get('empty') is True:
            want: T.Optional[str] = 'False'
        elif seen.get('empty') is False and 'same' in seen:
            want = 'True' if seen['same'] else 'None'
        else:
            want = None         # the verdict of this row does not come from the intersection
        node = r.path.events[-1].node if r.path.events else fn
        if want is not None:
            ctx.require(got == want, f'Range.always: row {r!r} answers as the intersection says', mod, 'Range.always', repr(r),
                        f'row `{r!r}` yields {got!r}; the reference range algebra requires {want!r}', node)
        elif got == 'None':
            ctx.ok(f'Range.always: row {r!r} leaves the question open (always allowed)')
        elif got == 'False':
            if any(r.conds.get(a) is True for a in esem):
                ctx.ok(f'Range.always: row {r!r}: an empty operand has an empty intersection')
                continue
            why = [forced_conflict(i, r.conds) for i in range(len(pairs))]
            ctx.require(any(ok for ok, _ in why), f'Range.always: row {r!r} answers False only where two bounds exclude each other', mod, 'Range.always', repr(r),
                        f'row `{r!r}` answers False ("no version of the range satisfies the condition") without looking at the intersection, but its tests also hold for '
                        f'{" and ".join(w for _, w in why)}: there a version lies in both ranges (bounds that merely touch exclude each other only if one side is exclusive), '
                        f'so the intersection is not empty and the answer must not be False', node)
        else:
            raise Undecided(f'Range.always: row {r!r} answers True from the bounds alone; only a verdict taken from the intersection is read')
    ctx.note(f'Range.always: table {tab.dump()}')


REF_CHECK = {  # op -> Range keyword arguments (V = Version(v))
    'ge': {'min': 'V', 'min_eq': 'True'}, 'gt': {'min': 'V', 'min_eq': 'False'},
    'le': {'max': 'V', 'max_eq': 'True'}, 'lt': {'max': 'V', 'max_eq': 'False'},
    'eq': {'min': 'V', 'max': 'V', 'min_eq': 'True', 'max_eq': 'True'},
}
ALL_OPS = set(REF_CHECK) | {'ne'}
Term = T.Tuple[T.Tuple[str, str], ...]


def _range_fields(mod: T.Any) -> T.List[T.Tuple[str, str]]:
    """Declared fields of the Range dataclass with their constant defaults (declaration order = positional order)."""
    out: T.List[T.Tuple[str, str]] = []
    for st in mod.cls('Range').body:
        if isinstance(st, ast.AnnAssign) and isinstance(st.target, ast.Name):
            if not isinstance(st.value, ast.Constant):
                raise Undecided(f'Range.{st.target.id}: the default is not a constant')
            out.append((st.target.id, norm(st.value)))
    if not out:
        raise Undecided('Range declares no fields')
    return out


def _term(kw: T.Dict[str, str], fields: T.List[T.Tuple[str, str]]) -> Term:
    """Canonical constraint: the keyword arguments that differ from the declared default."""
    dflt = dict(fields)
    return tuple(sorted((k, v) for k, v in kw.items() if dflt.get(k) != v))


def _factory(mod: T.Any, e: ast.Call) -> T.Optional[ast.AST]:
    """A named constructor read through (round 13): `Range.m(..)` for a classmethod/staticmethod m of Range, or `f(..)` for the only
    module-level function f, whose body is ONE `return <expression>`: the expression with the parameters bound by signature
    (position, keyword, keyword-only, defaults) and `cls` -> Range.  Anything else: None (the caller ends Undecided)."""
    callee: T.Optional[ast.FunctionDef] = None
    kind = ''
    if isinstance(e.func, ast.Attribute) and norm(e.func.value) == 'Range':
        ms = [m for m in mod.cls('Range').body if isinstance(m, ast.FunctionDef) and m.name == e.func.attr]
        if len(ms) == 1 and len(ms[0].decorator_list) == 1 and norm(ms[0].decorator_list[0]) in ('classmethod', 'staticmethod'):
            callee, kind = ms[0], norm(ms[0].decorator_list[0])
    elif isinstance(e.func, ast.Name) and e.func.id not in ('Range', 'Version'):
        fs = [f for f in mod.tree.body if isinstance(f, ast.FunctionDef) and f.name == e.func.id]
        if len(fs) == 1 and not fs[0].decorator_list:
            callee, kind = fs[0], 'function'
    if callee is None:
        return None
    body = [st for st in callee.body if not (isinstance(st, ast.Expr) and isinstance(st.value, ast.Constant))]
    a = callee.args
    if len(body) != 1 or not isinstance(body[0], ast.Return) or body[0].value is None or a.vararg or a.kwarg \
            or any(isinstance(x, ast.Starred) for x in e.args) or any(k.arg is None for k in e.keywords):
        return None
    params = [p.arg for p in a.posonlyargs + a.args]
    actual: T.Dict[str, ast.AST] = {}
    if kind == 'classmethod':
        if not params:
            return None
        actual[params[0]] = ast.Name(id='Range', ctx=ast.Load())
        params = params[1:]
    if len(e.args) > len(params):
        return None
    actual.update(dict(zip(params, e.args)))
    allp = params + [p.arg for p in a.kwonlyargs]
    for k in e.keywords:
        if k.arg not in allp or k.arg in actual:
            return None
        actual[k.arg] = k.value          # type: ignore[index]
    defaults = dict(zip(params[len(params) - len(a.defaults):], a.defaults)) if a.defaults else {}
    defaults.update({p.arg: d for p, d in zip(a.kwonlyargs, a.kw_defaults) if d is not None})
    for q in allp:
        if q not in actual:
            if q not in defaults:
                return None
            actual[q] = defaults[q]
    ret = body[0].value
    if any(isinstance(n, (ast.Lambda, ast.comprehension, ast.NamedExpr)) for n in ast.walk(ret)):
        return None
    from ..tables import _Subst
    out = _Subst(actual).visit(ast.parse(norm(ret), mode='eval').body)
    root = out
    while isinstance(root, ast.Call) and isinstance(root.func, ast.Attribute) and root.func.attr == 'intersect':
        root = root.func.value
    if not (isinstance(root, ast.Call) and norm(root.func) == 'Range'):
        return None         # not a constructor of Range: not read here
    return out


def _expand_factories(mod: T.Any, fn: T.Any) -> T.Any:
    """A copy of fn in which every call of a named constructor of Range (see _factory) is replaced by the constructor expression it
    returns, so that the normal form and the range reader see `Range(k=..)`."""
    import copy

    class Exp(ast.NodeTransformer):
        def visit_Call(self, n: ast.Call) -> ast.AST:
            self.generic_visit(n)
            for _ in range(3):
                f = _factory(mod, n) if isinstance(n, ast.Call) else None
                if f is None:
                    break
                n = ast.copy_location(f, n)
                for x in ast.walk(n):
                    ast.copy_location(x, n) if not hasattr(x, 'lineno') else None
            return n
    new = Exp().visit(copy.deepcopy(fn))
    ast.fix_missing_locations(new)
    return new



class _RangeReader:
    """Reads the *shape* of a range-valued expression: a chain `A.intersect(B)...` of `Range(k=..)` constructor
    calls -> the list of constraints (policy form (d): no value is computed).  A call of an entry of a constant
    dispatch table `T.get(op)(v)` / `T[op](v)` is read through the lambda stored for the operator at hand."""

    def __init__(self, ctx: RuleCtx, mod: T.Any, opvar: str, vvar: str):
        self.ctx, self.mod, self.opvar, self.vvar = ctx, mod, opvar, vvar
        self.fields = _range_fields(mod)
        self.tables: T.Dict[str, T.Dict[str, ast.Lambda]] = {}

    def table(self, name: str) -> T.Dict[str, ast.Lambda]:
        if name not in self.tables:
            from .c19_fold import fold_operator_table
            self.tables[name] = fold_operator_table(self.ctx.repo, self.mod, name)
        return self.tables[name]

    def lookup(self, e: ast.AST) -> T.Optional[str]:
        """`T.get(op)` / `T[op]` -> 'T'."""
        if isinstance(e, ast.Call) and isinstance(e.func, ast.Attribute) and e.func.attr == 'get' and isinstance(e.func.value, ast.Name) \
                and (len(e.args) == 1 or (len(e.args) == 2 and isinstance(e.args[1], ast.Constant) and e.args[1].value is None)) \
                and not e.keywords and norm(e.args[0]) == self.opvar:
            return e.func.value.id
        if isinstance(e, ast.Subscript) and isinstance(e.value, ast.Name) and norm(e.slice) == self.opvar:
            return e.value.id
        return None

    def op_test(self, e: ast.AST, op: str) -> T.Optional[bool]:
        """Truth of a test on the operator variable for the operator at hand (`op is operator.ge`, `op == ..`,
        `op in (operator.ge, operator.gt)`, `not ..`): an atom decided for the class of inputs the row stands for."""
        if isinstance(e, ast.UnaryOp) and isinstance(e.op, ast.Not):
            inner = self.op_test(e.operand, op)
            return None if inner is None else not inner
        if isinstance(e, ast.Compare) and len(e.ops) == 1:
            l, r, o = e.left, e.comparators[0], e.ops[0]
            if norm(r) == self.opvar and isinstance(o, (ast.Is, ast.IsNot, ast.Eq, ast.NotEq)):
                l, r = r, l
            if norm(l) != self.opvar:
                return None
            if isinstance(o, (ast.Is, ast.IsNot, ast.Eq, ast.NotEq)) and (attr_chain(r) or '').startswith('operator.'):
                same = attr_chain(r) == f'operator.{op}'
                return same if isinstance(o, (ast.Is, ast.Eq)) else not same
            if isinstance(o, (ast.In, ast.NotIn)) and isinstance(r, (ast.Tuple, ast.List, ast.Set)) and all((attr_chain(x) or '').startswith('operator.') for x in r.elts):
                inside = f'operator.{op}' in {attr_chain(x) for x in r.elts}
                return inside if isinstance(o, ast.In) else not inside
        return None

    def value(self, e: ast.AST, op: str = '') -> str:
        """A constructor argument as one of: 'V' (the Version of the check), a constant, or the decided truth of a test on
        the operator.  Anything else is not understood (Undecided), never compared as text."""
        t = norm(e)
        if t == f'Version({self.vvar})':
            return 'V'
        if isinstance(e, ast.Constant) and (e.value is None or isinstance(e.value, bool)):
            return t
        if isinstance(e, ast.IfExp) and self.op_test(e.test, op) is not None:
            return self.value(e.body if self.op_test(e.test, op) else e.orelse, op)
        known = self.op_test(e, op)
        if known is not None:
            return str(known)
        raise Undecided(f'version_check_to_range: cannot read the constructor argument `{t}`')

    def factory(self, e: ast.Call) -> T.Optional[ast.AST]:
        return _factory(self.mod, e)

    def terms(self, e: ast.AST, op: str) -> T.List[Term]:
        if isinstance(e, ast.Call) and isinstance(e.func, ast.Attribute) and e.func.attr == 'intersect' and len(e.args) == 1 and not e.keywords:
            return self.terms(e.func.value, op) + self.terms(e.args[0], op)
        if isinstance(e, ast.Call) and norm(e.func) == 'Range':
            names = [f for f, _ in self.fields]
            if len(e.args) > len(names) or any(k.arg is None for k in e.keywords) or any(isinstance(a, ast.Starred) for a in e.args):
                raise Undecided(f'version_check_to_range: cannot read the arguments of {short(e)}')
            kw = {names[i]: self.value(a, op) for i, a in enumerate(e.args)}
            kw.update({k.arg: self.value(k.value, op) for k in e.keywords})     # type: ignore[misc]
            return [_term(kw, self.fields)]
        fac = self.factory(e) if isinstance(e, ast.Call) else None
        if fac is not None:
            return self.terms(fac, op)
        if isinstance(e, ast.Call):
            tname = self.lookup(e.func)
            if tname is not None:
                lam = self.table(tname).get(op)
                if lam is None:
                    raise Undecided(f'version_check_to_range: {tname} has no entry for operator.{op} on a row that uses it')
                a = lam.args
                if a.vararg or a.kwarg or a.kwonlyargs or a.defaults or e.keywords or len(a.posonlyargs + a.args) != len(e.args):
                    raise Undecided(f'version_check_to_range: cannot bind the arguments of {short(lam)}')
                from ..tables import _Subst
                body = _Subst({p.arg: x for p, x in zip(a.posonlyargs + a.args, e.args)}).visit(ast.parse(norm(lam.body), mode='eval').body)
                return self.terms(body, op)
        raise Undecided(f'version_check_to_range: cannot read the range built by {short(e)}')


def names_in_text(text: str) -> T.Set[str]:
    try:
        return {n.id for n in ast.walk(ast.parse(text, mode='eval')) if isinstance(n, ast.Name)}
    except SyntaxError:
        return set()


def _resolve_effects(effs: T.List[str], keep: T.Iterable[str] = ()) -> T.Dict[str, ast.AST]:
    """Last value stored to each plain local on one row, with earlier locals of the same row substituted
    (reaching definitions along one path)."""
    from ..tables import _Subst
    env: T.Dict[str, ast.AST] = {}
    for e in effs:
        if ':=' not in e or e.startswith('call '):
            touched = names_in_text(e[5:] if e.startswith('call ') else e) & set(env)
            if touched:
                raise Undecided(f'version_check_to_range: `{e}` may change the value of {sorted(touched)} after it was built')
            continue
        t, v = (x.strip() for x in e.split(':=', 1))
        if not t.isidentifier():
            touched = names_in_text(t) & set(env)
            if touched:
                raise Undecided(f'version_check_to_range: `{e}` stores into {sorted(touched)} after it was built')
            continue
        if t in keep:
            continue          # the holder of the (operator, version) pair stays a name: the rows speak about `holder.field`
        env[t] = _Subst(dict(env)).visit(ast.parse(v, mode='eval').body)
    return env


def _half_ranges(terms: T.Iterable[Term]) -> T.List[Term]:
    """A range with both bounds is the intersection of its lower half and its upper half: every constraint is split into
    its (min, min_eq) part, its (max, max_eq) part and the rest, so `Range(min=a, max=b)` and
    `Range(min=a).intersect(Range(max=b))` read the same."""
    out: T.List[Term] = []
    for t in terms:
        lo = tuple(kv for kv in t if kv[0] in ('min', 'min_eq'))
        hi = tuple(kv for kv in t if kv[0] in ('max', 'max_eq'))
        other = tuple(kv for kv in t if kv[0] not in ('min', 'min_eq', 'max', 'max_eq'))
        out.extend(x for x in (lo, hi, other) if x)
    return sorted(out)


def r4_check_to_range(ctx: RuleCtx) -> None:
    mod = ctx.repo.module(UNIVERSAL)
    fn = mod.func('version_check_to_range')
    fnn = _nf(mod, _expand_factories(mod, fn), calls={'Version', 'Range', 'intersect'})
    loops = [s for s in fnn.body if isinstance(s, ast.For)]
    if len(loops) != 1:
        raise Undecided('version_check_to_range: expected one loop over the checks')
    tab = tables.extract(fnn, body=loops[0].body, effects=_assign_effects, inline=False, name='version_check_to_range:loop')
    opvar = vvar = None
    for st in ast.walk(loops[0]):
        if isinstance(st, ast.Assign) and isinstance(st.value, ast.Call) and norm(st.value.func) == '_version_extract_cmpop':
            t = st.targets[0]
            if isinstance(t, ast.Tuple) and len(t.elts) == 2:
                opvar, vvar = norm(t.elts[0]), norm(t.elts[1])
            elif isinstance(t, ast.Name):
                names = _extractor_fields(mod)
                opvar, vvar = (f'{t.id}.{names[0]}', f'{t.id}.{names[1]}') if names is not None else (f'{t.id}[0]', f'{t.id}[1]')
    if opvar is None or vvar is None:
        raise Undecided('version_check_to_range: operator extraction call not found')
    params = [a.arg for a in fn.args.args]
    if len(params) != 2:
        raise Undecided('version_check_to_range: expected (checks, start)')
    # the accumulator is found by role: the range the function returns after the loop; it is either the `start`
    # parameter itself or a local initialised from it before the loop
    after = fnn.body[fnn.body.index(loops[0]) + 1:]
    rv = after[-1].value if after and isinstance(after[-1], ast.Return) else None
    while isinstance(rv, ast.Call) and isinstance(rv.func, ast.Attribute) and rv.func.attr == 'intersect':
        rv = rv.func.value          # something is still intersected after the loop: the accumulator is the receiver
    if not isinstance(rv, ast.Name):
        raise Undecided('version_check_to_range: expected `return <accumulated range>` after the loop')
    acc = rv.id
    if acc == params[1]:
        acc = 'ARG2'
    else:
        init = [st for st in fnn.body[:fnn.body.index(loops[0])] if isinstance(st, ast.Assign) and norm(st.targets[0]) == acc]
        if len(init) != 1 or norm(init[0].value) != params[1] or acc in params:
            raise Undecided(f'version_check_to_range: the accumulator `{acc}` is not initialised from `{params[1]}` before the loop')
    loop_bound = {x.id for x in ast.walk(loops[0]) if isinstance(x, ast.Name) and isinstance(x.ctx, ast.Store)}
    loop_bound = {'ARG1' if n == params[0] else 'ARG2' if n == params[1] else n for n in loop_bound}
    rd = _RangeReader(ctx, mod, opvar, vvar)
    seen_ops: T.Set[str] = set()
    for r in tab.rows:
        op_true: T.Set[str] = set()
        op_false: T.Set[str] = set()
        feasible = True
        present: T.List[T.Set[str]] = []
        for a, v in r.conds.items():
            if a.kind == 'is' and a.args[0] == opvar and a.args[1].startswith('operator.'):
                (op_true if v else op_false).add(a.args[1].split('.', 1)[1])
            elif a.kind == 'cmp' and a.args[0] == 'eq' and opvar in a.args[1:] and any(x.startswith('operator.') for x in a.args[1:]):
                (op_true if v else op_false).add(next(x for x in a.args[1:] if x.startswith('operator.')).split('.', 1)[1])
            elif a.kind == 'in' and a.args[0] == opvar and not a.args[1].isidentifier():
                members = ast.parse(a.args[1], mode='eval').body
                if not (isinstance(members, (ast.Tuple, ast.List, ast.Set)) and all((attr_chain(x) or '').startswith('operator.') for x in members.elts)):
                    raise Undecided(f'version_check_to_range: cannot read the operator set in {a!r}')
                ms = {attr_chain(x).split('.', 1)[1] for x in members.elts}      # type: ignore[union-attr]
                if v:
                    present.append(ms)
                else:
                    op_false |= ms
            elif opvar in names_in_text(repr(a)) and not (a.kind == 'is' and a.args[1] == 'None') and not (a.kind == 'in' and a.args[0] == opvar):
                raise Undecided(f'version_check_to_range: cannot read the test {a!r} on the operator')
            tname, has = None, v
            if a.kind == 'is' and a.args[1] == 'None':
                tname, has = rd.lookup(ast.parse(a.args[0], mode='eval').body), not v
            elif a.kind == 'in' and a.args[0] == opvar and a.args[1].isidentifier():
                tname = a.args[1]
            if tname is not None:
                keys = set(rd.table(tname))
                if has:
                    present.append(keys)
                else:
                    op_false |= keys
        # the operators this row stands for: a finite domain (the six functions _version_extract_cmpop returns),
        # `x is A` excludes `x is B`, membership in a constant table is decided by its keys
        if len(op_true) > 1:
            continue
        cand = (set(op_true) if op_true else set(ALL_OPS)) - op_false
        for keys in present:
            cand &= keys
        if not cand:
            continue       # infeasible row, or no operator matched: nothing is built
        node = r.path.events[-1].node if r.path.events else fn
        effs = _effs(r)
        env = _resolve_effects(effs, keep={opvar.split('.')[0].split('[')[0]})
        final = env.get(acc)
        narrowed = isinstance(final, ast.Call) and isinstance(final.func, ast.Attribute) and final.func.attr == 'intersect' \
            and norm(final.func.value) == acc and len(final.args) == 1
        if final is not None and not narrowed:
            if acc != 'ARG2' and isinstance(final, ast.Call) and isinstance(final.func, ast.Attribute) and final.func.attr == 'intersect' and norm(final.func.value) == 'ARG2':
                ctx.violation(mod, 'version_check_to_range', f'{acc} = {norm(final)}', f'every check is intersected with the start range `{params[1]}` instead of the '
                              f'accumulated `{acc}`: of several checks only the last one survives', r.path.events[-1].node if r.path.events else fn)
                continue
            if acc not in names_in_text(norm(final)):
                # nothing of the range accumulated so far enters the new value (locals are already replaced by their definitions on this row)
                ctx.violation(mod, 'version_check_to_range', 'accumulated range replaced by the range of one check', f'on the row `{r!r}`'[:300] + f' the accumulated range becomes '
                              f'`{short(final, 90)}`, which does not depend on the range accumulated so far: the checks before this one (and the start range) are dropped',
                              r.path.events[-1].node if r.path.events else fn)
                continue
            raise Undecided(f'version_check_to_range: cannot read how the range is narrowed: {short(final)}')
        if final is None:
            # "the check is dropped" needs positive evidence: everything this iteration computes lives in plain locals that
            # the next iteration overwrites (no call, no store into an object, nothing carried from iteration to iteration)
            defined: T.Set[str] = {x.id for x in ast.walk(loops[0].target) if isinstance(x, ast.Name)}
            for e in effs:
                if e.startswith('call ') or ':=' not in e:
                    raise Undecided(f'version_check_to_range: row {r!r} does not narrow `{acc}` but `{e}` may pass the range on')
                t, v = (x.strip() for x in e.split(':=', 1))
                tn = {x.strip() for x in t.strip('()').split(',')}
                if not all(x.isidentifier() for x in tn):
                    raise Undecided(f'version_check_to_range: row {r!r} does not narrow `{acc}` but stores into `{t}`')
                carried = (names_in_text(v) & loop_bound) - defined
                if carried or tn & names_in_text(v):
                    raise Undecided(f'version_check_to_range: row {r!r} does not narrow `{acc}` but carries {sorted(carried | tn)} to the next iteration')
                defined |= tn
        if narrowed and isinstance(final.args[0], ast.Name):          # type: ignore[union-attr]
            # the operand has no definition on this row (no arm ran): nothing is built for these operators, unless the
            # local is also bound outside the loop body (then the rule cannot tell what it holds)
            n = final.args[0].id                                        # type: ignore[union-attr]
            outside = [x for x in ast.walk(fnn) if isinstance(x, ast.Name) and x.id == n and isinstance(x.ctx, ast.Store)
                       and not any(x is y for y in ast.walk(loops[0]))]
            if n in params or n in ('ARG1', 'ARG2') or outside:
                raise Undecided(f'version_check_to_range: `{n}` is bound outside the loop; cannot read the range of row {r!r}')
            ctx.note(f'version_check_to_range: operators {sorted(cand)}: no arm builds a range (row {r!r})')
            continue
        for op in sorted(cand):
            seen_ops.add(op)
            ctx.require(narrowed, f'{op}: the range is narrowed by intersect', mod, 'version_check_to_range', node,
                        f'row for operator {op} does not end with start = start.intersect(r)')
            if not narrowed:
                continue
            got = _half_ranges(t for t in rd.terms(final.args[0], op) if t)        # type: ignore[union-attr]
            if op in REF_CHECK:
                want = [_term(REF_CHECK[op], rd.fields)]
                what = f'operator {op} builds Range({REF_CHECK[op]})'
            else:
                # != : the full range, minus an extremum of the current range that it equals
                def eq_bound(side: str) -> bool:
                    vals = [v for a, v in r.conds.items() if a.kind == 'cmp' and a.args[0] == 'eq'
                            and set(a.args[1:]) == {f'Version({vvar})', f'{acc}.{side}'}]
                    return bool(vals and vals[0])
                want = []
                if eq_bound('min'):
                    want.append(_term({'min': 'V', 'min_eq': 'False'}, rd.fields))
                if eq_bound('max'):
                    want.append(_term({'max': 'V', 'max_eq': 'False'}, rd.fields))
                what = f'!= row ({"min" if eq_bound("min") else ""}{"max" if eq_bound("max") else ""}) removes only the extrema'
            want = _half_ranges(want)
            ctx.require(got == want, what, mod, 'version_check_to_range', node,
                        f'operator {op}: the row `{r!r}`'[:400] + f' intersects with {[dict(t) for t in got]}; the reference is {[dict(t) for t in want]}')
    ctx.require(seen_ops == ALL_OPS, f'all operators have a row: {sorted(seen_ops)}', mod, 'version_check_to_range', fn,
                f'operators with a row: {sorted(seen_ops)}; expected {sorted(ALL_OPS)}')
    # condition_with_min
    fn2 = mod.func('version_compare_condition_with_min')
    tab2 = tables.extract(_nf(mod, fn2, calls={'Version'}), inline=False, name='version_compare_condition_with_min')
    for r in tab2.rows:
        mn = [(a, v) for a, v in r.conds.items() if a.kind == 'is' and a.args[1] == 'None' and a.args[0].endswith('.min')]
        if not mn:
            raise Undecided(f'version_compare_condition_with_min: row without min test: {r!r}')
        cond = mn[0][0].args[0][:-len('.min')]
        if r.outcome[0] != 'return':
            raise Undecided(f'version_compare_condition_with_min: row {r!r} does not return')
        e = ast.parse(r.outcome[1], mode='eval').body
        while isinstance(e, ast.Call) and norm(e.func) == 'bool' and len(e.args) == 1:
            e = e.args[0]
        atom, pol = tables.canon(e, True)
        if mn[0][1]:
            # no lower bound: the answer is is_empty of the same range
            if atom == _truth(f'{cond}.is_empty'):
                ctx.require(pol, 'no lower bound: result is is_empty', mod, 'version_compare_condition_with_min', fn2,
                            f'the no-minimum row returns `{r.outcome[1]}`: the negation of is_empty')
            elif isinstance(e, ast.Constant):
                ctx.violation(mod, 'version_compare_condition_with_min', r.outcome[1], f'the no-minimum row returns the constant {r.outcome[1]}; it must return is_empty', fn2)
            else:
                raise Undecided(f'version_compare_condition_with_min: cannot read the no-minimum result {r.outcome[1]}')
        else:
            # Version(minimum) <= condition.min   ==   not (condition.min < Version(minimum))
            pair = {'Version(ARG2)', f'{cond}.min'}
            if atom.kind == 'cmp' and set(atom.args[1:]) == pair:
                ok = atom == Atom('cmp', ('lt', f'{cond}.min', 'Version(ARG2)')) and pol is False
                ctx.require(ok, 'lower bound: result is Version(minimum) <= condition.min', mod, 'version_compare_condition_with_min', fn2,
                            f'the lower-bound row returns `{r.outcome[1]}`; it must be Version(minimum) <= condition.min')
            else:
                raise Undecided(f'version_compare_condition_with_min: cannot read the lower-bound result {r.outcome[1]}')


RULES = [
    Rule('C19.R1', 'one comparison core; ==/!=/hash on the same field', r1),
    Rule('C19.R2', 'symmetric ranking keys [kind, value, length]', r2),
    Rule('C19.R3', 'operator prefix chain: longest prefix first, matching slice', r3),
    Rule('C19.R4a', 'Range.__contains__ boundary table', r4_contains),
    Rule('C19.R4b', 'Range.__post_init__ emptiness table', r4_post_init),
    Rule('C19.R4c', 'Range.intersect (private helpers inlined) / always tables', r4_intersect),
    Rule('C19.R4d', 'version_check_to_range operator table', r4_check_to_range),
    Rule('C19.R7', 'the version_compare method answers with the verdict of version_compare_many, not with range membership', r7),
    Rule('C19.R6', 'call sites: the 3-tuple of version_compare_many is never used as a truth value', r6),
    Rule('C19.R5', 'if-clause narrowing: always() receiver/argument roles, narrowed range stored, saved range restored on every path', r5),
]
