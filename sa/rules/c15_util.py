"""Helpers of the C15 rule pack (resolution of locals, intro dispatch table, path terms)."""
from __future__ import annotations

import ast
import typing as T

from ..core import Undecided, Module, attr_chain, call_method, call_name, norm, short, walk_no_nested

FuncNode = T.Union[ast.FunctionDef, ast.AsyncFunctionDef]

MINTRO = 'mesonbuild/mintro.py'
BACKENDS = 'mesonbuild/backend/backends.py'
NINJA = 'mesonbuild/backend/ninjabackend.py'
MSETUP = 'mesonbuild/msetup.py'
MTEST = 'mesonbuild/mtest.py'
MINSTALL = 'mesonbuild/minstall.py'
OPTIONS = 'mesonbuild/options.py'
INTERP = 'mesonbuild/interpreter/interpreter.py'
IDEDOC = 'docs/markdown/IDE-integration.md'


def params(fn: T.Union[FuncNode, ast.Lambda]) -> T.List[str]:
    return [a.arg for a in fn.args.posonlyargs + fn.args.args if a.arg not in ('self', 'cls')]


def param(fn: FuncNode, i: int, what: str) -> str:
    p = params(fn)
    if len(p) <= i:
        raise Undecided(f'{what}: expected at least {i + 1} parameters, found {p}')
    return p[i]


class Locals:
    """Definitions of the simple local names of one function (nested defs excluded)."""

    def __init__(self, fn: FuncNode):
        self.fn = fn
        self.defs: T.Dict[str, T.List[T.Optional[ast.AST]]] = {}
        self.aug: T.Set[str] = set()      # names updated in place by an augmented assignment (x += ...)
        for n in self._walk(fn):
            if isinstance(n, ast.Assign):
                for t in n.targets:
                    self._bind(t, n.value)
            elif isinstance(n, ast.AnnAssign) and n.value is not None:
                self._bind(n.target, n.value)
            elif isinstance(n, ast.AugAssign):
                if isinstance(n.target, ast.Name) and isinstance(n.op, ast.Add) and n.target.id in self.defs:
                    self.aug.add(n.target.id)      # in-place extension of an existing local: not a new definition
                else:
                    self._bind(n.target, None)
            elif isinstance(n, (ast.For, ast.AsyncFor)):
                self._bind(n.target, None)
            elif isinstance(n, (ast.With, ast.AsyncWith)):
                for i in n.items:
                    if i.optional_vars is not None:
                        self._bind(i.optional_vars, None)
            elif isinstance(n, ast.NamedExpr):
                self._bind(n.target, None)
            elif isinstance(n, ast.ExceptHandler) and n.name:
                self.defs.setdefault(n.name, []).append(None)

    @staticmethod
    def _walk(fn: FuncNode) -> T.Iterator[ast.AST]:
        for st in fn.body:
            if isinstance(st, (ast.FunctionDef, ast.AsyncFunctionDef, ast.ClassDef)):
                continue
            yield from walk_no_nested(st)

    def _bind(self, t: ast.AST, v: T.Optional[ast.AST]) -> None:
        if isinstance(t, ast.Name):
            self.defs.setdefault(t.id, []).append(v)
        elif isinstance(t, (ast.Tuple, ast.List)):
            for e in t.elts:
                self._bind(e, None)
        elif isinstance(t, ast.Starred):
            self._bind(t.value, None)

    def resolve(self, e: ast.AST, depth: int = 8) -> ast.AST:
        """Follow single-definition locals: `x = f(); use(x)` -> `f()`."""
        while depth > 0 and isinstance(e, ast.Name):
            if e.id in params(self.fn):
                return e
            d = self.defs.get(e.id)
            if not d:
                return e
            if len(d) != 1 or d[0] is None:
                raise Undecided(f'{self.fn.name}: local `{e.id}` has {len(d)} definitions / is a loop or with target; cannot resolve it')
            e = d[0]
            depth -= 1
        return e


def loops_over(fn: FuncNode) -> T.List[T.Union[ast.For, ast.comprehension]]:
    out: T.List[T.Union[ast.For, ast.comprehension]] = []
    for n in ast.walk(fn):
        if isinstance(n, (ast.For, ast.comprehension)):
            out.append(n)
    return out


def intro_table(mod: Module) -> T.Dict[str, T.Optional[str]]:
    """INTRO_TYPES: kind -> name of the configure-time producer function (`func=`), None when absent."""
    v = mod.assign_value('INTRO_TYPES')
    if not isinstance(v, ast.Dict):
        raise Undecided('INTRO_TYPES is not a dict display')
    out: T.Dict[str, T.Optional[str]] = {}
    for k, val in zip(v.keys, v.values):
        if not (isinstance(k, ast.Constant) and isinstance(k.value, str)):
            raise Undecided(f'INTRO_TYPES: key {short(k)} is not a string literal')
        if not (isinstance(val, ast.Call) and call_method(val) == 'IntroCommand'):
            raise Undecided(f'INTRO_TYPES[{k.value!r}] is not an IntroCommand(...) call')
        f: T.Optional[ast.AST] = None
        for kw in val.keywords:
            if kw.arg == 'func':
                f = kw.value
        if f is None and len(val.args) >= 2:
            f = val.args[1]
        if f is None:
            out[k.value] = None
        elif isinstance(f, ast.Name):
            out[k.value] = f.id
        else:
            raise Undecided(f'INTRO_TYPES[{k.value!r}].func is not a plain function name: {short(f)}')
    return out


def intro_func(mod: Module, kind: str) -> FuncNode:
    tab = intro_table(mod)
    name = tab.get(kind)
    if name is None:
        raise Undecided(f'INTRO_TYPES has no configure-time producer for {kind!r}')
    return mod.func(name)


def parents(root: ast.AST) -> T.Dict[ast.AST, ast.AST]:
    """child -> parent inside one function (Module.parent_map walks the whole file)."""
    pm: T.Dict[ast.AST, ast.AST] = {}
    for n in ast.walk(root):
        for ch in ast.iter_child_nodes(n):
            pm[ch] = n
    return pm


def bind_args(call: ast.Call, fn: T.Union[FuncNode, None], names: T.Optional[T.List[str]] = None) -> T.Dict[str, ast.AST]:
    """Arguments of a call bound to the callee's parameter names (positional index or keyword), `self`/`cls` skipped.
    `names` gives the parameter names when the callee is not a repository function."""
    ps = params(fn) if fn is not None else list(names or [])
    if fn is not None:
        ps += [a.arg for a in fn.args.kwonlyargs]
    out: T.Dict[str, ast.AST] = {}
    for i, a in enumerate(call.args):
        if isinstance(a, ast.Starred):
            raise Undecided(f'call with *args cannot be bound: {short(call)}')
        if i < len(ps):
            out[ps[i]] = a
        else:
            out[f'#{i}'] = a
    for k in call.keywords:
        if k.arg is None:
            raise Undecided(f'call with **kwargs cannot be bound: {short(call)}')
        out[k.arg] = k.value
    return out


def judge(ctx: T.Any, ok: bool, what: str, positive: bool, mod: T.Any, func: str, construct: T.Any, msg: str, node: T.Optional[ast.AST] = None) -> bool:
    """ok -> discharged; violated only on positive evidence (a visible construct doing the wrong thing); otherwise undecided."""
    if ok:
        ctx.ok(what)
        return True
    if positive:
        ctx.violation(mod, func, construct, msg, node)
        return False
    raise Undecided(f'{func}: cannot establish: {what}')


def method_calls(node: ast.AST, method: str, nested: bool = True) -> T.List[ast.Call]:
    it = ast.walk(node) if nested else walk_no_nested(node)
    out = [c for c in it if isinstance(c, ast.Call) and call_method(c) == method]
    return sorted(out, key=lambda c: (c.lineno, c.col_offset))


def recv(call: ast.Call) -> T.Optional[str]:
    """Receiver chain of a method call (`backend.f(x)` -> 'backend')."""
    if isinstance(call.func, ast.Attribute):
        return attr_chain(call.func.value)
    return None


def is_call_on(e: ast.AST, receiver: str, method: str) -> bool:
    return isinstance(e, ast.Call) and call_method(e) == method and recv(e) == receiver


def dict_entries(d: ast.Dict) -> T.Dict[str, ast.AST]:
    out: T.Dict[str, ast.AST] = {}
    for k, v in zip(d.keys, d.values):
        if isinstance(k, ast.Constant) and isinstance(k.value, str):
            out[k.value] = v
    return out


def subscript_stores(fn: ast.AST, var: T.Optional[str] = None) -> T.List[T.Tuple[str, str, ast.AST, ast.AST]]:
    """`v['key'] = value` statements: (variable, key, value, stmt)."""
    out = []
    for n in ast.walk(fn):
        if isinstance(n, ast.Assign) and len(n.targets) == 1 and isinstance(n.targets[0], ast.Subscript):
            t = n.targets[0]
            if isinstance(t.value, ast.Name) and isinstance(t.slice, ast.Constant) and isinstance(t.slice.value, str):
                if var is None or t.value.id == var:
                    out.append((t.value.id, t.slice.value, n.value, n))
    return out


def attrs_of(e: ast.AST, var: str) -> T.List[str]:
    """Attribute names read directly on the name `var` inside e, in evaluation (source) order."""
    found = [(n.lineno, n.col_offset, n.attr) for n in ast.walk(e)
             if isinstance(n, ast.Attribute) and isinstance(n.value, ast.Name) and n.value.id == var]
    return [a for _, _, a in sorted(found)]


def const_strs(e: ast.AST) -> T.List[str]:
    return [n.value for n in ast.walk(e) if isinstance(n, ast.Constant) and isinstance(n.value, str)]


def embedded_calls(e: ast.AST) -> T.List[ast.Call]:
    """Calls evaluated by an expression, including those inside the constant source string handed to
    `profile.runctx('<code>', ...)` (parsed, not matched as text)."""
    out: T.List[ast.Call] = []
    for c in walk_no_nested(e):
        if not isinstance(c, ast.Call):
            continue
        out.append(c)
        if call_method(c) in ('runctx', 'run', 'runcall') and c.args and isinstance(c.args[0], ast.Constant) and isinstance(c.args[0].value, str):
            try:
                sub = ast.parse(c.args[0].value)
            except SyntaxError:
                raise Undecided(f'profiled code string does not parse: {c.args[0].value!r}')
            out.extend(x for x in ast.walk(sub) if isinstance(x, ast.Call))
    return out


# ---------------------------------------------------------------------------
# path terms for the layout comparison (C15.R3)

Term = T.Tuple[T.Any, ...]


def path_term(e: ast.AST, env: T.Dict[str, Term], target_names: T.Set[str]) -> Term:
    """Directory expression -> list of symbolic components."""
    if isinstance(e, ast.Constant) and isinstance(e.value, str):
        return (('lit', e.value),) if e.value else ()
    if isinstance(e, ast.Name) and e.id in env:
        return env[e.id]
    if isinstance(e, ast.Call):
        m = call_method(e)
        r = recv(e)
        if m in ('get_builddir', 'get_build_subdir', 'get_subdir') and not e.args and r is not None and (r in target_names):
            return ((m,),)
        if m == 'join' and recv(e) in ('os.path', 'posixpath'):
            out: T.List[T.Any] = []
            for a in e.args:
                out.extend(path_term(a, env, target_names))
            return tuple(out)
    raise Undecided(f'directory expression outside the understood vocabulary: {short(e)}')


def eval_term(t: Term, has_build_subdir: bool) -> T.Tuple[str, ...]:
    out: T.List[str] = []
    for c in t:
        if c[0] == 'lit':
            out.append(c[1])
        elif c[0] == 'get_builddir':
            # Target.__post_init__: builddir = project prefix + subdir [/ build_subdir]  (checked by C15.R3)
            out.append('<prefix+subdir>')
            if has_build_subdir:
                out.append('<build_subdir>')
        elif c[0] == 'get_subdir':
            out.append('<subdir>')
        elif c[0] == 'get_build_subdir':
            if not has_build_subdir:
                # an unguarded, possibly empty component: its effect on the joined path is not decided here
                raise Undecided('build_subdir is joined on a path where it may be empty')
            out.append('<build_subdir>')
        else:  # pragma: no cover
            raise Undecided(f'unknown path component {c!r}')
    return tuple(out)


def fmt_term(t: Term) -> str:
    if not t:
        return "''"
    return ' / '.join(repr(c[1]) if c[0] == 'lit' else f'target.{c[0]}()' for c in t)


__all__ = [n for n in dir() if not n.startswith('__')]
_ = (norm,)


# ---------------------------------------------------------------------------
# Source-to-source normal form of one function (round 7): rules read `normal_func(...)`, not the raw definition.
#   * statement-level calls of small repository helpers of the same class/module are inlined (two levels), parameters
#     bound by signature, callee locals renamed apart, a single trailing `return e` turned into the assignment
#   * `for x in filter(p, xs):` -> `for x in xs: if not p(x): continue`
#   * `d = {k: v for x in xs [if c]}` and `d.update((k, v) for x in xs)` / `d.update({k: v for ...})` -> loop with `d[k] = v`
#   * `yield a if c else b` / `xs.add(a if c else b)` (bare statement, conditional expression as the only operand) -> if/else of two statements
#   * `for T in gen(...): BODY` over a repository generator of plain `yield v` statements (BODY without break/continue of its own)
#     -> the generator body with `yield v` replaced by `T = v; BODY` (tuple targets bound element-wise, plain names substituted)
#   * `if c: A; else: B` where a branch is a lone call statement is left alone (no control-flow rewriting)

_INLINE_MAX_STMTS = 160
# functions the rules look for by role at their call sites: a call to one of them is an anchor and is never inlined away
ANCHOR_CALLS = {
    'create_target_source_introspection', 'create_target_linker_introspection', 'create_test_serialisation', 'create_install_data',
    'create_install_data_files', 'serialize_tests', 'generate_tests', 'generate_install', 'generate_target', 'generate', 'should_install',
    'do_copyfile', 'do_copydir', 'do_symlink', 'load_tests', 'load_install_data', 'do_install', 'add_build_def_file', 'get_build_def_files',
    'generate_introspection_file', 'write_intro_info', 'write_meson_info_file', 'get_test_list', 'generate_single_compile',
    'generate_llvm_ir_compile', 'add_build', 'get_introspection_data', 'get_target_dir', 'get_testlike_targets',
}


def _count_stmts(body: T.List[ast.stmt]) -> int:
    return sum(1 for st in body for n in ast.walk(st) if isinstance(n, ast.stmt))


class _Rename(ast.NodeTransformer):
    def __init__(self, mapping: T.Dict[str, ast.AST]):
        self.mapping = mapping

    def visit_Name(self, n: ast.Name) -> ast.AST:
        r = self.mapping.get(n.id)
        if r is None:
            return n
        if isinstance(n.ctx, ast.Load):
            return _copy_at(r, n)
        if isinstance(r, ast.Name):
            return ast.copy_location(ast.Name(id=r.id, ctx=n.ctx), n)
        return n


def _copy_at(e: ast.AST, where: ast.AST) -> ast.AST:
    import copy as _copy
    c = _copy.deepcopy(e)
    return c


def _linearise_returns(body: T.List[ast.stmt], res: str) -> T.Optional[T.List[ast.stmt]]:
    """Body in which every path ends in `return e` -> the same body with `res = e` and no return (guard clauses become if/else)."""
    import copy as _copy
    out: T.List[ast.stmt] = []
    for i, st in enumerate(body):
        if isinstance(st, ast.Return):
            v = st.value if st.value is not None else ast.Constant(value=None)
            out.append(ast.copy_location(ast.Assign(targets=[ast.Name(id=res, ctx=ast.Store())], value=_copy.deepcopy(v)), st))
            return out
        if isinstance(st, ast.If):
            rest = body[i + 1:]
            b_ret = any(isinstance(x, ast.Return) for s_ in st.body for x in walk_no_nested(s_))
            o_ret = any(isinstance(x, ast.Return) for s_ in st.orelse for x in walk_no_nested(s_))
            if b_ret or o_ret:
                tb = _linearise_returns(list(st.body) + ([] if _ends_in_return(st.body) else rest), res)
                eb = _linearise_returns(list(st.orelse) + ([] if _ends_in_return(st.orelse) and st.orelse else rest), res)
                if tb is None or eb is None:
                    return None
                out.append(ast.copy_location(ast.If(test=_copy.deepcopy(st.test), body=tb, orelse=eb), st))
                return out
        if any(isinstance(x, ast.Return) for x in walk_no_nested(st)):
            return None            # a return inside a loop / try / with: not handled
        out.append(_copy.deepcopy(st))
    return None                    # falls off the end without a return


def _ends_in_return(body: T.List[ast.stmt]) -> bool:
    return bool(body) and isinstance(body[-1], (ast.Return, ast.Raise))


def _inlinable(callee: FuncNode) -> T.Optional[T.Optional[ast.AST]]:
    """None if not inlinable; else ('no-value' -> ast.Constant(None) sentinel) the trailing return expression or a None-constant."""
    body = [s for s in callee.body if not (isinstance(s, ast.Expr) and isinstance(s.value, ast.Constant))]
    if not body or _count_stmts(body) > _INLINE_MAX_STMTS or callee.decorator_list and any(
            attr_chain(d) not in ('staticmethod',) for d in callee.decorator_list):
        return None
    if callee.args.vararg or callee.args.kwarg:
        return None
    rets = [n for st in body for n in walk_no_nested(st) if isinstance(n, ast.Return)]
    for st in body:
        for n in ast.walk(st):
            if isinstance(n, (ast.Yield, ast.YieldFrom, ast.Await, ast.Global, ast.Nonlocal, ast.FunctionDef, ast.AsyncFunctionDef, ast.Lambda, ast.ClassDef)):
                return None
    if not rets:
        return ast.Constant(value=None)
    if len(rets) == 1 and body[-1] is rets[0]:
        return rets[0].value if rets[0].value is not None else ast.Constant(value=None)
    if _linearise_returns(body, '__res__') is not None:
        return ast.Name(id='__res__', ctx=ast.Load())       # several returns, every path ends in one: handled by _inline_call
    return None


def _inline_call(call: ast.Call, callee: FuncNode, uid: int, is_method: bool) -> T.Optional[T.Tuple[T.List[ast.stmt], ast.AST]]:
    import copy as _copy
    ret = _inlinable(callee)
    if ret is None:
        return None
    try:
        bound = bind_args(call, callee)
    except Undecided:
        return None
    ps = params(callee) + [a.arg for a in callee.args.kwonlyargs]
    pos = callee.args.posonlyargs + callee.args.args
    pos = [a for a in pos if a.arg not in ('self', 'cls')]
    defaults = dict(zip([a.arg for a in pos][len(pos) - len(callee.args.defaults):], callee.args.defaults))
    defaults.update({a.arg: d for a, d in zip(callee.args.kwonlyargs, callee.args.kw_defaults) if d is not None})
    if any(k not in ps for k in bound):
        return None
    body = [_copy.deepcopy(s) for s in callee.body if not (isinstance(s, ast.Expr) and isinstance(s.value, ast.Constant))]
    assigned = {n.id for st in body for n in ast.walk(st) if isinstance(n, ast.Name) and isinstance(n.ctx, (ast.Store, ast.Del))}
    mapping: T.Dict[str, ast.AST] = {}
    pre: T.List[ast.stmt] = []
    for p in ps:
        a = bound.get(p, defaults.get(p))
        if a is None:
            return None
        simple = isinstance(a, (ast.Name, ast.Constant)) or attr_chain(a) is not None
        if simple and p not in assigned:
            mapping[p] = a
        else:
            nm = f'{p}__i{uid}'
            pre.append(ast.copy_location(ast.Assign(targets=[ast.Name(id=nm, ctx=ast.Store())], value=_copy.deepcopy(a), lineno=call.lineno, col_offset=0), call))
            mapping[p] = ast.Name(id=nm, ctx=ast.Load())
    for nm in assigned:
        if nm not in mapping:
            mapping[nm] = ast.Name(id=f'{nm}__i{uid}', ctx=ast.Load())
    if is_method:
        recv_e = call.func.value if isinstance(call.func, ast.Attribute) else None
        if recv_e is None or attr_chain(recv_e) != 'self':
            return None
    if isinstance(ret, ast.Name) and ret.id == '__res__':
        lin = _linearise_returns(body, '__res__')
        if lin is None:
            return None
        body = lin
        mapping['__res__'] = ast.Name(id=f'res__i{uid}', ctx=ast.Load())
    elif body and isinstance(body[-1], ast.Return):
        body = body[:-1]
    rn = _Rename(mapping)
    out = pre + [rn.visit(s) for s in body]
    rv = rn.visit(_copy.deepcopy(ret))
    return out, rv


class _Normaliser:
    def __init__(self, mod: Module, cls: T.Optional[str], resolve_method: T.Optional[T.Callable[[str], T.Optional[FuncNode]]] = None):
        self.mod = mod
        self.cls = cls
        self.uid = 0
        self.resolve_method = resolve_method
        self.stack: T.List[str] = []

    def callee(self, call: ast.Call) -> T.Optional[T.Tuple[FuncNode, bool, str]]:
        f = call.func
        if isinstance(f, ast.Name) and self.mod.has_func(f.id):
            return self.mod.func(f.id), False, f.id
        if isinstance(f, ast.Attribute) and isinstance(f.value, ast.Name) and f.value.id == 'self' and self.cls:
            q = f'{self.cls}.{f.attr}'
            if self.mod.has_func(q):
                return self.mod.func(q), True, q
            if self.resolve_method is not None:
                r = self.resolve_method(f.attr)
                if r is not None:
                    return r, True, f'?.{f.attr}'
        return None

    def block(self, body: T.List[ast.stmt], depth: int) -> T.List[ast.stmt]:
        out: T.List[ast.stmt] = []
        for st in body:
            out.extend(self.stmt(st, depth))
        return out

    def stmt(self, st: ast.stmt, depth: int) -> T.List[ast.stmt]:
        import copy as _copy
        # recurse into compound statements first
        for field in ('body', 'orelse', 'finalbody'):
            sub = getattr(st, field, None)
            if isinstance(sub, list) and sub and isinstance(sub[0], ast.stmt) and not isinstance(st, (ast.FunctionDef, ast.AsyncFunctionDef, ast.ClassDef)):
                setattr(st, field, self.block(sub, depth))
        for h in getattr(st, 'handlers', []):
            h.body = self.block(h.body, depth)
        # for x in filter(p, xs)
        if isinstance(st, ast.For) and isinstance(st.iter, ast.Call) and isinstance(st.iter.func, ast.Name) and st.iter.func.id == 'filter' \
                and len(st.iter.args) == 2 and not st.iter.keywords and isinstance(st.target, ast.Name) and not isinstance(st.iter.args[0], ast.Constant):
            pred, xs = st.iter.args
            test = ast.UnaryOp(op=ast.Not(), operand=ast.Call(func=pred, args=[ast.Name(id=st.target.id, ctx=ast.Load())], keywords=[]))
            guard = ast.If(test=test, body=[ast.Continue()], orelse=[])
            st.iter = xs
            st.body = [guard] + st.body
            ast.copy_location(guard, st)
            ast.fix_missing_locations(st)
            return [st]
        # d = {k: v for x in xs if c}
        if isinstance(st, (ast.Assign, ast.AnnAssign)) and isinstance(getattr(st, 'value', None), ast.DictComp):
            tg = st.targets[0] if isinstance(st, ast.Assign) and len(st.targets) == 1 else getattr(st, 'target', None)
            dc = st.value
            if isinstance(tg, ast.Name) and len(dc.generators) == 1 and not dc.generators[0].is_async:
                init = ast.Assign(targets=[ast.Name(id=tg.id, ctx=ast.Store())], value=ast.Dict(keys=[], values=[]))
                loop = self._pair_loop(tg.id, dc.key, dc.value, dc.generators[0])
                for n in (init, loop):
                    ast.copy_location(n, st)
                    ast.fix_missing_locations(n)
                return [init, loop]
        # xs = [e for x in it if c]  /  return [e for x in it if c]   ->   loop with append (a call element is bound to a local first)
        if isinstance(st, (ast.Assign, ast.AnnAssign, ast.Return)) and isinstance(getattr(st, 'value', None), ast.ListComp) \
                and len(st.value.generators) == 1 and not st.value.generators[0].is_async:
            lc = st.value
            if isinstance(st, ast.Return):
                self.uid += 1
                nm = f'result__c{self.uid}'
            else:
                tg = st.targets[0] if isinstance(st, ast.Assign) and len(st.targets) == 1 else getattr(st, 'target', None)
                nm = tg.id if isinstance(tg, ast.Name) else None
            if nm is not None:
                g = lc.generators[0]
                elt: ast.AST = lc.elt
                inner: T.List[ast.stmt] = []
                if isinstance(elt, (ast.Call, ast.IfExp)):
                    self.uid += 1
                    tmp = f'elt__c{self.uid}'
                    inner.append(ast.Assign(targets=[ast.Name(id=tmp, ctx=ast.Store())], value=elt))
                    elt = ast.Name(id=tmp, ctx=ast.Load())
                inner.append(ast.Expr(value=ast.Call(func=ast.Attribute(value=ast.Name(id=nm, ctx=ast.Load()), attr='append', ctx=ast.Load()), args=[elt], keywords=[])))
                for c_ in reversed(g.ifs):
                    inner = [ast.If(test=c_, body=inner, orelse=[])]
                loop2 = ast.For(target=g.target, iter=g.iter, body=inner, orelse=[])
                init2 = ast.Assign(targets=[ast.Name(id=nm, ctx=ast.Store())], value=ast.List(elts=[], ctx=ast.Load()))
                outl: T.List[ast.stmt] = [init2, loop2]
                if isinstance(st, ast.Return):
                    outl.append(ast.Return(value=ast.Name(id=nm, ctx=ast.Load())))
                for n_ in outl:
                    ast.fix_missing_locations(ast.copy_location(n_, st))
                loop2.body = self.block(loop2.body, depth)
                return outl
        # d.update(<generator of pairs> | <dict comprehension>)
        if isinstance(st, ast.Expr) and isinstance(st.value, ast.Call) and call_method(st.value) == 'update' and isinstance(st.value.func, ast.Attribute) \
                and isinstance(st.value.func.value, ast.Name) and len(st.value.args) == 1 and not st.value.keywords:
            a = st.value.args[0]
            nm = st.value.func.value.id
            loop = None
            if isinstance(a, (ast.GeneratorExp, ast.ListComp)) and len(a.generators) == 1 and isinstance(a.elt, ast.Tuple) and len(a.elt.elts) == 2:
                loop = self._pair_loop(nm, a.elt.elts[0], a.elt.elts[1], a.generators[0])
            elif isinstance(a, ast.DictComp) and len(a.generators) == 1:
                loop = self._pair_loop(nm, a.key, a.value, a.generators[0])
            if loop is not None:
                ast.copy_location(loop, st)
                ast.fix_missing_locations(loop)
                return [loop]
        # x = a if c else b   /   return a if c else b   ->   if c: ... else: ...
        if isinstance(st, (ast.Assign, ast.AnnAssign, ast.Return)) and isinstance(getattr(st, 'value', None), ast.IfExp):
            ie = st.value

            def mk(v: ast.AST) -> ast.stmt:
                if isinstance(st, ast.Return):
                    n: ast.stmt = ast.Return(value=v)
                elif isinstance(st, ast.Assign):
                    n = ast.Assign(targets=_copy.deepcopy(st.targets), value=v)
                else:
                    n = ast.Assign(targets=[_copy.deepcopy(st.target)], value=v)
                return ast.fix_missing_locations(ast.copy_location(n, st))
            node = ast.If(test=ie.test, body=self.stmt(mk(ie.body), depth), orelse=self.stmt(mk(ie.orelse), depth))
            return [ast.fix_missing_locations(ast.copy_location(node, st))]
        # `yield a if c else b`  /  `xs.add(a if c else b)` (a bare statement whose only operand is a conditional expression)
        #   ->   if c: yield a; else: yield b   (the receiver of the call is a plain name/attribute chain: nothing is evaluated before c)
        if isinstance(st, ast.Expr):
            v0 = st.value
            ie0: T.Optional[ast.IfExp] = None
            if isinstance(v0, ast.Yield) and isinstance(v0.value, ast.IfExp):
                ie0 = v0.value
            elif isinstance(v0, ast.Call) and len(v0.args) == 1 and not v0.keywords and isinstance(v0.args[0], ast.IfExp) and attr_chain(v0.func) is not None:
                ie0 = v0.args[0]
            if ie0 is not None:
                def mk0(v: ast.AST) -> ast.stmt:
                    if isinstance(v0, ast.Yield):
                        n0: ast.stmt = ast.Expr(value=ast.Yield(value=v))
                    else:
                        n0 = ast.Expr(value=ast.Call(func=_copy.deepcopy(v0.func), args=[v], keywords=[]))
                    return ast.fix_missing_locations(ast.copy_location(n0, st))
                node0 = ast.If(test=ie0.test, body=self.stmt(mk0(ie0.body), depth), orelse=self.stmt(mk0(ie0.orelse), depth))
                return [ast.fix_missing_locations(ast.copy_location(node0, st))]
        # for T in self._gen(...): BODY   where _gen is a repository generator of plain `yield v` statements and BODY has no
        # break/continue/return of its own: the generator body with every `yield v` replaced by `T = v; BODY`
        # (a tuple target over a tuple value is bound element by element; plain names are substituted)
        if isinstance(st, ast.For) and isinstance(st.iter, ast.Call) and not st.orelse:
            gc0 = self.callee(st.iter)
            if gc0 is not None and gc0[2] not in self.stack and gc0[0].name not in ANCHOR_CALLS:
                got0 = self._inline_for_generator(st, gc0[0], gc0[1])
                if got0 is not None:
                    self.stack.append(gc0[2])
                    got0 = self.block(got0, depth)
                    self.stack.pop()
                    for n_ in got0:
                        if not hasattr(n_, 'lineno'):
                            ast.copy_location(n_, st)
                        ast.fix_missing_locations(n_)
                    return got0
        # x = list(self._gen(...)) / return list(self._gen(...)) where _gen is a generator of plain `yield v` statements:
        # the generator body with `yield v` -> `acc.append(v)`
        if depth > 0 and isinstance(st, (ast.Assign, ast.Return)) and isinstance(st.value, ast.Call) and isinstance(st.value.func, ast.Name) \
                and st.value.func.id in ('list', 'tuple', 'sorted') and len(st.value.args) == 1 and not st.value.keywords and isinstance(st.value.args[0], ast.Call):
            gcall = st.value.args[0]
            gc = self.callee(gcall)
            if gc is not None and gc[2] not in self.stack and gc[0].name not in ANCHOR_CALLS:
                got = self._inline_generator(gcall, gc[0], gc[1])
                if got is not None:
                    gbody, acc = got
                    self.stack.append(gc[2])
                    gbody = self.block(gbody, depth - 1)
                    self.stack.pop()
                    wrapped: ast.AST = ast.Name(id=acc, ctx=ast.Load())
                    if st.value.func.id != 'list':
                        wrapped = ast.Call(func=ast.Name(id=st.value.func.id, ctx=ast.Load()), args=[wrapped], keywords=[])
                    tail: ast.stmt = ast.Return(value=wrapped) if isinstance(st, ast.Return) else ast.Assign(targets=st.targets, value=wrapped)
                    outg = gbody + [tail]
                    for n_ in outg:
                        if not hasattr(n_, 'lineno'):
                            ast.copy_location(n_, st)
                        ast.fix_missing_locations(n_)
                    return outg
        # X.extend(self._gen(...)) / X.update(self._gen(...)) where _gen is a generator of plain `yield v` statements (generator fission):
        # the generator body with `yield v` -> `acc.append(v)`, then X.extend(acc)
        if depth > 0 and isinstance(st, ast.Expr) and isinstance(st.value, ast.Call) and isinstance(st.value.func, ast.Attribute) \
                and st.value.func.attr in ('extend', 'update') and len(st.value.args) == 1 and not st.value.keywords and isinstance(st.value.args[0], ast.Call):
            gcall = st.value.args[0]
            gc = self.callee(gcall)
            if gc is not None and gc[2] not in self.stack and gc[0].name not in ANCHOR_CALLS:
                got = self._inline_generator(gcall, gc[0], gc[1])
                if got is not None:
                    gbody, acc = got
                    self.stack.append(gc[2])
                    gbody = self.block(gbody, depth - 1)
                    self.stack.pop()
                    tail_e = ast.Expr(value=ast.Call(func=st.value.func, args=[ast.Name(id=acc, ctx=ast.Load())], keywords=[]))
                    oute = gbody + [tail_e]
                    for n_ in oute:
                        if not hasattr(n_, 'lineno'):
                            ast.copy_location(n_, st)
                        ast.fix_missing_locations(n_)
                    return oute
        # statement-level helper calls
        if depth > 0:
            call = None
            kind = None
            if isinstance(st, ast.Expr) and isinstance(st.value, ast.Call):
                call, kind = st.value, 'expr'
            elif isinstance(st, ast.Assign) and len(st.targets) == 1 and isinstance(st.value, ast.Call):
                call, kind = st.value, 'assign'
            elif isinstance(st, ast.Return) and isinstance(st.value, ast.Call):
                call, kind = st.value, 'return'
            if call is not None:
                c = self.callee(call)
                # calls whose value is used are anchors of the rules unless the helper is private; bare call statements are always candidates
                if c is not None and kind != 'expr' and not c[0].name.startswith('_'):
                    c = None
                if c is not None and c[0].name in ANCHOR_CALLS:
                    c = None
                if c is not None and c[2] not in self.stack:
                    self.uid += 1
                    r = _inline_call(call, c[0], self.uid, c[1])
                    if r is not None:
                        body, rv = r
                        self.stack.append(c[2])
                        body = self.block(body, depth - 1)
                        self.stack.pop()
                        if kind == 'assign':
                            body.append(ast.Assign(targets=st.targets, value=rv))
                        elif kind == 'return':
                            body.append(ast.Return(value=rv))
                        elif not (isinstance(rv, ast.Constant) and rv.value is None):
                            body.append(ast.Expr(value=rv))
                        for n in body:
                            for x in ast.walk(n):
                                if not hasattr(x, 'lineno') or True:
                                    pass
                            ast.fix_missing_locations(ast.copy_location(n, st) if not hasattr(n, 'lineno') else n)
                        _ = _copy
                        return body or [ast.copy_location(ast.Pass(), st)]
        return [st]

    def _inline_generator(self, call: ast.Call, callee: FuncNode, is_method: bool) -> T.Optional[T.Tuple[T.List[ast.stmt], str]]:
        import copy as _copy
        body = [s for s in callee.body if not (isinstance(s, ast.Expr) and isinstance(s.value, ast.Constant))]
        ys = [n for st in body for n in walk_no_nested(st) if isinstance(n, (ast.Yield, ast.YieldFrom))]
        if not ys or _count_stmts(body) > _INLINE_MAX_STMTS or callee.args.vararg or callee.args.kwarg or callee.decorator_list:
            return None
        stmt_yields = {id(st.value) for st0 in body for st in ast.walk(st0) if isinstance(st, ast.Expr) and isinstance(st.value, ast.Yield) and st.value.value is not None}
        if any(isinstance(y, ast.YieldFrom) or id(y) not in stmt_yields for y in ys):
            return None
        if any(isinstance(n, ast.Return) for st in body for n in walk_no_nested(st)):
            return None
        if any(isinstance(n, (ast.FunctionDef, ast.AsyncFunctionDef, ast.ClassDef, ast.Global, ast.Nonlocal)) for st in body for n in ast.walk(st)):
            return None
        if is_method and not (isinstance(call.func, ast.Attribute) and attr_chain(call.func.value) == 'self'):
            return None
        try:
            bound = bind_args(call, callee)
        except Undecided:
            return None
        self.uid += 1
        uid = self.uid
        ps = params(callee) + [a.arg for a in callee.args.kwonlyargs]
        pos = [a for a in callee.args.posonlyargs + callee.args.args if a.arg not in ('self', 'cls')]
        defaults = dict(zip([a.arg for a in pos][len(pos) - len(callee.args.defaults):], callee.args.defaults))
        body = [_copy.deepcopy(s) for s in body]
        assigned = {n.id for st in body for n in ast.walk(st) if isinstance(n, ast.Name) and isinstance(n.ctx, (ast.Store, ast.Del))}
        mapping: T.Dict[str, ast.AST] = {}
        pre: T.List[ast.stmt] = []
        for p_ in ps:
            a = bound.get(p_, defaults.get(p_))
            if a is None:
                return None
            if (isinstance(a, (ast.Name, ast.Constant)) or attr_chain(a) is not None) and p_ not in assigned:
                mapping[p_] = a
            else:
                nm = f'{p_}__g{uid}'
                pre.append(ast.Assign(targets=[ast.Name(id=nm, ctx=ast.Store())], value=_copy.deepcopy(a)))
                mapping[p_] = ast.Name(id=nm, ctx=ast.Load())
        for nm in assigned:
            mapping.setdefault(nm, ast.Name(id=f'{nm}__g{uid}', ctx=ast.Load()))
        acc = f'acc__g{uid}'

        class _Y(ast.NodeTransformer):
            def visit_Expr(self, n: ast.Expr) -> ast.AST:
                if isinstance(n.value, ast.Yield):
                    return ast.copy_location(ast.Expr(value=ast.Call(func=ast.Attribute(value=ast.Name(id=acc, ctx=ast.Load()), attr='append', ctx=ast.Load()),
                                                                     args=[n.value.value], keywords=[])), n)
                return n
        rn = _Rename(mapping)
        out = [ast.Assign(targets=[ast.Name(id=acc, ctx=ast.Store())], value=ast.List(elts=[], ctx=ast.Load()))] + pre
        out += [rn.visit(_Y().visit(s_)) for s_ in body]
        return out, acc

    def _inline_for_generator(self, loop: ast.For, callee: FuncNode, is_method: bool) -> T.Optional[T.List[ast.stmt]]:
        """`for T in gen(args): BODY` -> body of the generator `gen` with each `yield v` replaced by `T = v; BODY`."""
        import copy as _copy
        call = loop.iter
        assert isinstance(call, ast.Call)
        body = [s for s in callee.body if not (isinstance(s, ast.Expr) and isinstance(s.value, ast.Constant))]
        ys = [n for st in body for n in walk_no_nested(st) if isinstance(n, (ast.Yield, ast.YieldFrom))]
        if not ys or callee.args.vararg or callee.args.kwarg or callee.decorator_list:
            return None
        if _count_stmts(body) + len(ys) * _count_stmts(loop.body) > _INLINE_MAX_STMTS:
            return None
        stmt_yields = {id(st.value) for st0 in body for st in ast.walk(st0) if isinstance(st, ast.Expr) and isinstance(st.value, ast.Yield) and st.value.value is not None}
        if any(isinstance(y, ast.YieldFrom) or id(y) not in stmt_yields for y in ys):
            return None
        if any(isinstance(n, ast.Return) for st in body for n in walk_no_nested(st)):
            return None
        if any(isinstance(n, (ast.FunctionDef, ast.AsyncFunctionDef, ast.ClassDef, ast.Global, ast.Nonlocal, ast.Try)) for st in body for n in ast.walk(st)):
            return None
        if any(isinstance(y, ast.Yield) for w in ast.walk(callee) if isinstance(w, (ast.With, ast.AsyncWith)) for y in ast.walk(w)):
            return None             # a yield inside `with`: the consumer's body would run inside the context

        def own_jumps(stmts: T.List[ast.stmt]) -> bool:
            for s_ in stmts:
                if isinstance(s_, (ast.Break, ast.Continue)):
                    return True
                if isinstance(s_, (ast.FunctionDef, ast.AsyncFunctionDef, ast.ClassDef)):
                    continue
                if isinstance(s_, (ast.For, ast.While, ast.AsyncFor)):
                    if own_jumps(s_.orelse):      # jumps in the body of an inner loop are its own
                        return True
                    continue
                for field in ('body', 'orelse', 'finalbody'):
                    sub = getattr(s_, field, None)
                    if isinstance(sub, list) and sub and isinstance(sub[0], ast.stmt) and own_jumps(sub):
                        return True
                for h in getattr(s_, 'handlers', []):
                    if own_jumps(h.body):
                        return True
            return False
        if own_jumps(loop.body):
            return None             # `continue`/`break` of the consumer resume/abandon the generator: no statement-level equivalent
        if is_method and not (isinstance(call.func, ast.Attribute) and attr_chain(call.func.value) == 'self'):
            return None
        try:
            bound = bind_args(call, callee)
        except Undecided:
            return None
        self.uid += 1
        uid = self.uid
        ps = params(callee) + [a.arg for a in callee.args.kwonlyargs]
        pos = [a for a in callee.args.posonlyargs + callee.args.args if a.arg not in ('self', 'cls')]
        defaults = dict(zip([a.arg for a in pos][len(pos) - len(callee.args.defaults):], callee.args.defaults))
        defaults.update({a.arg: d for a, d in zip(callee.args.kwonlyargs, callee.args.kw_defaults) if d is not None})
        if any(k not in ps for k in bound):
            return None
        body = [_copy.deepcopy(s) for s in body]
        assigned = {n.id for st in body for n in ast.walk(st) if isinstance(n, ast.Name) and isinstance(n.ctx, (ast.Store, ast.Del))}
        mapping: T.Dict[str, ast.AST] = {}
        pre: T.List[ast.stmt] = []
        for p_ in ps:
            a = bound.get(p_, defaults.get(p_))
            if a is None:
                return None
            if (isinstance(a, (ast.Name, ast.Constant)) or attr_chain(a) is not None) and p_ not in assigned:
                mapping[p_] = a
            else:
                nm = f'{p_}__g{uid}'
                pre.append(ast.Assign(targets=[ast.Name(id=nm, ctx=ast.Store())], value=_copy.deepcopy(a)))
                mapping[p_] = ast.Name(id=nm, ctx=ast.Load())
        for nm in assigned:
            mapping.setdefault(nm, ast.Name(id=f'{nm}__g{uid}', ctx=ast.Load()))
        rn = _Rename(mapping)
        body = [rn.visit(s_) for s_ in body]
        tgt = loop.target
        consumer = loop.body
        stored = {n.id for s_ in consumer for n in ast.walk(s_) if isinstance(n, ast.Name) and isinstance(n.ctx, (ast.Store, ast.Del))}

        def simple(e: ast.AST) -> bool:
            return isinstance(e, (ast.Name, ast.Constant)) or attr_chain(e) is not None

        class _Y(ast.NodeTransformer):
            def visit_Expr(self, n: ast.Expr) -> T.Any:
                if not isinstance(n.value, ast.Yield):
                    return n
                v = n.value.value
                assert v is not None
                sub: T.Dict[str, ast.AST] = {}
                binds: T.List[ast.stmt] = []
                if isinstance(tgt, ast.Tuple) and isinstance(v, ast.Tuple) and len(tgt.elts) == len(v.elts) \
                        and all(isinstance(t_, ast.Name) for t_ in tgt.elts) and not any(isinstance(e_, ast.Starred) for e_ in v.elts) \
                        and all(simple(e_) for e_ in v.elts):
                    # simple operands only: binding them one by one equals the simultaneous tuple assignment
                    pairs = list(zip(tgt.elts, v.elts))
                else:
                    pairs = [(tgt, v)]
                for t_, e_ in pairs:
                    binds.append(ast.Assign(targets=[_copy.deepcopy(t_)], value=_copy.deepcopy(e_)))
                    if isinstance(t_, ast.Name) and isinstance(e_, (ast.Name, ast.Constant)) and t_.id not in stored and not (isinstance(e_, ast.Name) and e_.id in stored):
                        sub[t_.id] = e_
                cons = [_Rename(sub).visit(_copy.deepcopy(s_)) for s_ in consumer]
                outy = binds + cons
                for s_ in outy:
                    ast.fix_missing_locations(ast.copy_location(s_, n))
                return outy
        out: T.List[ast.stmt] = list(pre)
        for s_ in body:
            r_ = _Y().visit(s_)
            out.extend(r_ if isinstance(r_, list) else [r_])
        return out

    @staticmethod
    def _pair_loop(name: str, k: ast.AST, v: ast.AST, g: ast.comprehension) -> ast.For:
        store: ast.stmt = ast.Assign(targets=[ast.Subscript(value=ast.Name(id=name, ctx=ast.Load()), slice=k, ctx=ast.Store())], value=v)
        body: T.List[ast.stmt] = [store]
        for c in reversed(g.ifs):
            body = [ast.If(test=c, body=body, orelse=[])]
        return ast.For(target=g.target, iter=g.iter, body=body, orelse=[])


def _desugar_local_map(f2: FuncNode) -> None:
    """`def g(x): BODY; return V` ... `return list(map(g, XS))` / `v = [g(x) for x in XS]` at the top level of a function, g a local
    single-parameter function with one trailing return used only there -> `acc = []; for x in XS: BODY; acc.append(V)` (loop fusion undone)."""
    for g in [st for st in f2.body if isinstance(st, ast.FunctionDef)]:
        if g.decorator_list or len(g.args.args) != 1 or g.args.vararg or g.args.kwarg or g.args.kwonlyargs or g.args.defaults or not g.body:
            continue
        rets = [n for st in g.body for n in walk_no_nested(st) if isinstance(n, ast.Return)]
        if len(rets) != 1 or rets[0] is not g.body[-1] or rets[0].value is None:
            continue
        if any(isinstance(n, (ast.Yield, ast.YieldFrom, ast.Nonlocal, ast.Global)) for st in g.body for n in ast.walk(st)):
            continue
        uses = [n for st in f2.body if st is not g for n in ast.walk(st) if isinstance(n, ast.Name) and n.id == g.name]
        if len(uses) != 1:
            continue
        for i, st in enumerate(f2.body):
            v = getattr(st, 'value', None) if isinstance(st, (ast.Return, ast.Assign)) else None
            xs = None
            if isinstance(v, ast.Call) and isinstance(v.func, ast.Name) and v.func.id == 'list' and len(v.args) == 1 and not v.keywords and isinstance(v.args[0], ast.Call) \
                    and isinstance(v.args[0].func, ast.Name) and v.args[0].func.id == 'map' and len(v.args[0].args) == 2 and v.args[0].args[0] is uses[0]:
                xs = v.args[0].args[1]
            elif isinstance(v, ast.ListComp) and len(v.generators) == 1 and not v.generators[0].ifs and isinstance(v.generators[0].target, ast.Name) \
                    and isinstance(v.elt, ast.Call) and v.elt.func is uses[0] and len(v.elt.args) == 1 and not v.elt.keywords \
                    and isinstance(v.elt.args[0], ast.Name) and v.elt.args[0].id == v.generators[0].target.id:
                xs = v.generators[0].iter
            if xs is None:
                continue
            acc = f'acc__m{i}'
            loop = ast.For(target=ast.Name(id=g.args.args[0].arg, ctx=ast.Store()), iter=xs,
                           body=g.body[:-1] + [ast.Expr(value=ast.Call(func=ast.Attribute(value=ast.Name(id=acc, ctx=ast.Load()), attr='append', ctx=ast.Load()),
                                                                        args=[rets[0].value], keywords=[]))], orelse=[])
            init = ast.Assign(targets=[ast.Name(id=acc, ctx=ast.Store())], value=ast.List(elts=[], ctx=ast.Load()))
            tail: ast.stmt = ast.Return(value=ast.Name(id=acc, ctx=ast.Load())) if isinstance(st, ast.Return) else ast.Assign(targets=st.targets, value=ast.Name(id=acc, ctx=ast.Load()))
            new = [ast.copy_location(n_, st) for n_ in (init, loop, tail)]
            f2.body = [b for b in f2.body[:i] if b is not g] + new + [b for b in f2.body[i + 1:] if b is not g]
            ast.fix_missing_locations(f2)
            break


def normal_func(mod: Module, q: str, resolve_method: T.Optional[T.Callable[[str], T.Optional[FuncNode]]] = None, fn: T.Optional[FuncNode] = None,
                inline: int = 2) -> FuncNode:
    """Normal form of the function `q` of `mod` (cached on the Module object)."""
    import copy as _copy
    cache = getattr(mod, '_c15_nf', None)
    if cache is None:
        cache = {}
        setattr(mod, '_c15_nf', cache)
    key = (q if fn is None else f'{q}@{id(fn)}') + f'/{inline}'
    if key in cache:
        return cache[key]
    raw = fn if fn is not None else mod.func(q)
    f2 = _copy.deepcopy(raw)
    _expand_partials(f2)
    _desugar_local_map(f2)
    cls = q.rsplit('.', 1)[0] if '.' in q else None
    nz = _Normaliser(mod, cls, resolve_method)
    nz.stack.append(q if '.' not in q else q)
    f2.body = nz.block(f2.body, inline)
    ast.fix_missing_locations(f2)
    cache[key] = f2
    return f2


def fold_template(e: ast.AST, var: str, mark: str = 'KIND') -> T.Optional[str]:
    """Text template of a string expression over one variable: f-string, `a + 'lit'`, `'..%s..' % v`, `'..{}..'.format(v)`,
    `''.join([...])`; the variable is rendered as `mark`.  None when the expression is not such a template."""
    if isinstance(e, ast.Constant) and isinstance(e.value, str):
        return e.value
    if isinstance(e, ast.Name) and e.id == var:
        return mark
    if isinstance(e, ast.Call) and isinstance(e.func, ast.Name) and e.func.id == 'str' and len(e.args) == 1:
        return fold_template(e.args[0], var, mark)
    if isinstance(e, ast.JoinedStr):
        out = ''
        for v in e.values:
            if isinstance(v, ast.Constant):
                out += str(v.value)
            elif isinstance(v, ast.FormattedValue) and v.format_spec is None and v.conversion in (-1, 115):
                t = fold_template(v.value, var, mark)
                if t is None:
                    return None
                out += t
            else:
                return None
        return out
    if isinstance(e, ast.BinOp) and isinstance(e.op, ast.Add):
        a, b = fold_template(e.left, var, mark), fold_template(e.right, var, mark)
        return None if a is None or b is None else a + b
    if isinstance(e, ast.BinOp) and isinstance(e.op, ast.Mod) and isinstance(e.left, ast.Constant) and isinstance(e.left.value, str):
        args = e.right.elts if isinstance(e.right, ast.Tuple) else [e.right]
        parts = e.left.value.split('%s')
        if len(parts) != len(args) + 1 or '%' in ''.join(parts):
            return None
        ts = [fold_template(a, var, mark) for a in args]
        if any(t is None for t in ts):
            return None
        return ''.join(p + (t or '') for p, t in zip(parts, ts + ['']))  # type: ignore[operator]
    if isinstance(e, ast.Call) and call_method(e) == 'format' and isinstance(e.func, ast.Attribute) and isinstance(e.func.value, ast.Constant) \
            and isinstance(e.func.value.value, str) and not e.keywords:
        parts = e.func.value.value.split('{}')
        if len(parts) != len(e.args) + 1 or '{' in ''.join(parts):
            return None
        ts = [fold_template(a, var, mark) for a in e.args]
        if any(t is None for t in ts):
            return None
        return ''.join(p + (t or '') for p, t in zip(parts, ts + ['']))  # type: ignore[operator]
    if isinstance(e, ast.Call) and call_method(e) == 'join' and isinstance(e.func, ast.Attribute) and isinstance(e.func.value, ast.Constant) \
            and e.func.value.value == '' and len(e.args) == 1 and isinstance(e.args[0], (ast.List, ast.Tuple)):
        ts = [fold_template(a, var, mark) for a in e.args[0].elts]
        return None if any(t is None for t in ts) else ''.join(ts)  # type: ignore[arg-type]
    return None


def _expand_partials(fn: FuncNode) -> None:
    """`f = functools.partial(g, a, k=v)` ... `f(x)`  ->  `g(a, x, k=v)` (single-definition locals only; done in place)."""
    loc = Locals(fn)
    bound: T.Dict[str, ast.Call] = {}
    for nm, ds in loc.defs.items():
        if len(ds) == 1 and isinstance(ds[0], ast.Call) and call_name(ds[0]) in ('functools.partial', 'partial') and ds[0].args \
                and not any(isinstance(a, ast.Starred) for a in ds[0].args):
            bound[nm] = ds[0]
    if not bound:
        return
    import copy as _copy
    for c in ast.walk(fn):
        if isinstance(c, ast.Call) and isinstance(c.func, ast.Name) and c.func.id in bound:
            p = bound[c.func.id]
            c.func = _copy.deepcopy(p.args[0])
            c.args = [_copy.deepcopy(a) for a in p.args[1:]] + c.args
            c.keywords = [_copy.deepcopy(k) for k in p.keywords] + c.keywords
