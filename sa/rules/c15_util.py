"""Helpers of the C15 rule pack (resolution of locals, intro dispatch table, path terms)."""
from __future__ import annotations

import ast
import typing as T

from ..core import Undecided, Module, attr_chain, call_method, norm, short, walk_no_nested

FuncNode = T.Union[ast.FunctionDef, ast.AsyncFunctionDef]

MINTRO = 'mesonbuild/mintro.py'
BACKENDS = 'mesonbuild/backend/backends.py'
NINJA = 'mesonbuild/backend/ninjabackend.py'
MSETUP = 'mesonbuild/msetup.py'
MTEST = 'mesonbuild/mtest.py'
MINSTALL = 'mesonbuild/minstall.py'
OPTIONS = 'mesonbuild/options.py'
INTERP = 'mesonbuild/interpreter/interpreter.py'
IDEDOC = 'docs/markdown/IDE-integration.md'


def params(fn: T.Union[FuncNode, ast.Lambda]) -> T.List[str]:
    return [a.arg for a in fn.args.posonlyargs + fn.args.args if a.arg not in ('self', 'cls')]


def param(fn: FuncNode, i: int, what: str) -> str:
    p = params(fn)
    if len(p) <= i:
        raise Undecided(f'{what}: expected at least {i + 1} parameters, found {p}')
    return p[i]


class Locals:
    """Definitions of the simple local names of one function (nested defs excluded)."""

    def __init__(self, fn: FuncNode):
        self.fn = fn
        self.defs: T.Dict[str, T.List[T.Optional[ast.AST]]] = {}
        for n in self._walk(fn):
            if isinstance(n, ast.Assign):
                for t in n.targets:
                    self._bind(t, n.value)
            elif isinstance(n, ast.AnnAssign) and n.value is not None:
                self._bind(n.target, n.value)
            elif isinstance(n, ast.AugAssign):
                self._bind(n.target, None)
            elif isinstance(n, (ast.For, ast.AsyncFor)):
                self._bind(n.target, None)
            elif isinstance(n, (ast.With, ast.AsyncWith)):
                for i in n.items:
                    if i.optional_vars is not None:
                        self._bind(i.optional_vars, None)
            elif isinstance(n, ast.NamedExpr):
                self._bind(n.target, None)
            elif isinstance(n, ast.ExceptHandler) and n.name:
                self.defs.setdefault(n.name, []).append(None)

    @staticmethod
    def _walk(fn: FuncNode) -> T.Iterator[ast.AST]:
        for st in fn.body:
            if isinstance(st, (ast.FunctionDef, ast.AsyncFunctionDef, ast.ClassDef)):
                continue
            yield from walk_no_nested(st)

    def _bind(self, t: ast.AST, v: T.Optional[ast.AST]) -> None:
        if isinstance(t, ast.Name):
            self.defs.setdefault(t.id, []).append(v)
        elif isinstance(t, (ast.Tuple, ast.List)):
            for e in t.elts:
                self._bind(e, None)
        elif isinstance(t, ast.Starred):
            self._bind(t.value, None)

    def resolve(self, e: ast.AST, depth: int = 8) -> ast.AST:
        """Follow single-definition locals: `x = f(); use(x)` -> `f()`."""
        while depth > 0 and isinstance(e, ast.Name):
            if e.id in params(self.fn):
                return e
            d = self.defs.get(e.id)
            if not d:
                return e
            if len(d) != 1 or d[0] is None:
                raise Undecided(f'{self.fn.name}: local `{e.id}` has {len(d)} definitions / is a loop or with target; cannot resolve it')
            e = d[0]
            depth -= 1
        return e


def loops_over(fn: FuncNode) -> T.List[T.Union[ast.For, ast.comprehension]]:
    out: T.List[T.Union[ast.For, ast.comprehension]] = []
    for n in ast.walk(fn):
        if isinstance(n, (ast.For, ast.comprehension)):
            out.append(n)
    return out


def intro_table(mod: Module) -> T.Dict[str, T.Optional[str]]:
    """INTRO_TYPES: kind -> name of the configure-time producer function (`func=`), None when absent."""
    v = mod.assign_value('INTRO_TYPES')
    if not isinstance(v, ast.Dict):
        raise Undecided('INTRO_TYPES is not a dict display')
    out: T.Dict[str, T.Optional[str]] = {}
    for k, val in zip(v.keys, v.values):
        if not (isinstance(k, ast.Constant) and isinstance(k.value, str)):
            raise Undecided(f'INTRO_TYPES: key {short(k)} is not a string literal')
        if not (isinstance(val, ast.Call) and call_method(val) == 'IntroCommand'):
            raise Undecided(f'INTRO_TYPES[{k.value!r}] is not an IntroCommand(...) call')
        f: T.Optional[ast.AST] = None
        for kw in val.keywords:
            if kw.arg == 'func':
                f = kw.value
        if f is None and len(val.args) >= 2:
            f = val.args[1]
        if f is None:
            out[k.value] = None
        elif isinstance(f, ast.Name):
            out[k.value] = f.id
        else:
            raise Undecided(f'INTRO_TYPES[{k.value!r}].func is not a plain function name: {short(f)}')
    return out


def intro_func(mod: Module, kind: str) -> FuncNode:
    tab = intro_table(mod)
    name = tab.get(kind)
    if name is None:
        raise Undecided(f'INTRO_TYPES has no configure-time producer for {kind!r}')
    return mod.func(name)


def parents(root: ast.AST) -> T.Dict[ast.AST, ast.AST]:
    """child -> parent inside one function (Module.parent_map walks the whole file)."""
    pm: T.Dict[ast.AST, ast.AST] = {}
    for n in ast.walk(root):
        for ch in ast.iter_child_nodes(n):
            pm[ch] = n
    return pm


def bind_args(call: ast.Call, fn: T.Union[FuncNode, None], names: T.Optional[T.List[str]] = None) -> T.Dict[str, ast.AST]:
    """Arguments of a call bound to the callee's parameter names (positional index or keyword), `self`/`cls` skipped.
    `names` gives the parameter names when the callee is not a repository function."""
    ps = params(fn) if fn is not None else list(names or [])
    if fn is not None:
        ps += [a.arg for a in fn.args.kwonlyargs]
    out: T.Dict[str, ast.AST] = {}
    for i, a in enumerate(call.args):
        if isinstance(a, ast.Starred):
            raise Undecided(f'call with *args cannot be bound: {short(call)}')
        if i < len(ps):
            out[ps[i]] = a
        else:
            out[f'#{i}'] = a
    for k in call.keywords:
        if k.arg is None:
            raise Undecided(f'call with **kwargs cannot be bound: {short(call)}')
        out[k.arg] = k.value
    return out


def judge(ctx: T.Any, ok: bool, what: str, positive: bool, mod: T.Any, func: str, construct: T.Any, msg: str, node: T.Optional[ast.AST] = None) -> bool:
    """ok -> discharged; violated only on positive evidence (a visible construct doing the wrong thing); otherwise undecided."""
    if ok:
        ctx.ok(what)
        return True
    if positive:
        ctx.violation(mod, func, construct, msg, node)
        return False
    raise Undecided(f'{func}: cannot establish: {what}')


def method_calls(node: ast.AST, method: str, nested: bool = True) -> T.List[ast.Call]:
    it = ast.walk(node) if nested else walk_no_nested(node)
    out = [c for c in it if isinstance(c, ast.Call) and call_method(c) == method]
    return sorted(out, key=lambda c: (c.lineno, c.col_offset))


def recv(call: ast.Call) -> T.Optional[str]:
    """Receiver chain of a method call (`backend.f(x)` -> 'backend')."""
    if isinstance(call.func, ast.Attribute):
        return attr_chain(call.func.value)
    return None


def is_call_on(e: ast.AST, receiver: str, method: str) -> bool:
    return isinstance(e, ast.Call) and call_method(e) == method and recv(e) == receiver


def dict_entries(d: ast.Dict) -> T.Dict[str, ast.AST]:
    out: T.Dict[str, ast.AST] = {}
    for k, v in zip(d.keys, d.values):
        if isinstance(k, ast.Constant) and isinstance(k.value, str):
            out[k.value] = v
    return out


def subscript_stores(fn: ast.AST, var: T.Optional[str] = None) -> T.List[T.Tuple[str, str, ast.AST, ast.AST]]:
    """`v['key'] = value` statements: (variable, key, value, stmt)."""
    out = []
    for n in ast.walk(fn):
        if isinstance(n, ast.Assign) and len(n.targets) == 1 and isinstance(n.targets[0], ast.Subscript):
            t = n.targets[0]
            if isinstance(t.value, ast.Name) and isinstance(t.slice, ast.Constant) and isinstance(t.slice.value, str):
                if var is None or t.value.id == var:
                    out.append((t.value.id, t.slice.value, n.value, n))
    return out


def attrs_of(e: ast.AST, var: str) -> T.List[str]:
    """Attribute names read directly on the name `var` inside e, in evaluation (source) order."""
    found = [(n.lineno, n.col_offset, n.attr) for n in ast.walk(e)
             if isinstance(n, ast.Attribute) and isinstance(n.value, ast.Name) and n.value.id == var]
    return [a for _, _, a in sorted(found)]


def const_strs(e: ast.AST) -> T.List[str]:
    return [n.value for n in ast.walk(e) if isinstance(n, ast.Constant) and isinstance(n.value, str)]


def embedded_calls(e: ast.AST) -> T.List[ast.Call]:
    """Calls evaluated by an expression, including those inside the constant source string handed to
    `profile.runctx('<code>', ...)` (parsed, not matched as text)."""
    out: T.List[ast.Call] = []
    for c in walk_no_nested(e):
        if not isinstance(c, ast.Call):
            continue
        out.append(c)
        if call_method(c) in ('runctx', 'run', 'runcall') and c.args and isinstance(c.args[0], ast.Constant) and isinstance(c.args[0].value, str):
            try:
                sub = ast.parse(c.args[0].value)
            except SyntaxError:
                raise Undecided(f'profiled code string does not parse: {c.args[0].value!r}')
            out.extend(x for x in ast.walk(sub) if isinstance(x, ast.Call))
    return out


# ---------------------------------------------------------------------------
# path terms for the layout comparison (C15.R3)

Term = T.Tuple[T.Any, ...]


def path_term(e: ast.AST, env: T.Dict[str, Term], target_names: T.Set[str]) -> Term:
    """Directory expression -> list of symbolic components."""
    if isinstance(e, ast.Constant) and isinstance(e.value, str):
        return (('lit', e.value),) if e.value else ()
    if isinstance(e, ast.Name) and e.id in env:
        return env[e.id]
    if isinstance(e, ast.Call):
        m = call_method(e)
        r = recv(e)
        if m in ('get_builddir', 'get_build_subdir', 'get_subdir') and not e.args and r is not None and (r in target_names):
            return ((m,),)
        if m == 'join' and recv(e) in ('os.path', 'posixpath'):
            out: T.List[T.Any] = []
            for a in e.args:
                out.extend(path_term(a, env, target_names))
            return tuple(out)
    raise Undecided(f'directory expression outside the understood vocabulary: {short(e)}')


def eval_term(t: Term, has_build_subdir: bool) -> T.Tuple[str, ...]:
    out: T.List[str] = []
    for c in t:
        if c[0] == 'lit':
            out.append(c[1])
        elif c[0] == 'get_builddir':
            # Target.__post_init__: builddir = project prefix + subdir [/ build_subdir]  (checked by C15.R3)
            out.append('<prefix+subdir>')
            if has_build_subdir:
                out.append('<build_subdir>')
        elif c[0] == 'get_subdir':
            out.append('<subdir>')
        elif c[0] == 'get_build_subdir':
            if not has_build_subdir:
                # an unguarded, possibly empty component: its effect on the joined path is not decided here
                raise Undecided('build_subdir is joined on a path where it may be empty')
            out.append('<build_subdir>')
        else:  # pragma: no cover
            raise Undecided(f'unknown path component {c!r}')
    return tuple(out)


def fmt_term(t: Term) -> str:
    if not t:
        return "''"
    return ' / '.join(repr(c[1]) if c[0] == 'lit' else f'target.{c[0]}()' for c in t)


__all__ = [n for n in dir() if not n.startswith('__')]
_ = (norm,)
