"""C05 - the build graph is dependency-complete (DESIGN section 2 C05, data sheet A.7, flow relation B.2)."""
from __future__ import annotations

import ast
import typing as T

from ..core import AnalysisError, Module, Repo, Undecided, attr_chain, norm, short
from ..report import Rule, RuleCtx
from .c05_flow import Analyzer, FuncFlow, bind_args, is_method, label_root

NB = 'mesonbuild/backend/ninjabackend.py'
BE = 'mesonbuild/backend/backends.py'
BUILD = 'mesonbuild/build.py'

EXPLANATION = (
    'Decides a structural necessary condition of C05 (the property itself quantifies over schedules and is NOT decided): '
    'R1 every dependency source the build model offers is routed into the Ninja edge by the function that emits it - a frozen table '
    'of must-flow obligations (function, source expression, sink) over generate_custom_target, generate_run_target, '
    'generate_genlist_for_target, generate_target (header/order deps of every generate_single_compile / generate_pch call, objects '
    'into generate_link), generate_single_compile, generate_pch, generate_link, generate_prelink, generate_shsym, '
    'get_fortran_module_deps and the model side in build.py (flatten_command, CustomTarget/RunTarget/GeneratedList constructors, '
    'get_dependencies); a sink is add_dep / add_orderdep / constructor inputs of the element that is later passed to add_build or '
    'returned (any of the three orders the producer first); flows are accepted only through the B.2 transfer rules and summaries '
    'of resolved repository callees (depth 3), never through an unknown callee. R2 get_generated_headers recurses over '
    'link_targets and link_whole_targets, returns what it collected and caches only the complete list. '
    'The obligations say "this source reaches that edge", not that the listed sources suffice for every project.')
ASSUMPTIONS = [
    'NinjaBuildElement.add_dep/add_orderdep/constructor inputs are written to build.ninja as implicit/order-only/explicit inputs (C04)',
    'methods of model objects (target.get_outputs(), File.rel_to_builddir(), os.path.join ...) return values derived from receiver and arguments',
    'the obligation table (A.7, confirmed by reading the pinned tree) lists the sources that matter; a missing row is a gap of the check',
]
TECHNIQUE = 'must-flow over reaching definitions on the CFG with access-path origins and callee summaries (depth 3)'


class Ob(T.NamedTuple):
    rel: str
    qual: str
    source: str
    sink: T.Tuple[T.Any, ...]
    why: str = ''


EDGE = ('edge',)
INPUT = ('edge', 'infiles')   # primary inputs: the rule's command line uses $in, so they must be the explicit inputs


def CALLARG(callee: str, params: T.Tuple[str, ...], quant: T.Union[str, int] = 'all') -> T.Tuple[T.Any, ...]:
    return ('callarg', callee, params, quant)


def RET(k: T.Optional[int] = None) -> T.Tuple[T.Any, ...]:
    return ('return', k)


def STORE(chain: str) -> T.Tuple[T.Any, ...]:
    return ('store', chain)


HO = ('header_deps', 'order_deps')

# A.7, confirmed by reading the pinned tree and frozen.  Sources are written over the function's parameters
# (never over a local name); `call:self.f()[k]` is position k of the tuple f returns.
R1_TABLE: T.List[Ob] = [
    # custom targets ------------------------------------------------------------------------------------
    Ob(NB, 'NinjaBackend.generate_custom_target', 'call:target.get_dependencies()', EDGE, 'targets used in command:'),
    Ob(NB, 'NinjaBackend.generate_custom_target', 'attr:target.extra_depends', EDGE, 'depends:'),
    Ob(NB, 'NinjaBackend.generate_custom_target', 'attr:target.depend_files', EDGE, 'depend_files: (via get_target_depend_files)'),
    Ob(NB, 'NinjaBackend.generate_custom_target', 'call:self.eval_custom_target_command()[0]', INPUT, 'input: files are the edge inputs'),
    Ob(NB, 'NinjaBackend.generate_custom_target', 'call:target.get_sources()', INPUT, 'input: (through eval_custom_target_command -> get_custom_target_sources)'),
    Ob(NB, 'NinjaBackend.generate_run_target', 'call:target.get_dependencies()', EDGE, 'depends: and targets in command:'),
    Ob(NB, 'NinjaBackend.generate_run_target', 'attr:target.depend_files', EDGE),
    # generators ----------------------------------------------------------------------------------------
    Ob(NB, 'NinjaBackend.generate_genlist_for_target', 'attr:genlist.depend_files', EDGE, 'generator executable / depend_files'),
    Ob(NB, 'NinjaBackend.generate_genlist_for_target', 'attr:genlist.get_generator().depends', EDGE, 'generator(depends:)'),
    Ob(NB, 'NinjaBackend.generate_genlist_for_target', 'attr:genlist.extra_depends', EDGE, 'process(extra_depends:) + built generator exe'),
    Ob(NB, 'NinjaBackend.generate_genlist_for_target', 'call:genlist.get_inputs()', INPUT, 'input files are the edge inputs'),
    Ob(NB, 'NinjaBackend.generate_genlist_for_target', 'attr:genlist.depends', CALLARG('generate_genlist_for_target', ('genlist',), 1),
       'nested generator outputs get their own edges'),
    Ob(BUILD, 'GeneratedList.__post_init__', 'call:self.generator.exe.get_target()', STORE('self.extra_depends'), 'built generator executable'),
    Ob(BUILD, 'GeneratedList.__post_init__', 'call:self.generator.exe.get_target()', STORE('self.depend_files'), 'generator script (File)'),
    Ob(BUILD, 'GeneratedList.__post_init__', 'call:self.generator.exe.get_path()', STORE('self.depend_files'), 'external generator program'),
    # compile edges -------------------------------------------------------------------------------------
    Ob(NB, 'NinjaBackend.generate_target', 'call:self.get_generated_headers()', CALLARG('generate_single_compile', HO, 'all'),
       'generated headers before every compile of the target'),
    Ob(NB, 'NinjaBackend.generate_target', 'call:self.get_target_generated_sources()', CALLARG('generate_single_compile', HO, 'all'),
       'non-source generated files count as headers'),
    Ob(NB, 'NinjaBackend.generate_target', 'call:self.get_generated_headers()', CALLARG('generate_pch', ('header_deps',), 'all')),
    Ob(NB, 'NinjaBackend.generate_target', 'call:self.get_target_generated_sources()', CALLARG('generate_pch', ('header_deps',), 'all')),
    Ob(NB, 'NinjaBackend.generate_target', 'call:self.get_fortran_order_deps()', CALLARG('generate_single_compile', HO, 2),
       'Fortran objects of object-providing targets (.mod files) before own sources / unity files'),
    Ob(NB, 'NinjaBackend.generate_target', 'call:self.generate_single_compile()[0]', CALLARG('generate_single_compile', HO, 2),
       'objects of generated D sources before own sources / unity files'),
    Ob(NB, 'NinjaBackend.generate_target', 'call:self.generate_single_compile()[0]', CALLARG('generate_link', ('obj_list',), 'all'),
       'compiled objects are link inputs'),
    Ob(NB, 'NinjaBackend.generate_target', 'call:self.generate_llvm_ir_compile()[0]', CALLARG('generate_link', ('obj_list',), 'all')),
    Ob(NB, 'NinjaBackend.generate_target', 'call:self.flatten_object_list()[0]', CALLARG('generate_link', ('obj_list',), 'all'), 'objects: / extract_objects()'),
    Ob(NB, 'NinjaBackend.generate_target', 'call:self.get_target_generated_sources()', CALLARG('generate_link', ('obj_list',), 'all'), 'generated objects'),
    Ob(NB, 'NinjaBackend.generate_target', 'call:self.generate_prelink()', CALLARG('generate_link', ('obj_list',), 'all')),
    Ob(NB, 'NinjaBackend.generate_target', 'call:self.generate_pch()', CALLARG('generate_link', ('extra_objs',), 'all'), 'MSVC pch objects'),
    Ob(NB, 'NinjaBackend.generate_target', 'call:self.generate_link()', CALLARG('add_build', ('build',), 1), 'the link edge is registered'),
    Ob(NB, 'NinjaBackend.generate_single_compile', 'param:header_deps', EDGE),
    Ob(NB, 'NinjaBackend.generate_single_compile', 'param:order_deps', EDGE),
    Ob(NB, 'NinjaBackend.generate_single_compile', 'param:src', INPUT, 'the (possibly generated) source is the edge input'),
    Ob(NB, 'NinjaBackend.generate_single_compile', 'attr:target.pch', EDGE, 'the compiled pch before objects using it'),
    Ob(NB, 'NinjaBackend.generate_single_compile', 'attr:target.depend_files', EDGE),
    Ob(NB, 'NinjaBackend.generate_single_compile', 'call:self.get_fortran_module_deps()', EDGE, 'linked libraries before Fortran compiles (.mod)'),
    Ob(NB, 'NinjaBackend.generate_single_compile', 'call:self.get_fortran_deps()', EDGE, 'module files used by the source'),
    Ob(NB, 'NinjaBackend.generate_single_compile', 'call:self.handle_cpp_import_std()[1]', EDGE, 'import std module file'),
    Ob(NB, 'NinjaBackend.get_fortran_module_deps', 'attr:target.link_targets', RET()),
    Ob(NB, 'NinjaBackend.get_fortran_module_deps', 'attr:target.link_whole_targets', RET()),
    Ob(NB, 'NinjaBackend.generate_pch', 'param:header_deps', EDGE, 'generated headers before the pch compile'),
    Ob(NB, 'NinjaBackend.generate_pch', 'attr:target.pch', INPUT, 'the pch source / header is the input'),
    # link edges ----------------------------------------------------------------------------------------
    Ob(NB, 'NinjaBackend.generate_link', 'call:target.get_dependencies()', EDGE, 'link_with / link_whole (transitively)'),
    Ob(NB, 'NinjaBackend.generate_link', 'attr:target.link_depends', EDGE),
    Ob(NB, 'NinjaBackend.generate_link', 'param:extra_objs', EDGE),
    Ob(NB, 'NinjaBackend.generate_link', 'call:self.get_custom_target_provided_libraries()', EDGE, 'libraries made by custom targets'),
    Ob(NB, 'NinjaBackend.generate_link', 'param:obj_list', INPUT),
    Ob(NB, 'NinjaBackend.generate_link', 'call:self.get_import_std_object()', INPUT),
    Ob(NB, 'NinjaBackend.generate_prelink', 'param:obj_list', INPUT),
    Ob(NB, 'NinjaBackend.generate_shsym', 'call:self.get_target_filename()', INPUT, 'the symbol file is made from the library'),
    # model side: what the backend reads is what the interpreter recorded --------------------------------------
    Ob(BUILD, 'CustomTarget.__init__', 'call:flatten_command()[2]', STORE('self.dependencies')),
    Ob(BUILD, 'CustomTarget.__init__', 'call:flatten_command()[1]', STORE('self.depend_files')),
    Ob(BUILD, 'CustomTarget.__init__', 'param:depend_files', STORE('self.depend_files')),
    Ob(BUILD, 'CustomTarget.__init__', 'param:extra_depends', STORE('self.extra_depends')),
    Ob(BUILD, 'CustomTarget.__init__', 'param:sources', STORE('self.sources')),
    Ob(BUILD, 'CustomTarget.get_dependencies', 'attr:self.dependencies', RET()),
    Ob(BUILD, 'RunTarget.__init__', 'param:dependencies', STORE('self.dependencies')),
    Ob(BUILD, 'RunTarget.__init__', 'call:flatten_command()[2]', STORE('self.dependencies')),
    Ob(BUILD, 'RunTarget.__init__', 'call:flatten_command()[1]', STORE('self.depend_files')),
    Ob(BUILD, 'RunTarget.get_dependencies', 'attr:self.dependencies', RET()),
    Ob(BUILD, 'BuildTarget.get_dependencies', 'attr:self.link_targets', RET()),
    Ob(BUILD, 'BuildTarget.get_dependencies', 'attr:self.link_whole_targets', RET()),
]

R2_TABLE: T.List[Ob] = [
    Ob(NB, 'NinjaBackend.get_generated_headers', 'attr:target.link_targets', CALLARG('get_generated_headers', ('target',), 1), 'recursion over link_with'),
    Ob(NB, 'NinjaBackend.get_generated_headers', 'attr:target.link_whole_targets', CALLARG('get_generated_headers', ('target',), 1), 'recursion over link_whole'),
    Ob(NB, 'NinjaBackend.get_generated_headers', 'call:self.get_generated_headers()', RET(), 'headers of linked libraries are returned'),
    Ob(NB, 'NinjaBackend.get_generated_headers', 'call:target.get_generated_sources()', RET(), 'own generator outputs'),
    Ob(NB, 'NinjaBackend.get_generated_headers', 'attr:target.vala_header', RET()),
    Ob(NB, 'NinjaBackend.get_generated_headers', 'call:target.get_generated_headers()', RET(), 'CompileTarget (preprocessor) inputs'),
]
R2_CACHE = 'self._generated_header_cache'
R2_CACHED = ['call:self.get_generated_headers()', 'call:target.get_generated_sources()', 'attr:target.vala_header',
             'call:target.get_generated_headers()']

SELFCHECK_REL = 'mesonbuild/_c05_selfcheck.py'
SELFCHECK_SRC = '''
class NinjaBuildElement:
    pass

class B:
    def paths(self, ts):
        out = []
        for t in ts:
            out.append(t.get_filename())
        return out

    def pair(self, t):
        a = t.first()
        b = t.second()
        return a, b

    def gen(self, target):
        deps = self.paths(target.get_dependencies())
        forgotten = self.paths(target.extra_depends)
        late = []
        x, y = self.pair(target)
        elem = NinjaBuildElement(self.all_outputs, 'out', 'RULE', [x])
        other = NinjaBuildElement(self.all_outputs, 'out2', 'RULE', [])
        other.add_dep(target.link_depends)
        elem.add_dep(deps)
        elem.add_orderdep(late)
        late.append(target.too_late)
        deps = []
        deps += target.killed
        self.add_build(elem)
'''
SELFCHECK = [  # (source, expected to reach a registered edge sink)
    ('call:target.get_dependencies()', True),       # through the summary of paths()
    ('call:target.first()', True),                  # positional tuple summary into the constructor inputs
    ('call:target.second()', False),                # the other position is not used
    ('attr:target.extra_depends', False),           # computed, never added
    ('attr:target.link_depends', False),            # added to an element that is never registered
    ('attr:target.too_late', False),                # appended after the list was handed over
    ('attr:target.killed', False),                  # re-bound after the sink
]


# -- evaluation of one obligation ----------------------------------------------------------------------------

def _interesting(labels: T.Iterable[str], limit: int = 8) -> str:
    ls = sorted(l for l in labels if l.split(':', 1)[0] in ('param', 'attr', 'call') and not l.startswith(('attr:os.', 'call:os.')))
    return ', '.join(ls[:limit]) + (f', ... {len(ls) - limit} more' if len(ls) > limit else '')


def _check_source(ff: FuncFlow, ob: Ob) -> None:
    kind, root, _ = label_root(ob.source)
    if root and root != 'self' and root not in ff.params and not (kind == 'call' and ff.mod.has_func(root)):
        raise Undecided(f'{ob.qual}: the obligation source {ob.source} is written over parameter `{root}`, which the function no longer has '
                        f'(parameters: {ff.params}); re-confirm the table')
    if ob.source.endswith(']') and kind == 'call':
        # positional source: the callee must still return a tuple display, otherwise positions are unknown
        path = ob.source.split(':', 1)[1]
        callee = path[:path.index('(')]
        if callee.startswith('self.'):
            r = ff.an.resolve_self(callee[5:])
            tgt = None if r is None else (r[0], r[1], r[2])
        else:
            tgt = (ff.mod, callee, ff.mod.func(callee)) if ff.mod.has_func(callee) else None
        if tgt is None:
            raise Undecided(f'{ob.qual}: callee of {ob.source} cannot be resolved')
        s = ff.an.summary(tgt[0], tgt[1], tgt[2], ff.depth - 1)
        if s is None or s.elements is None:
            raise Undecided(f'{ob.qual}: {callee} does not return a tuple display on every path; positions of {ob.source} are unknown')


def main_element(ff: FuncFlow, sources: T.Sequence[str]) -> T.List[T.Any]:
    """The registered element of the function that receives most of the listed sources: all edge obligations of one
    function are judged on this one element (a helper edge such as FORTRAN_DEP_HACK must not discharge them)."""
    best: T.List[T.Any] = []
    score = -1
    for g in ff.elem_groups():
        labels: T.Set[str] = set()
        for s in g:
            labels |= ff.sink_value(s)[1]
        n = sum(1 for x in sources if x in labels)
        if n > score:
            best, score = g, n
    return best


def edge_hits(ff: FuncFlow, source: str, sources: T.Sequence[str] = (), kinds: T.Sequence[str] = ()) -> T.Tuple[T.List[T.Any], T.List[T.Any], T.List[T.Any]]:
    """(sinks of the main element carrying source, other sinks carrying it, all sinks of the main element)."""
    regs = main_element(ff, list(sources) or [source])
    carry = [s for s in regs if source in ff.sink_value(s)[1]]
    hits = [s for s in carry if not kinds or s.kind in kinds]
    loose = [s for s in carry if kinds and s.kind not in kinds]
    loose += [s for s in ff.sinks() if not any(s is r for r in regs) and source in ff.sink_value(s)[1]]
    return hits, loose, regs


def _positional_guard(ob: Ob, labels: T.Iterable[str]) -> None:
    """`call:f()[k]` is required but only the unpositioned `call:f()` arrives: the tuple went through an idiom that
    loses positions - undecided, not violated."""
    src = ob.source
    if src.endswith(']') and src[:src.rindex('[')] in labels:
        raise Undecided(f'{ob.qual}: the result of {src[:src.rindex("[")]} reaches the sink, but not through a positional unpacking '
                        f'the analysis understands; cannot tell whether it is position {src[src.rindex("["):]}')


def check_ob(ctx: RuleCtx, an: Analyzer, ff: FuncFlow, ob: Ob, siblings: T.Sequence[str] = ()) -> None:
    _check_source(ff, ob)
    mod, qual, src = ff.mod, ob.qual, ob.source
    kind = ob.sink[0]
    why = ob.why or 'dependency source'
    if kind == 'edge':
        kinds = ob.sink[1:]
        hits, loose, regs = edge_hits(ff, src, siblings, kinds)
        if hits:
            ctx.ok(f'{qual}: {src} -> {hits[0].kind} `{hits[0].desc}`' + (f' (+{len(hits) - 1} more)' if len(hits) > 1 else ''))
            return
        if not ff.sinks():
            raise Undecided(f'{qual}: no add_dep/add_orderdep/NinjaBuildElement(...) sink recognised in the function')
        seen_labels: T.Set[str] = set()
        for s in regs:
            seen_labels |= ff.sink_value(s)[1]
            if s.kind == 'infiles':
                # the constructor keeps a reference to the list it is given: a later in-place extension still arrives
                for e in s.exprs:
                    if isinstance(e, ast.Name) and any(src in ff.origins_at(e, n) for n in ff.reg_nodes(s)):
                        raise Undecided(f'{qual}: {src} is added to the input list `{e.id}` only after `{s.desc}`; whether it arrives depends on aliasing')
        _positional_guard(ob, seen_labels)
        seen = '; '.join(f'{s.kind} `{s.desc}` carries [{_interesting(ff.sink_value(s)[1], 5)}]' for s in regs[:6])
        extra = ''
        if loose:
            extra = (f' It does reach {loose[0].kind} `{loose[0].desc}`, but that is not '
                     + ('the explicit input list ($in) of the main element.' if kinds and any(loose[0] is r for r in regs) else
                        'the element the other sources of this function go to, or it is never passed to self.add_build(...) / returned.'))
        ctx.violation(mod, qual, f'{src} -> {"inputs" if kinds else "edge"}',
                      f'{src} ({why}) does not reach {"the explicit inputs" if kinds else "add_dep/add_orderdep/inputs"} of the registered build element '
                      f'at the point where the edge is populated.{extra} Registered sinks: {seen or "none"}', ff.fn)
        return
    if kind == 'callarg':
        _, callee, params, quant = ob.sink
        calls = ff.calls_of(callee)
        r = an.resolve_self(callee)
        if r is None:
            raise Undecided(f'{qual}: self.{callee} cannot be resolved')
        if not calls:
            if quant == 'all':
                raise Undecided(f'{qual}: no call of self.{callee}(...) found')
            ctx.violation(mod, qual, f'{src} -> self.{callee}(...)',
                          f'{src} ({why}) must be handed to self.{callee}(...) in at least {quant} call(s); the function does not call it at all', ff.fn)
            return
        cfn = r[2]
        have = [a.arg for a in cfn.args.posonlyargs + cfn.args.args + cfn.args.kwonlyargs]  # type: ignore[attr-defined]
        for p in params:
            if p not in have:
                raise Undecided(f'{qual}: {callee} has no parameter `{p}` any more (has {have}); re-confirm the table')
        good, bad = [], []
        for node, c in calls:
            b = bind_args(cfn, c, is_method(cfn))
            if b is None:
                raise Undecided(f'{qual}: cannot bind arguments of `{short(c)}`')
            labels: T.Set[str] = set()
            for p in params:
                if p in b:
                    labels |= ff.origins_at(b[p], node)
            (good if src in labels else bad).append((c, labels))
        need = len(calls) if quant == 'all' else int(quant)
        if len(good) >= need:
            ctx.ok(f'{qual}: {src} -> {"|".join(params)} of {len(good)}/{len(calls)} self.{callee}(...) call(s) (required: {quant})')
            return
        for c, labels in bad:
            _positional_guard(ob, labels)
        if quant == 'all':
            for c, labels in bad:
                ctx.violation(mod, qual, f'{src} -> {short(c, 160)}',
                              f'{src} ({why}) does not reach parameter {"/".join(params)} of `{short(c, 120)}`; '
                              f'{len(good)} of {len(calls)} calls receive it, required: all. The argument carries [{_interesting(labels, 6)}]', c)
        else:
            ctx.violation(mod, qual, f'{src} -> {"|".join(params)} of self.{callee}(...) [at least {quant}]',
                          f'{src} ({why}) reaches parameter {"/".join(params)} of only {len(good)} of {len(calls)} self.{callee}(...) calls, '
                          f'at least {quant} required. Calls without it: ' + '; '.join(f'`{short(c, 90)}`' for c, _ in bad), bad[0][0] if bad else ff.fn)
        return
    if kind == 'return':
        k = ob.sink[1]
        rets = ff.return_nodes()
        if not rets:
            raise Undecided(f'{qual}: no return with a value')
        labels = set()
        for node, v in rets:
            if k is not None:
                if not (isinstance(v, ast.Tuple) and k < len(v.elts)):
                    raise Undecided(f'{qual}: `return {short(v)}` is not a tuple display with position {k}')
                v = v.elts[k]
            labels |= ff.origins_at(v, node)
        sink_txt = 'return' + ('' if k is None else f'[{k}]')
        chain = 'the returned value'
    elif kind == 'store':
        chain = ob.sink[1]
        stores = ff.stores(chain)
        if not stores:
            raise Undecided(f'{qual}: no assignment / append to {chain}')
        labels = set()
        for node, v, idx in stores:
            labels |= ff.origins_at(v, node, idx)
        sink_txt = chain
    else:
        raise AnalysisError(f'unknown sink kind {kind}')
    if src in labels:
        ctx.ok(f'{qual}: {src} -> {sink_txt}')
        return
    _positional_guard(ob, labels)
    ctx.violation(mod, qual, f'{src} -> {sink_txt}', f'{src} ({why}) does not reach {chain}; it receives [{_interesting(labels)}]', ff.fn)


def _analyzers(repo: Repo) -> T.Callable[[str, str], T.Tuple[Analyzer, FuncFlow]]:
    cache: T.Dict[T.Tuple[str, str], Analyzer] = {}
    flows: T.Dict[T.Tuple[str, str], T.Tuple[Analyzer, FuncFlow]] = {}

    def get(rel: str, qual: str) -> T.Tuple[Analyzer, FuncFlow]:
        if (rel, qual) in flows:
            return flows[(rel, qual)]
        mod = repo.module(rel)
        fn = mod.func(qual)
        if rel in (NB, BE):
            key = (NB, 'NinjaBackend')
        else:
            key = (rel, qual.rsplit('.', 1)[0] if '.' in qual else '')
        an = cache.get(key)
        if an is None:
            if key[1]:
                dm = repo.module(key[0])
                an = Analyzer(repo, dm, dm.cls(key[1]))
            else:
                an = Analyzer(repo)
            cache[key] = an
        ff = an.flow(mod, qual, fn)
        flows[(rel, qual)] = (an, ff)
        return an, ff
    return get


def _run_table(ctx: RuleCtx, table: T.List[Ob]) -> T.Dict[str, FuncFlow]:
    get = _analyzers(ctx.repo)
    used: T.Dict[str, FuncFlow] = {}
    ans: T.List[Analyzer] = []
    undecided: T.List[str] = []
    for ob in table:
        an, ff = get(ob.rel, ob.qual)
        used[ob.qual] = ff
        if an not in ans:
            ans.append(an)
        an.stack.append(id(ff.fn))
        try:
            check_ob(ctx, an, ff, ob, [o.source for o in table if o.qual == ob.qual and o.rel == ob.rel and o.sink[0] == 'edge'])
        except Undecided as e:
            undecided.append(str(e))      # keep evaluating the other obligations; the rule ends undecided
        finally:
            an.stack.pop()
    summarised = sorted(set().union(*[a.summarised for a in ans]))
    unresolved = sorted(set().union(*[a.unresolved for a in ans]))
    ctx.note(f'callee summaries used ({len(summarised)}): {", ".join(summarised)}')
    if unresolved:
        ctx.note(f'self-calls not resolved (treated as unknown callees, nothing flows through them): {", ".join(unresolved[:12])}')
    if undecided:
        raise Undecided(f'{len(undecided)} obligation(s) undecided: ' + ' || '.join(undecided[:4]))
    return used


def _selfcheck(ctx: RuleCtx) -> None:
    repo = Repo(ctx.repo.root, {SELFCHECK_REL: SELFCHECK_SRC})
    mod = repo.module(SELFCHECK_REL)
    an = Analyzer(repo, mod, mod.cls('B'))
    ff = an.flow(mod, 'B.gen', mod.func('B.gen'))
    for src, want in SELFCHECK:
        got = bool(edge_hits(ff, src, [s for s, w in SELFCHECK if w])[0])
        if got != want:
            raise AnalysisError(f'built-in example: {src} {"reaches" if got else "does not reach"} the registered edge, expected the opposite '
                                '(the flow engine of this pack is broken)')
    ctx.note(f'built-in example: {sum(1 for _, w in SELFCHECK if w)} flows found, {sum(1 for _, w in SELFCHECK if not w)} broken flows rejected')


def r1(ctx: RuleCtx) -> None:
    _selfcheck(ctx)
    used = _run_table(ctx, R1_TABLE)
    ctx.floor('obligations in the frozen table', len(R1_TABLE), 60)
    gt = used['NinjaBackend.generate_target']
    ctx.floor('generate_single_compile calls in generate_target', len(gt.calls_of('generate_single_compile')), 4)
    ctx.floor('generate_pch calls in generate_target', len(gt.calls_of('generate_pch')), 1)
    ctx.floor('generate_link calls in generate_target', len(gt.calls_of('generate_link')), 1)
    nsinks = 0
    for q, ff in used.items():
        if ff.mod.rel == NB and q != 'NinjaBackend.generate_target' and q != 'NinjaBackend.get_fortran_module_deps':
            nsinks += sum(len(g) for g in ff.elem_groups())
    ctx.floor('registered edge sinks in the edge-producing functions', nsinks, 20)


def r2(ctx: RuleCtx) -> None:
    used = _run_table(ctx, R2_TABLE)
    ff = used['NinjaBackend.get_generated_headers']
    mod, qual = ff.mod, 'NinjaBackend.get_generated_headers'
    stores = [(n, v, t) for n, v, t in _cache_stores(ff)]
    ctx.floor('stores into the generated-header cache', len(stores), 1)
    if not stores:
        raise Undecided(f'{qual}: no store into {R2_CACHE}[...]')
    for node, value, target in stores:
        construct = f'{R2_CACHE}[...] = <collected list>'
        labels = ff.origins_at(value, node)
        missing = [s for s in R2_CACHED if s not in labels]
        if isinstance(value, ast.Name):
            after = ff.reach(node)
            later = [d for d in ff.def_nodes(value.id) if d.node in after]
            strong = [d for d in later if d.strong]
            if strong:
                d = strong[0]
                ctx.violation(mod, qual, construct,
                              f'the collected list is re-bound (`{short(ff.cfg.nodes[d.node].expr(), 80)}`) after it was stored in the cache: '
                              'the cache keeps an incomplete list', ff.cfg.nodes[d.node].ast)
                continue
            if later and missing:
                raise Undecided(f'{qual}: the list is stored in the cache before {missing} are added and extended in place afterwards '
                                f'(`{short(ff.cfg.nodes[later[0].node].expr(), 80)}`); completeness then depends on aliasing')
        if missing:
            ctx.violation(mod, qual, construct,
                          f'the list stored in the cache does not yet contain {missing}: a later call for the same target returns an incomplete '
                          f'header list. At the store it carries [{_interesting(labels)}]', target)
        else:
            ctx.ok(f'{qual}: the cached list carries all {len(R2_CACHED)} sources and is not re-bound after the store')
        # same key for store and lookup
        keys = {norm_key(ff, s, n) for n, s in _cache_subscripts(ff)}
        if len(keys) == 1:
            ctx.ok(f'{qual}: cache lookups and store use one key ({sorted(keys)[0]})')
        else:
            ctx.violation(mod, qual, f'{R2_CACHE} keys', f'cache lookups and store use different keys: {sorted(keys)}', target)
    # the miss path returns the very list that was cached
    for node, value, _ in stores:
        rets = [(n, v) for n, v in ff.return_nodes() if n.id in ff.reach(node)]
        ok = bool(rets) and all(isinstance(v, ast.Name) and isinstance(value, ast.Name) and v.id == value.id
                                and ff.IN[n.id].get(v.id) == ff.IN[node.id].get(value.id) for n, v in rets)
        ctx.require(ok, f'{qual}: after the store the function returns the cached list', mod, qual, 'return after cache store',
                    'after storing the list in the cache a different value is returned', ff.fn)


def _cache_subscripts(ff: FuncFlow) -> T.List[T.Tuple[T.Any, ast.Subscript]]:
    out = []
    for n in ff.cfg.nodes:
        e = n.expr()
        if e is None or isinstance(e, (ast.FunctionDef, ast.AsyncFunctionDef, ast.ClassDef)):
            continue
        for s in ast.walk(e):
            if isinstance(s, ast.Subscript) and attr_chain(s.value) == R2_CACHE:
                out.append((n, s))
    return out


def _cache_stores(ff: FuncFlow) -> T.List[T.Tuple[T.Any, ast.AST, ast.AST]]:
    out = []
    for n in ff.cfg.nodes:
        st = n.ast
        if n.kind == 'stmt' and isinstance(st, ast.Assign):
            for t in st.targets:
                if isinstance(t, ast.Subscript) and attr_chain(t.value) == R2_CACHE:
                    out.append((n, st.value, t))
    return out


def norm_key(ff: FuncFlow, s: ast.Subscript, n: T.Any) -> str:
    v = ff.value_at(s.slice, n)
    ids = sorted(v[0])
    return ids[0] if len(ids) == 1 else norm(s.slice)


RULES = [
    Rule('C05.R1', 'edge-population obligations (must-flow of every dependency source into its edge)', r1),
    Rule('C05.R2', 'get_generated_headers: transitive over link_with/link_whole, complete result cached', r2),
]
