"""C05 - the build graph is dependency-complete (DESIGN section 2 C05, data sheet A.7, flow relation B.2)."""
from __future__ import annotations

import ast
import typing as T

from ..core import AnalysisError, Module, Repo, Undecided, attr_chain, norm, short
from ..report import Rule, RuleCtx
from .c05_flow import Analyzer, FuncFlow, bind_args, is_method, label_root

NB = 'mesonbuild/backend/ninjabackend.py'
BE = 'mesonbuild/backend/backends.py'
BUILD = 'mesonbuild/build.py'
DEPBASE = 'mesonbuild/dependencies/base.py'
IOBJ = 'mesonbuild/interpreter/interpreterobjects.py'
DEPACC = 'mesonbuild/scripts/depaccumulate.py'
PROGRAMS = 'mesonbuild/programs.py'
RUSTMOD = 'mesonbuild/modules/rust.py'

EXPLANATION = (
    'Decides a structural necessary condition of C05 (the property itself quantifies over schedules and is NOT decided): '
    'R1 every dependency source the build model offers is routed into the Ninja edge by the function that emits it - a frozen table '
    'of 73 must-flow obligations (function, source expression, sink) over generate_custom_target, generate_run_target, '
    'generate_genlist_for_target, generate_target (header/order deps of every generate_single_compile / generate_pch call, objects '
    'into generate_link), generate_single_compile, generate_pch, generate_link, generate_prelink, generate_shsym, '
    'get_fortran_module_deps and the model side in build.py (CustomTarget/RunTarget/GeneratedList constructors, get_dependencies); '
    'an edge sink is add_dep / add_orderdep / constructor inputs of the one element of the function that is later passed to '
    'add_build or returned (any of the three orders the producer first; primary inputs must be the explicit inputs); flows are '
    'accepted only through the B.2 transfer rules and summaries of resolved repository callees (depth 3, 5 in thorough), never '
    'through an unknown callee, and only through definitions that reach the sink (a list extended after add_dep does not count). '
    'R2 get_generated_headers recurses over link_targets and link_whole_targets, returns what it collected, and the cache '
    'receives the complete list and is not left holding a re-bound one. '
    'R3 InternalDependency.get_partial_dependency forwards every selector keyword of the sibling interface unchanged to the '
    'recursive call over self.ext_deps and returns the recursive results together with its own sources/libraries. '
    'R4 (def-use liveness) in the edge-producing and dependency-collecting functions no accumulation into a list/dict/set created '
    'in the function is left unread: what is collected from dependency sources leaves through a call argument, a build element, '
    'a return or a store (accumulators that may alias foreign objects are not judged). '
    'R5 (chain order) in backends.py, ninjabackend.py and build.py no isinstance arm on a value is reachable only through the '
    'false edge of an earlier isinstance test of a repository base class of all its classes (the subclass arm could never run). '
    'R4 also reports a plain assignment whose value no statement reads (computed after the last use of the name). '
    'R6 (must-pass-through) in eight collector loops over dependency sources (incl. the outputs of preprocess(depends:) targets in '
    'CompileTarget.get_generated_headers) every iteration passes an accumulating statement: no '
    'break/continue/return drops an element (an unfiltered comprehension or a helper that does the looping is followed; a comprehension '
    'with an `if` filter is the loop with `continue` and gets the same verdict; nested generators are read with the outer variable replaced by its iterable). '
    'R1 normal forms (round 13): an element made by a factory method whose every return is a NinjaBuildElement(...) display is the constructor '
    'call with the factory parameters bound; `p.m()` on a parameter annotated with a repository class adds what the one definition of m in that '
    'module returns (self re-rooted at p); stores into self.<attr> made by helper methods of the same object count for STORE rows (arguments '
    'bound); a capture-free `match` (class patterns without sub-patterns, `A() | B()`, literals, `_`, guards) is read as the if/elif chain. '
    'R7 (sibling agreement) a built File made from a target output name is placed in that target\'s get_builddir(), never in its source '
    'sub-directory (.subdir/get_subdir()), which differs under build_subdir: and for build-machine subprojects. '
    'R7 second clause: no registered build element names an input or dependency by the bare File.fname (the path without its directory). '
    'R1 has one universal obligation: every accumulation into the order-dep list returned by __generate_sources_structure derives from the '
    'private-dir root (the consumer waits for the copies, not for their originals). '
    'Absence findings are reported only in a closed world: a value that goes through a callee the analysis did not follow is carried as a '
    'maybe-label and turns the verdict into undecided. '
    'R1 also covers the dyndep writer scripts/depaccumulate.py (providers of linked targets reach the dyndep inputs). '
    'R1 also has a pairing row (must-pass-through): every path that records vs_module_defs also adds it to link_depends; and rows for '
    'the depaccumulate statement (scan results of all transitively linked targets are its inputs). '
    'R1 constructor rows: a target / object set derived from another target receives every partition of its sources - '
    'RustModule.test_common hands sources, generated, structured_sources and objects of the crate under test to the Executable it builds, '
    'BuildTarget.extract_all_objects hands sources, generated and objects to ExtractedObjects (arguments bound to the parameters of the '
    'resolved __init__ / dataclass fields, positionally or by keyword). '
    'R8 (typed must-pass-through) in Generator.process_files, BuildTarget.process_sourcelist and process_objectlist: for each producer class '
    '(BuildTarget / CustomTarget / CustomTargetIndex / GeneratedList) every non-raising path through an iteration whose element is an '
    'instance of that class passes an accumulation of the element into .depends / .generated; isinstance tests on the element (also '
    'named as a local, negated, and/or-combined) are decided from the repository class hierarchy (subclass -> true, builtin or closed-world '
    'disjoint class -> false); an escape that needs an undecided test or passes a helper that mentions the attribute is undecided. '
    'R9 (sibling decision tables) select_sources_to_scan yields a source exactly when add_dependency_scanner_entries_to_element binds '
    'the dyndep file: both bodies are read as path tables over canonical suffix atoms (raw / lower-cased `splitext(..)[1][1:]` == constant, '
    'in a folded constant table; locals replaced by their reaching definition on the path, conditional expressions distributed, a '
    'one-return predicate helper inlined) and compared in every consistent world of the atoms (witnessed by the declared suffixes and '
    'their case variants); any other use of the suffix is undecided. '
    'NOT decided: which language (cpp / fortran) the scanner reports for a suffix, and should_use_dyndeps_for_target agreeing between '
    'the scan target and the compile statements (same call in both, not compared); flatten_command (re-binds its loop variable); '
    'derived targets built in interpreter.py (both_libraries); arithmetic agreement between two functions (the number of unity objects named by _determine_ext_objs vs the '
    'number of unity files generate_unity_files() creates - a value-level ceiling division); results that differ between the first and later calls of a lazily initialising function (handle_cpp_import_std returning '
    'the std-module dependency only when it creates the statement); attribute stores on a proxy object instead of the underlying target '
    '(interpreter/mesonmain.py, needs receiver types); path-sensitive loss (a dependency list reset on one branch but still used on the other, e.g. modules/i18n.py '
    'XgettextProgram.extract - the may-flow merges the branches; likewise depend_files / extra_depends of generate_custom_target added only in the '
    'else branch of `if target.build_always_stale` (seed C05-r7-2): the source still reaches the edge on some path, and requiring it on every path '
    'would fire on a harmless guard such as `if target.extra_depends:`); loops that legitimately mix searching and collecting; --layout=flat '
    '(declared unsupported by meson); that the listed sources suffice for every project; conditions under which a branch runs (the relation is '
    'path-insensitive); the three A.7 rows that are not necessary for C05 (PHONY for build_always_stale - staleness, not order; '
    'guessed external libraries - files outside the build; process_target_dependencies - every target is generated by the main loop anyway).')
ASSUMPTIONS = [
    'NinjaBuildElement.add_dep/add_orderdep/constructor inputs are written to build.ninja as implicit/order-only/explicit inputs (C04)',
    'methods of model objects and library functions (target.get_outputs(), File.rel_to_builddir(), os.path.join ...) return values '
    'derived from receiver and arguments (B.2 x.method(args)); constructors derive from their arguments',
    'guess_external_link_dependencies does not pass internal link arguments through (it skips them explicitly): treated as a cut',
    'mesonbuild.mlog functions return nothing a dependency could derive from; Python builtins other than eval/exec/getattr/open... are pure',
    'the obligation table (A.7, confirmed by reading the pinned tree) lists the sources that matter; a missing row is a gap of the check',
]
TECHNIQUE = ('def-use must-flow: reaching definitions on the CFG (strong/weak defs), access-path origin sets, summaries of resolved '
             'callees (depth 3/5); CFG reachability for registration and cache ordering; sibling/keyword agreement of signatures (R3); '
             'typed must-pass-through on the CFG with isinstance edges pruned by the class hierarchy (R8); path decision tables over '
             'canonical suffix atoms compared in all worlds (R9)')


class Ob(T.NamedTuple):
    rel: str
    qual: str
    source: str
    sink: T.Tuple[T.Any, ...]
    why: str = ''


EDGE = ('edge',)
INPUT = ('edge', 'infiles')   # primary inputs: the rule's command line uses $in, so they must be the explicit inputs


def CALLARG(callee: str, params: T.Tuple[str, ...], quant: T.Union[str, int] = 'all') -> T.Tuple[T.Any, ...]:
    return ('callarg', callee, params, quant)


def RET(k: T.Optional[int] = None) -> T.Tuple[T.Any, ...]:
    return ('return', k)


def YIELD(k: T.Optional[int] = None) -> T.Tuple[T.Any, ...]:
    return ('yield', k)


def RET_ALL(k: T.Optional[int] = None) -> T.Tuple[T.Any, ...]:
    """Universal form: EVERY accumulation into the returned (position k) container carries the source."""
    return ('return-all', k)


def PAIRED(chain_a: str, chain_b: str) -> T.Tuple[T.Any, ...]:
    """Must-pass-through pairing: every path on which the source is stored into chain_a also stores it into chain_b."""
    return ('paired', chain_a, chain_b)


def STORE(chain: str) -> T.Tuple[T.Any, ...]:
    return ('store', chain)


def CTORARG(cls: str, params: T.Tuple[str, ...]) -> T.Tuple[T.Any, ...]:
    """Every construction `Cls(...)` in the function receives the source in one of the named constructor parameters
    (parameters of the resolved __init__, or the fields of a dataclass, bound positionally or by keyword)."""
    return ('ctorarg', cls, params)


HO = ('header_deps', 'order_deps')

# A.7, confirmed by reading the pinned tree and frozen.  Sources are written over the function's parameters
# (never over a local name); `call:self.f()[k]` is position k of the tuple f returns.
R1_TABLE: T.List[Ob] = [
    # custom targets ------------------------------------------------------------------------------------
    Ob(NB, 'NinjaBackend.generate_custom_target', 'call:target.get_dependencies()', EDGE, 'targets used in command:'),
    Ob(NB, 'NinjaBackend.generate_custom_target', 'attr:target.extra_depends', EDGE, 'depends:'),
    Ob(NB, 'NinjaBackend.generate_custom_target', 'attr:target.depend_files', EDGE, 'depend_files: (via get_target_depend_files)'),
    Ob(NB, 'NinjaBackend.generate_custom_target', 'call:self.eval_custom_target_command()[0]', INPUT, 'input: files are the edge inputs'),
    Ob(NB, 'NinjaBackend.generate_custom_target', 'call:target.get_sources()', INPUT, 'input: (through eval_custom_target_command -> get_custom_target_sources)'),
    Ob(NB, 'NinjaBackend.generate_run_target', 'call:target.get_dependencies()', EDGE, 'depends: and targets in command:'),
    Ob(NB, 'NinjaBackend.generate_run_target', 'attr:target.depend_files', EDGE),
    # generators ----------------------------------------------------------------------------------------
    Ob(NB, 'NinjaBackend.generate_genlist_for_target', 'attr:genlist.depend_files', EDGE, 'generator executable / depend_files'),
    Ob(NB, 'NinjaBackend.generate_genlist_for_target', 'attr:genlist.get_generator().depends', EDGE, 'generator(depends:)'),
    Ob(NB, 'NinjaBackend.generate_genlist_for_target', 'attr:genlist.extra_depends', EDGE, 'process(extra_depends:) + built generator exe'),
    Ob(NB, 'NinjaBackend.generate_genlist_for_target', 'call:genlist.get_inputs()', INPUT, 'input files are the edge inputs'),
    Ob(NB, 'NinjaBackend.generate_genlist_for_target', 'attr:genlist.depends', CALLARG('generate_genlist_for_target', ('genlist',), 1),
       'nested generator outputs get their own edges'),
    Ob(BUILD, 'GeneratedList.__post_init__', 'call:self.generator.exe.get_target()', STORE('self.extra_depends'), 'built generator executable'),
    Ob(BUILD, 'GeneratedList.__post_init__', 'call:self.generator.exe.get_target()', STORE('self.depend_files'), 'generator script (File)'),
    Ob(BUILD, 'GeneratedList.__post_init__', 'call:self.generator.exe.get_path()', STORE('self.depend_files'), 'external generator program'),
    # compile edges -------------------------------------------------------------------------------------
    Ob(NB, 'NinjaBackend.generate_target', 'call:self.get_generated_headers()', CALLARG('generate_single_compile', HO, 'all'),
       'generated headers before every compile of the target'),
    Ob(NB, 'NinjaBackend.generate_target', 'call:self.get_target_generated_sources()', CALLARG('generate_single_compile', HO, 'all'),
       'non-source generated files count as headers'),
    Ob(NB, 'NinjaBackend.generate_target', 'call:self.get_generated_headers()', CALLARG('generate_pch', ('header_deps',), 'all')),
    Ob(NB, 'NinjaBackend.generate_target', 'call:self.get_target_generated_sources()', CALLARG('generate_pch', ('header_deps',), 'all')),
    Ob(NB, 'NinjaBackend.generate_target', 'call:self.get_fortran_order_deps()', CALLARG('generate_single_compile', HO, 2),
       'Fortran objects of object-providing targets (.mod files) before own sources / unity files'),
    Ob(NB, 'NinjaBackend.generate_target', 'call:self.generate_single_compile()[0]', CALLARG('generate_single_compile', HO, 2),
       'objects of generated D sources before own sources / unity files'),
    Ob(NB, 'NinjaBackend.generate_target', 'call:self.generate_single_compile()[0]', CALLARG('generate_link', ('obj_list',), 'all'),
       'compiled objects are link inputs'),
    Ob(NB, 'NinjaBackend.generate_target', 'call:self.generate_llvm_ir_compile()[0]', CALLARG('generate_link', ('obj_list',), 'all')),
    Ob(NB, 'NinjaBackend.generate_target', 'call:self.flatten_object_list()[0]', CALLARG('generate_link', ('obj_list',), 'all'), 'objects: / extract_objects()'),
    Ob(NB, 'NinjaBackend.generate_target', 'call:self.get_target_generated_sources()', CALLARG('generate_link', ('obj_list',), 'all'), 'generated objects'),
    Ob(NB, 'NinjaBackend.generate_target', 'call:self.generate_prelink()', CALLARG('generate_link', ('obj_list',), 'all')),
    Ob(NB, 'NinjaBackend.generate_target', 'call:self.generate_pch()', CALLARG('generate_link', ('extra_objs',), 'all'), 'MSVC pch objects'),
    Ob(NB, 'NinjaBackend.generate_single_compile', 'param:header_deps', EDGE),
    Ob(NB, 'NinjaBackend.generate_single_compile', 'param:order_deps', EDGE),
    Ob(NB, 'NinjaBackend.generate_single_compile', 'param:src', INPUT, 'the (possibly generated) source is the edge input'),
    Ob(NB, 'NinjaBackend.generate_single_compile', 'attr:target.pch', EDGE, 'the compiled pch before objects using it'),
    Ob(NB, 'NinjaBackend.generate_single_compile', 'attr:target.depend_files', EDGE),
    Ob(NB, 'NinjaBackend.generate_single_compile', 'call:self.get_fortran_module_deps()', EDGE, 'linked libraries before Fortran compiles (.mod)'),
    Ob(NB, 'NinjaBackend.generate_single_compile', 'call:self.get_fortran_deps()', EDGE, 'module files used by the source'),
    Ob(NB, 'NinjaBackend.generate_single_compile', 'call:self.handle_cpp_import_std()[1]', EDGE, 'import std module file'),
    Ob(NB, 'NinjaBackend.get_fortran_module_deps', 'attr:target.link_targets', RET()),
    Ob(NB, 'NinjaBackend.get_fortran_module_deps', 'attr:target.link_whole_targets', RET()),
    Ob(NB, 'NinjaBackend.generate_pch', 'param:header_deps', EDGE, 'generated headers before the pch compile'),
    Ob(NB, 'NinjaBackend.generate_pch', 'attr:target.pch', INPUT, 'the pch source / header is the input'),
    # link edges ----------------------------------------------------------------------------------------
    Ob(NB, 'NinjaBackend.generate_link', 'call:target.get_dependencies()', EDGE, 'link_with / link_whole (transitively)'),
    Ob(NB, 'NinjaBackend.generate_link', 'attr:target.link_depends', EDGE),
    Ob(NB, 'NinjaBackend.generate_link', 'param:extra_objs', EDGE),
    Ob(NB, 'NinjaBackend.generate_link', 'call:self.get_custom_target_provided_libraries()', EDGE, 'libraries made by custom targets'),
    Ob(NB, 'NinjaBackend.generate_link', 'param:obj_list', INPUT),
    Ob(NB, 'NinjaBackend.generate_link', 'call:self.get_import_std_object()', INPUT),
    Ob(NB, 'NinjaBackend.generate_prelink', 'param:obj_list', INPUT),
    Ob(NB, 'NinjaBackend.generate_shsym', 'call:self.get_target_filename()', INPUT, 'the symbol file is made from the library'),
    Ob(NB, 'NinjaBackend.__generate_sources_structure', 'param:root', RET_ALL(0),
       'structured sources: the consumer is ordered after the copies placed in the private dir, not after their originals'),
    Ob(NB, 'NinjaBackend.generate_dependency_scan_target', 'call:target.get_all_linked_targets()', INPUT,
       'dyndep: scan results of all transitively linked targets (module providers) feed depaccumulate'),
    Ob(NB, 'NinjaBackend.generate_dependency_scan_target', 'call:self.flatten_object_list()[1]', INPUT,
       'dyndep: scan results of Fortran object-providing targets feed depaccumulate'),
    Ob(BUILD, 'BuildTarget.process_vs_module_defs_kw', 'call:kwargs.get()', PAIRED('self.vs_module_defs', 'self.link_depends'),
       'a module definition file given to the linker is an implicit input of the link step'),
    # dyndep edges written at build time (scripts/depaccumulate.py) -----------------------------------------------------
    Ob(DEPACC, 'process_rules', 'param:extra_rules', YIELD(2), 'module providers in linked targets become dyndep inputs'),
    Ob(DEPACC, 'process_rules', 'param:rules', YIELD(2), 'compiled-module-path of modules of the target itself'),
    Ob(DEPACC, 'gen', 'param:extra_rules', CALLARG('process_rules', ('extra_rules',), 'all')),
    # model side: what the backend reads is what the interpreter recorded --------------------------------------
    Ob(BUILD, 'CustomTarget.__init__', 'call:flatten_command()[2]', STORE('self.dependencies')),
    Ob(BUILD, 'CustomTarget.__init__', 'call:flatten_command()[1]', STORE('self.depend_files')),
    Ob(BUILD, 'CustomTarget.__init__', 'param:depend_files', STORE('self.depend_files')),
    Ob(BUILD, 'CustomTarget.__init__', 'param:extra_depends', STORE('self.extra_depends')),
    Ob(BUILD, 'CustomTarget.__init__', 'param:sources', STORE('self.sources')),
    Ob(BUILD, 'CustomTarget.get_dependencies', 'attr:self.dependencies', RET()),
    Ob(BUILD, 'RunTarget.__init__', 'param:dependencies', STORE('self.dependencies')),
    Ob(BUILD, 'RunTarget.__init__', 'call:flatten_command()[2]', STORE('self.dependencies')),
    Ob(BUILD, 'RunTarget.__init__', 'call:flatten_command()[1]', STORE('self.depend_files')),
    Ob(BUILD, 'RunTarget.get_dependencies', 'attr:self.dependencies', RET()),
    Ob(BUILD, 'BuildTarget.get_dependencies', 'attr:self.link_targets', RET()),
    Ob(BUILD, 'BuildTarget.get_dependencies', 'attr:self.link_whole_targets', RET()),
    # a target / object set derived from another target takes over every partition of its sources ----------------------
    Ob(RUSTMOD, 'RustModule.test_common', 'attr:args.sources', CTORARG('Executable', ('sources',)), 'static sources of the crate under test'),
    Ob(RUSTMOD, 'RustModule.test_common', 'attr:args.generated', CTORARG('Executable', ('sources',)),
       'generated sources of the crate under test: their producers are the order-only inputs of the rustc step of the test executable'),
    Ob(RUSTMOD, 'RustModule.test_common', 'attr:args.structured_sources', CTORARG('Executable', ('structured_sources',)),
       'structured sources (may hold generated files) of the crate under test'),
    Ob(RUSTMOD, 'RustModule.test_common', 'attr:args.objects', CTORARG('Executable', ('objects',)), 'objects: of the crate under test'),
    Ob(BUILD, 'BuildTarget.extract_all_objects', 'attr:self.sources', CTORARG('ExtractedObjects', ('srclist',))),
    Ob(BUILD, 'BuildTarget.extract_all_objects', 'attr:self.generated', CTORARG('ExtractedObjects', ('genlist',)), 'objects of generated sources'),
    Ob(BUILD, 'BuildTarget.extract_all_objects', 'attr:self.objects', CTORARG('ExtractedObjects', ('objlist',))),
]

R2_TABLE: T.List[Ob] = [
    Ob(NB, 'NinjaBackend.get_generated_headers', 'attr:target.link_targets', CALLARG('get_generated_headers', ('target',), 1), 'recursion over link_with'),
    Ob(NB, 'NinjaBackend.get_generated_headers', 'attr:target.link_whole_targets', CALLARG('get_generated_headers', ('target',), 1), 'recursion over link_whole'),
    Ob(NB, 'NinjaBackend.get_generated_headers', 'call:self.get_generated_headers()', RET(), 'headers of linked libraries are returned'),
    Ob(NB, 'NinjaBackend.get_generated_headers', 'call:target.get_generated_sources()', RET(), 'own generator outputs'),
    Ob(NB, 'NinjaBackend.get_generated_headers', 'attr:target.vala_header', RET()),
    Ob(NB, 'NinjaBackend.get_generated_headers', 'call:target.get_generated_headers()', RET(), 'CompileTarget (preprocessor) inputs'),
]
R2_CACHE = 'self._generated_header_cache'
R2_CACHED = ['call:self.get_generated_headers()', 'call:target.get_generated_sources()', 'attr:target.vala_header',
             'call:target.get_generated_headers()']

SELFCHECK_REL = 'mesonbuild/_c05_selfcheck.py'
SELFCHECK_SRC = '''
class NinjaBuildElement:
    pass

class B:
    def paths(self, ts):
        out = []
        for t in ts:
            out.append(t.get_filename())
        return out

    def pair(self, t):
        a = t.first()
        b = t.second()
        return a, b

    def gen(self, target):
        deps = self.paths(target.get_dependencies())
        forgotten = self.paths(target.extra_depends)
        late = []
        x, y = self.pair(target)
        elem = NinjaBuildElement(self.all_outputs, 'out', 'RULE', [x])
        other = NinjaBuildElement(self.all_outputs, 'out2', 'RULE', [])
        other.add_dep(target.link_depends)
        elem.add_dep(deps)
        elem.add_orderdep(late)
        late.append(target.too_late)
        deps = []
        deps += target.killed
        self.add_build(elem)
'''
SELFCHECK = [  # (source, expected to reach a registered edge sink)
    ('call:target.get_dependencies()', True),       # through the summary of paths()
    ('call:target.first()', True),                  # positional tuple summary into the constructor inputs
    ('call:target.second()', False),                # the other position is not used
    ('attr:target.extra_depends', False),           # computed, never added
    ('attr:target.link_depends', False),            # added to an element that is never registered
    ('attr:target.too_late', False),                # appended after the list was handed over
    ('attr:target.killed', False),                  # re-bound after the sink
]


# -- evaluation of one obligation ----------------------------------------------------------------------------

def _interesting(labels: T.Iterable[str], limit: int = 8) -> str:
    ls = sorted(l for l in labels if l.split(':', 1)[0] in ('param', 'attr', 'call') and not l.startswith(('attr:os.', 'call:os.')))
    return ', '.join(ls[:limit]) + (f', ... {len(ls) - limit} more' if len(ls) > limit else '')


def _check_source(ff: FuncFlow, ob: Ob) -> None:
    kind, root, _ = label_root(ob.source)
    if root and root != 'self' and root not in ff.params and not (kind == 'call' and ff.mod.has_func(root)):
        raise Undecided(f'{ob.qual}: the obligation source {ob.source} is written over parameter `{root}`, which the function no longer has '
                        f'(parameters: {ff.params}); re-confirm the table')
    if ob.source.endswith(']') and kind == 'call':
        # positional source: the callee must still return a tuple display, otherwise positions are unknown
        path = ob.source.split(':', 1)[1]
        callee = path[:path.index('(')]
        if callee.startswith('self.'):
            r = ff.an.resolve_self(callee[5:])
            tgt = None if r is None else (r[0], r[1], r[2])
        else:
            tgt = (ff.mod, callee, ff.mod.func(callee)) if ff.mod.has_func(callee) else None
        if tgt is None:
            raise Undecided(f'{ob.qual}: callee of {ob.source} cannot be resolved')
        s = ff.an.summary(tgt[0], tgt[1], tgt[2], ff.depth - 1)
        if s is None or s.elements is None:
            raise Undecided(f'{ob.qual}: {callee} does not return a tuple display on every path; positions of {ob.source} are unknown')


def main_element(ff: FuncFlow, sources: T.Sequence[str]) -> T.List[T.Any]:
    """The registered element of the function that receives most of the listed sources: all edge obligations of one
    function are judged on this one element (a helper edge such as FORTRAN_DEP_HACK must not discharge them)."""
    best: T.List[T.Any] = []
    score = -1
    for g in ff.elem_groups():
        labels: T.Set[str] = set()
        for s in g:
            labels |= ff.sink_value(s)[1]
        n = sum(1 for x in sources if x in labels)
        if n > score:
            best, score = g, n
    return best


def edge_hits(ff: FuncFlow, source: str, sources: T.Sequence[str] = (), kinds: T.Sequence[str] = ()) -> T.Tuple[T.List[T.Any], T.List[T.Any], T.List[T.Any]]:
    """(sinks of the main element carrying source, other sinks carrying it, all sinks of the main element)."""
    regs = main_element(ff, list(sources) or [source])
    carry = [s for s in regs if source in ff.sink_value(s)[1]]
    hits = [s for s in carry if not kinds or s.kind in kinds]
    loose = [s for s in carry if kinds and s.kind not in kinds]
    loose += [s for s in ff.sinks() if not any(s is r for r in regs) and source in ff.sink_value(s)[1]]
    return hits, loose, regs


def _closed_world_guard(ff: FuncFlow, ob: Ob, labels: T.Iterable[str], elem_roots: T.Optional[T.Set[int]] = None) -> None:
    """An absence finding ("X does not reach Y") is reported only when the analysis followed X everywhere it goes.
    If X - or the object X is read from - reaches Y through a callee / callable the analysis did not follow (and that
    callee could be where X is read), or the build element is handed to such a callee together with X, the verdict is
    undecided."""
    where = ff.maybe_through(ob.source, labels)
    if where is None and elem_roots:
        where = ff.element_handed_over(elem_roots, ob.source)
    if where is not None:
        raise Undecided(f'{ob.qual}: {ob.source} does not arrive definitely, but it (or the object it is read from) goes through {where}, '
                        'which the analysis does not follow; cannot exclude that the flow happens there')


def _no_call_guard(ff: FuncFlow, ob: Ob, callee: str) -> None:
    """No call of `callee` was found in the function or the helpers that were followed.  Undecided if some callee that was
    not followed could make the call (its source spells the name, or its source is not available)."""
    is_method_callee = ff.an.resolve_self(callee) is not None
    for n, desc, exprs, cfn, pre, recv_self in ff.opaque_uses():
        if is_method_callee and not recv_self:
            continue        # a callee that does not get `self` cannot call a method of it
        if cfn is None or ff.an.mentions(cfn, callee):
            raise Undecided(f'{ob.qual}: no call of {callee}(...) found, but {desc} is not followed and could make it')


def _positional_guard(ob: Ob, labels: T.Iterable[str]) -> None:
    """`call:f()[k]` is required but only the unpositioned `call:f()` arrives: the tuple went through an idiom that
    loses positions - undecided, not violated."""
    src = ob.source
    if src.endswith(']') and src[:src.rindex('[')] in labels:
        raise Undecided(f'{ob.qual}: the result of {src[:src.rindex("[")]} reaches the sink, but not through a positional unpacking '
                        f'the analysis understands; cannot tell whether it is position {src[src.rindex("["):]}')


def ctor_params(repo: Repo, mod: Module, cname: str) -> T.Optional[T.List[str]]:
    """Parameter names of `cname(...)` as used in `mod`: the first __init__ along the MRO (without self), or the annotated
    fields of a @dataclass in declaration order."""
    r = repo.resolve_class(mod, cname)
    if r is None:
        return None
    for m, c in repo.mro(r[0], r[1]):
        for st in c.body:
            if isinstance(st, (ast.FunctionDef, ast.AsyncFunctionDef)) and st.name == '__init__':
                a = st.args
                if a.vararg is not None or a.kwarg is not None:
                    return None
                return [x.arg for x in a.posonlyargs + a.args][1:] + [x.arg for x in a.kwonlyargs]
        if any((attr_chain(d.func if isinstance(d, ast.Call) else d) or '').rsplit('.', 1)[-1] == 'dataclass' for d in c.decorator_list):
            return [st.target.id for st in c.body if isinstance(st, ast.AnnAssign) and isinstance(st.target, ast.Name)
                    and 'ClassVar' not in ast.unparse(st.annotation)]
    return None


def check_ob(ctx: RuleCtx, an: Analyzer, ff: FuncFlow, ob: Ob, siblings: T.Sequence[str] = ()) -> None:
    _check_source(ff, ob)
    mod, qual, src = ff.mod, ob.qual, ob.source
    kind = ob.sink[0]
    why = ob.why or 'dependency source'
    if kind == 'edge':
        kinds = ob.sink[1:]
        hits, loose, regs = edge_hits(ff, src, siblings, kinds)
        if hits:
            ctx.ok(f'{qual}: {src} -> {hits[0].kind} `{hits[0].desc}`' + (f' (+{len(hits) - 1} more)' if len(hits) > 1 else ''))
            return
        if not ff.sinks():
            raise Undecided(f'{qual}: no add_dep/add_orderdep/NinjaBuildElement(...) sink recognised in the function')
        seen_labels: T.Set[str] = set()
        for s in regs:
            seen_labels |= ff.sink_value(s)[1]
            if s.kind == 'infiles':
                # the constructor keeps a reference to the list it is given: a later in-place extension still arrives
                for e in s.exprs:
                    if isinstance(e, ast.Name) and any(src in ff.origins_at(e, n) for n in ff.reg_nodes(s)):
                        raise Undecided(f'{qual}: {src} is added to the input list `{e.id}` only after `{s.desc}`; whether it arrives depends on aliasing')
        _positional_guard(ob, seen_labels)
        roots: T.Set[int] = set()
        for s in regs:
            roots |= set(ff.elem_roots(s))
        if not regs:      # no registered element at all: any element handed to an unfollowed callee counts
            for s in ff.sinks():
                roots |= set(ff.elem_roots(s))
        every: T.Set[str] = set(seen_labels)
        for g in ff.elem_groups():            # the source may go, through an unfollowed callee, to another element than the one chosen
            for s in g:
                every |= ff.sink_value(s)[1]
                roots |= set(ff.elem_roots(s))
        _closed_world_guard(ff, ob, every, roots)
        seen = '; '.join(f'{s.kind} `{s.desc}` carries [{_interesting(ff.sink_value(s)[1], 5)}]' for s in regs[:6])
        extra = ''
        if loose:
            extra = (f' It does reach {loose[0].kind} `{loose[0].desc}`, but that is not '
                     + ('the explicit input list ($in) of the main element.' if kinds and any(loose[0] is r for r in regs) else
                        'the element the other sources of this function go to, or it is never passed to self.add_build(...) / returned.'))
        ctx.violation(mod, qual, f'{src} -> {"inputs" if kinds else "edge"}',
                      f'{src} ({why}) does not reach {"the explicit inputs" if kinds else "add_dep/add_orderdep/inputs"} of the registered build element '
                      f'at the point where the edge is populated.{extra} Registered sinks: {seen or "none"}', ff.fn)
        return
    if kind == 'callarg':
        _, callee, params, quant = ob.sink
        r = an.resolve_self(callee)
        if r is None and ff.mod.has_func(callee):
            r = (ff.mod, callee, ff.mod.func(callee))
        if r is None:
            raise Undecided(f'{qual}: self.{callee} cannot be resolved')
        cfn = r[2]
        have = [a.arg for a in cfn.args.posonlyargs + cfn.args.args + cfn.args.kwonlyargs]  # type: ignore[attr-defined]
        for p in params:
            if p not in have:
                raise Undecided(f'{qual}: {callee} has no parameter `{p}` any more (has {have}); re-confirm the table')
        direct = ff.deep_callargs(callee, params, 0)
        deep = ff.deep_callargs(callee, params)[len(direct):]   # the calls made by summarised helpers / closures of this function
        # helper calls count when they carry the source, or when the function itself makes no such call (the block was extracted)
        calls = direct + ([x for x in deep if src in x[1]] if direct else deep)
        good = [(t, l, c) for t, l, c in calls if src in l]
        bad = [(t, l, c) for t, l, c in calls if src not in l]
        if not calls:
            if quant == 'all':
                raise Undecided(f'{qual}: no call of {callee}(...) found in the function or the helpers it calls')
            _no_call_guard(ff, ob, callee)
            ctx.violation(mod, qual, f'{src} -> self.{callee}(...)',
                          f'{src} ({why}) must be handed to self.{callee}(...) in at least {quant} call(s); neither the function nor any helper it '
                          f'calls calls it, and {src} is handed to nothing the analysis does not follow', ff.fn)
            return
        need = len(calls) if quant == 'all' else int(quant)
        if len(good) >= need:
            ctx.ok(f'{qual}: {src} -> {"|".join(params)} of {len(good)}/{len(calls)} self.{callee}(...) call(s) (required: {quant})')
            return
        for t, labels, c in bad:
            _positional_guard(ob, labels)
            _closed_world_guard(ff, ob, labels)
        if quant == 'all':
            for t, labels, c in bad:
                ctx.violation(mod, qual, f'{src} -> {t}',
                              f'{src} ({why}) does not reach parameter {"/".join(params)} of `{t[:120]}`; '
                              f'{len(good)} of {len(calls)} calls receive it, required: all. The argument carries [{_interesting(labels, 6)}]', c)
        else:
            ctx.violation(mod, qual, f'{src} -> {"|".join(params)} of self.{callee}(...) [at least {quant}]',
                          f'{src} ({why}) reaches parameter {"/".join(params)} of only {len(good)} of {len(calls)} self.{callee}(...) calls, '
                          f'at least {quant} required. Calls without it: ' + '; '.join(f'`{t[:90]}`' for t, _, _ in bad), bad[0][2] if bad else ff.fn)
        return
    if kind == 'ctorarg':
        _, cname, params = ob.sink
        have = ctor_params(an.repo, ff.mod, cname)
        if have is None:
            raise Undecided(f'{qual}: the constructor parameters of {cname} cannot be read')
        for p in params:
            if p not in have:
                raise Undecided(f'{qual}: {cname}(...) has no parameter `{p}` any more (has {have}); re-confirm the table')
        sites = [(n, c) for n in ff.cfg.nodes for c in ff.node_calls(n)
                 if (attr_chain(c.func) or '').rsplit('.', 1)[-1] == cname]
        if not sites:
            raise Undecided(f'{qual}: no construction {cname}(...) in this function (moved into a helper?)')
        for n, c in sites:
            if any(isinstance(a, ast.Starred) for a in c.args) or any(k.arg is None for k in c.keywords) or len(c.args) > len(have):
                raise Undecided(f'{qual}: cannot bind the arguments of `{short(c, 80)}`')
            bound = dict(zip(have, c.args))
            bound.update({k.arg: k.value for k in c.keywords})
            labels: T.Set[str] = set()
            for p in params:
                if p in bound:
                    labels |= ff.origins_at(bound[p], n)
            if src in labels:
                ctx.ok(f'{qual}: {src} -> {"|".join(params)} of {cname}(...)')
                continue
            _positional_guard(ob, labels)
            _closed_world_guard(ff, ob, labels)
            ctx.violation(mod, qual, f'{src} -> {"|".join(params)} of {cname}(...)',
                          f'{src} ({why}) does not reach parameter {"/".join(params)} of the {cname}(...) built here; '
                          f'the argument carries [{_interesting(labels, 6)}]', c)
        return
    if kind == 'paired':
        _, chain_a, chain_b = ob.sink
        a_nodes = [(n, v, i) for n, v, i in ff.stores(chain_a) if src in ff.origins_at(v, n, i)]
        if not a_nodes:
            raise Undecided(f'{qual}: no store of {src} into {chain_a} in this function (moved into a helper?)')
        b_all = ff.stores(chain_b)
        b_nodes = [n for n, v, i in b_all if src in ff.origins_at(v, n, i)]
        if not b_nodes:
            leaf = chain_b.rsplit('.', 1)[-1]
            for n in ff.cfg.nodes:
                for c in ff.node_calls(n):
                    cal = ff._callee(c)
                    if cal is not None and cal[3] is not ff.fn and an.mentions(cal[3], leaf, 2):
                        raise Undecided(f'{qual}: {chain_b} is not written here, but the helper {cal[2]} mentions it')
            for n, v, i in b_all:
                _closed_world_guard(ff, ob, ff.origins_at(v, n, i))
        avoid = b_nodes
        no_exc = lambda a, b, lab: lab != 'exc'   # noqa: E731
        before = ff.cfg.reachable([ff.cfg.entry], avoid, edge_ok=no_exc, include_start=True)
        for n, v, i in a_nodes:
            if any(n.id == b.id for b in b_nodes):
                continue
            after = ff.cfg.reachable([n], avoid, edge_ok=no_exc)
            if n.id in before and ff.cfg.exit_return.id in after:
                ctx.violation(mod, qual, f'{src}: {chain_a} without {chain_b}',
                              f'`{short(n.expr(), 90)}` records {src} in {chain_a} ({why}) on a path that never adds it to {chain_b}: '
                              f'the file is used by the step but is not a declared input of it', n.ast)
                return
        ctx.ok(f'{qual}: every path that stores {src} into {chain_a} ({len(a_nodes)} store(s)) also adds it to {chain_b}')
        return
    if kind == 'return-all':
        k = ob.sink[1]
        rets = ff.return_nodes()
        if not rets:
            raise Undecided(f'{qual}: no return with a value')
        checked = 0
        for node, v in rets:
            if k is not None:
                if not (isinstance(v, ast.Tuple) and k < len(v.elts)):
                    raise Undecided(f'{qual}: `return {short(v)}` is not a tuple display with position {k}')
                v = v.elts[k]
            if not isinstance(v, ast.Name):
                raise Undecided(f'{qual}: the returned value `{short(v)}` is not a local container')
            for di in sorted(ff.IN[node.id].get(v.id, frozenset())):
                d = ff.defs[di]
                if d.param or d.value is None:
                    raise Undecided(f'{qual}: `{v.id}` is not built in this function')
                dn = ff.cfg.nodes[d.node]
                labels = ff.origins_at(d.value, dn, d.index)
                if not any(l.split(':', 1)[0].lstrip('?0123456789|') in ('param', 'attr', 'call') for l in labels):
                    continue          # an empty / constant initialisation
                checked += 1
                if src in labels:
                    continue
                _closed_world_guard(ff, ob, labels)
                ctx.violation(mod, qual, f'{src} -> every element of return{"" if k is None else f"[{k}]"}',
                              f'`{short(dn.expr(), 90)}` adds to the returned `{v.id}` something that does not derive from {src} ({why}); '
                              f'it carries [{_interesting(labels, 6)}]', dn.ast)
                return
        if not checked:
            raise Undecided(f'{qual}: nothing is accumulated into the returned container')
        ctx.ok(f'{qual}: all {checked} accumulation(s) into return{"" if k is None else f"[{k}]"} derive from {src}')
        return
    if kind == 'return':
        k = ob.sink[1]
        rets = ff.return_nodes()
        if not rets:
            raise Undecided(f'{qual}: no return with a value')
        labels = set()
        for node, v in rets:
            if k is not None:
                if not (isinstance(v, ast.Tuple) and k < len(v.elts)):
                    raise Undecided(f'{qual}: `return {short(v)}` is not a tuple display with position {k}')
                v = v.elts[k]
            labels |= ff.origins_at(v, node)
        sink_txt = 'return' + ('' if k is None else f'[{k}]')
        chain = 'the returned value'
    elif kind == 'yield':
        k = ob.sink[1]
        ys = ff.yield_nodes()
        if not ys:
            raise Undecided(f'{qual}: no yield with a value')
        labels = set()
        for node, v in ys:
            if k is not None:
                if not (isinstance(v, ast.Tuple) and k < len(v.elts)):
                    raise Undecided(f'{qual}: `yield {short(v)}` is not a tuple display with position {k}')
                v = v.elts[k]
            labels |= ff.origins_at(v, node)
        sink_txt = 'yield' + ('' if k is None else f'[{k}]')
        chain = 'the yielded value'
    elif kind == 'store':
        chain = ob.sink[1]
        stores = ff.stores(chain)
        deep = ff.deep_store_labels(chain)       # stores made by helper methods of the same object
        if not stores and not deep:
            raise Undecided(f'{qual}: no assignment / append to {chain}')
        labels = set(deep)
        for node, v, idx in stores:
            labels |= ff.origins_at(v, node, idx)
        sink_txt = chain
    else:
        raise AnalysisError(f'unknown sink kind {kind}')
    if src in labels:
        ctx.ok(f'{qual}: {src} -> {sink_txt}')
        return
    _positional_guard(ob, labels)
    _closed_world_guard(ff, ob, labels)
    ctx.violation(mod, qual, f'{src} -> {sink_txt}', f'{src} ({why}) does not reach {chain}; it receives [{_interesting(labels)}]', ff.fn)


_SHARED: T.Dict[T.Tuple[int, int], T.Any] = {}


def _analyzers(repo: Repo, depth: int) -> T.Callable[[str, str], T.Tuple[Analyzer, FuncFlow]]:
    """One set of analyzers (flows, summaries) per repository object and depth, shared by the rules of a run."""
    key = (id(repo), depth)
    if key in _SHARED and _SHARED[key][0] is repo:
        return _SHARED[key][1]
    _SHARED.clear()
    get = _analyzers_new(repo, depth)
    _SHARED[key] = (repo, get)
    return get


def _analyzers_new(repo: Repo, depth: int) -> T.Callable[[str, str], T.Tuple[Analyzer, FuncFlow]]:
    cache: T.Dict[T.Tuple[str, str], Analyzer] = {}
    flows: T.Dict[T.Tuple[str, str], T.Tuple[Analyzer, FuncFlow]] = {}

    def get(rel: str, qual: str) -> T.Tuple[Analyzer, FuncFlow]:
        if (rel, qual) in flows:
            return flows[(rel, qual)]
        mod = repo.module(rel)
        fn = mod.func(qual)
        if rel in (NB, BE):
            key = (NB, 'NinjaBackend')
        else:
            key = (rel, qual.rsplit('.', 1)[0] if '.' in qual else '')
        an = cache.get(key)
        if an is None:
            if key[1]:
                dm = repo.module(key[0])
                an = Analyzer(repo, dm, dm.cls(key[1]), depth)
            else:
                an = Analyzer(repo, depth=depth)
            cache[key] = an
        ff = an.flow(mod, qual, fn)
        flows[(rel, qual)] = (an, ff)
        return an, ff
    return get


def _run_table(ctx: RuleCtx, table: T.List[Ob]) -> T.Dict[str, FuncFlow]:
    get = _analyzers(ctx.repo, 5 if ctx.thorough else 3)   # DESIGN E4: summaries to depth 3, 5 in the thorough tier
    used: T.Dict[str, FuncFlow] = {}
    ans: T.List[Analyzer] = []
    undecided: T.List[str] = []
    for ob in table:
        an, ff = get(ob.rel, ob.qual)
        used[ob.qual] = ff
        if an not in ans:
            ans.append(an)
        an.stack.append(id(ff.fn))
        try:
            check_ob(ctx, an, ff, ob, [o.source for o in table if o.qual == ob.qual and o.rel == ob.rel and o.sink[0] == 'edge'])
        except Undecided as e:
            undecided.append(str(e))      # keep evaluating the other obligations; the rule ends undecided
        finally:
            an.stack.pop()
    summarised = sorted(set().union(*[a.summarised for a in ans]))
    unresolved = sorted(set().union(*[a.unresolved for a in ans]))
    ctx.note(f'callee summaries used ({len(summarised)}): {", ".join(summarised)}')
    if unresolved:
        ctx.note(f'self-calls not resolved (treated as unknown callees, nothing flows through them): {", ".join(unresolved[:12])}')
    if undecided:
        raise Undecided(f'{len(undecided)} obligation(s) undecided: ' + ' || '.join(undecided[:4]))
    return used


def _selfcheck(ctx: RuleCtx) -> None:
    repo = Repo(ctx.repo.root, {SELFCHECK_REL: SELFCHECK_SRC})
    mod = repo.module(SELFCHECK_REL)
    an = Analyzer(repo, mod, mod.cls('B'))
    ff = an.flow(mod, 'B.gen', mod.func('B.gen'))
    for src, want in SELFCHECK:
        got = bool(edge_hits(ff, src, [s for s, w in SELFCHECK if w])[0])
        if got != want:
            raise AnalysisError(f'built-in example: {src} {"reaches" if got else "does not reach"} the registered edge, expected the opposite '
                                '(the flow engine of this pack is broken)')
    ctx.note(f'built-in example: {sum(1 for _, w in SELFCHECK if w)} flows found, {sum(1 for _, w in SELFCHECK if not w)} broken flows rejected')


def r1(ctx: RuleCtx) -> None:
    _selfcheck(ctx)
    used = _run_table(ctx, R1_TABLE)
    ctx.floor('obligations in the frozen table', len(R1_TABLE), 30)
    gt = used['NinjaBackend.generate_target']
    ctx.floor('generate_single_compile calls reached from generate_target', len(gt.deep_callargs('generate_single_compile', ('header_deps',))), 1)
    ctx.floor('generate_pch calls reached from generate_target', len(gt.deep_callargs('generate_pch', ('header_deps',))), 1)
    ctx.floor('generate_link calls reached from generate_target', len(gt.deep_callargs('generate_link', ('obj_list',))), 1)
    nsinks = 0
    for q, ff in used.items():
        if ff.mod.rel == NB and q != 'NinjaBackend.generate_target' and q != 'NinjaBackend.get_fortran_module_deps':
            nsinks += sum(len(g) for g in ff.elem_groups())
    ctx.floor('registered edge sinks in the edge-producing functions', nsinks, 8)


def cache_verdicts(ff: FuncFlow, cache: str, required: T.Sequence[str]) -> T.List[T.Tuple[str, str, str, T.Any]]:
    """K1 part of R2: (verdict ok|violation|undecided, construct, message, node) for every store into `cache[...]`."""
    out: T.List[T.Tuple[str, str, str, T.Any]] = []
    qual = ff.qual
    stores = _cache_stores(ff, cache)
    construct = f'{cache}[...] = <collected list>'
    for node, value, target in stores:
        labels = ff.origins_at(value, node)
        missing = [s for s in required if s not in labels]
        if isinstance(value, ast.Name):
            after = ff.reach(node)
            later = [d for d in ff.def_nodes(value.id) if d.node in after]
            strong = [d for d in later if d.strong]
            if strong:
                d = strong[0]
                out.append(('violation', construct, f'the collected list is re-bound (`{short(ff.cfg.nodes[d.node].expr(), 80)}`) after it was stored '
                            'in the cache: the cache keeps the old, incomplete list', ff.cfg.nodes[d.node].ast))
                continue
            if later and missing:
                out.append(('undecided', construct, f'{qual}: the list is stored in the cache before {missing} are added and extended in place afterwards '
                            f'(`{short(ff.cfg.nodes[later[0].node].expr(), 80)}`); completeness then depends on aliasing', target))
                continue
        through = [w for w in (ff.maybe_through(m_, labels) for m_ in missing) if w]
        if missing and through:
            out.append(('undecided', construct, f'{qual}: {missing} reach the cached value, if at all, through {through[0]}, which is not followed', target))
        elif missing:
            out.append(('violation', construct, f'the list stored in the cache does not yet contain {missing}: a later call for the same target returns '
                        f'an incomplete header list. At the store it carries [{_interesting(labels)}]', target))
        else:
            out.append(('ok', construct, f'{qual}: the cached value carries all {len(required)} sources and is not re-bound after the store', target))
        # what the miss path returns after the store is complete as well
        rets = [(n, v) for n, v in ff.return_nodes() if n.id in ff.reach(node) or n.id == node.id]
        if not rets:
            out.append(('undecided', 'return after cache store', f'{qual}: no return after the cache store', target))
        for n, v in rets:
            rl = ff.origins_at(v, n)
            miss = [s for s in required if s not in rl]
            if miss and any(ff.maybe_through(m_, rl) for m_ in miss):
                out.append(('undecided', 'return after cache store', f'{qual}: {miss} reach `return {short(v, 40)}` only through a callee that is not followed', n.ast))
            elif miss:
                out.append(('violation', 'return after cache store', f'`return {short(v, 60)}` after the cache store lacks {miss}', n.ast))
            else:
                out.append(('ok', 'return after cache store', f'{qual}: `return {short(v, 40)}` after the store carries all {len(required)} sources', n.ast))
    if stores:
        keys = {norm_key(ff, s, n) for n, s in _cache_subscripts(ff, cache)}
        if len(keys) == 1:
            out.append(('ok', f'{cache} keys', f'{qual}: cache lookups and store use one key ({sorted(keys)[0]})', stores[0][2]))
        else:
            out.append(('violation', f'{cache} keys', f'cache lookups and store use different keys: {sorted(keys)}', stores[0][2]))
    return out


R2_SELFCHECK_SRC = '''
class B:
    def good(self, t):
        if t.id in self._cache:
            return self._cache[t.id]
        got = []
        got += t.own()
        for d in t.linked:
            got += self.good(d)
        self._cache[t.id] = got
        return got

    def early(self, t):
        got = []
        got += t.own()
        self._cache[t.id] = got
        for d in t.linked:
            got = got + self.early(d)
        return got

    def partial(self, t):
        got = list(t.own())
        self._cache[t.id] = list(got)
        for d in t.linked:
            got += self.partial(d)
        return got
'''


def _r2_selfcheck(ctx: RuleCtx) -> None:
    repo = Repo(ctx.repo.root, {SELFCHECK_REL: R2_SELFCHECK_SRC})
    mod = repo.module(SELFCHECK_REL)
    an = Analyzer(repo, mod, mod.cls('B'))
    want = {'good': set(), 'early': {'violation'}, 'partial': {'violation'}}
    for name, bad in want.items():
        fn = mod.func(f'B.{name}')
        ff = an.flow(mod, f'B.{name}', fn)
        an.stack.append(id(fn))
        try:
            vs = cache_verdicts(ff, 'self._cache', ['call:t.own()', f'call:self.{name}()'])
        finally:
            an.stack.pop()
        got = {v[0] for v in vs if v[1].startswith('self._cache[...]')} - {'ok'}
        if got != bad or not vs:
            raise AnalysisError(f'built-in example B.{name}: cache verdicts {sorted(v[0] + ":" + v[2][:60] for v in vs)}, expected {sorted(bad) or ["ok"]}')
    ctx.note('built-in example: complete cache accepted, cache-then-rebind and cache-a-partial-copy rejected')


def r2(ctx: RuleCtx) -> None:
    _r2_selfcheck(ctx)
    used = _run_table(ctx, R2_TABLE)
    ff = used['NinjaBackend.get_generated_headers']
    mod, qual = ff.mod, 'NinjaBackend.get_generated_headers'
    ff.an.stack.append(id(ff.fn))
    try:
        vs = cache_verdicts(ff, R2_CACHE, R2_CACHED)
    finally:
        ff.an.stack.pop()
    if not _cache_stores(ff, R2_CACHE):
        from ..core import decorator_names
        if any('cache' in d for d in decorator_names(ff.fn)):
            ctx.ok(f'{qual}: memoised by a decorator ({decorator_names(ff.fn)}); no hand-written cache to check')
            return
        raise Undecided(f'{qual}: no store into {R2_CACHE}[...] in this function and no caching decorator; the memoisation moved somewhere the rule does not look')
    und = [v for v in vs if v[0] == 'undecided']
    for verdict, construct, msg, node in vs:
        if verdict == 'ok':
            ctx.ok(msg)
        elif verdict == 'violation':
            ctx.violation(mod, qual, construct, msg, node)
    if und:
        raise Undecided(und[0][2])


def _cache_subscripts(ff: FuncFlow, cache: str) -> T.List[T.Tuple[T.Any, ast.Subscript]]:
    out = []
    for n in ff.cfg.nodes:
        e = n.expr()
        if e is None or isinstance(e, (ast.FunctionDef, ast.AsyncFunctionDef, ast.ClassDef)):
            continue
        for s in ast.walk(e):
            if isinstance(s, ast.Subscript) and attr_chain(s.value) == cache:
                out.append((n, s))
            elif isinstance(s, ast.Call) and isinstance(s.func, ast.Attribute) and s.func.attr in ('setdefault', 'get', 'pop') \
                    and attr_chain(s.func.value) == cache and s.args:
                out.append((n, ast.copy_location(ast.Subscript(value=s.func.value, slice=s.args[0], ctx=ast.Load()), s)))
    return out


def _cache_stores(ff: FuncFlow, cache: str) -> T.List[T.Tuple[T.Any, ast.AST, ast.AST]]:
    """`cache[k] = v` and `cache.setdefault(k, v)`: (node, stored value, key-bearing construct)."""
    out = []
    for n in ff.cfg.nodes:
        st = n.ast
        if n.kind == 'stmt' and isinstance(st, ast.Assign):
            for t in st.targets:
                if isinstance(t, ast.Subscript) and attr_chain(t.value) == cache:
                    out.append((n, st.value, t))
        for c in ff.node_calls(n):
            if isinstance(c.func, ast.Attribute) and c.func.attr == 'setdefault' and attr_chain(c.func.value) == cache and len(c.args) == 2:
                out.append((n, c.args[1], ast.copy_location(ast.Subscript(value=c.func.value, slice=c.args[0], ctx=ast.Load()), c)))
    return out


def norm_key(ff: FuncFlow, s: ast.Subscript, n: T.Any) -> str:
    v = ff.value_at(s.slice, n)
    ids = sorted(v[0])
    return ids[0] if len(ids) == 1 else norm(s.slice)


# -- R3: partial_dependency keeps the selectors through nested dependencies (K8) ---------------------------------

R3_METHOD = 'get_partial_dependency'
R3_TABLE: T.List[Ob] = [
    Ob(DEPBASE, 'InternalDependency.get_partial_dependency', 'call:self.ext_deps.get_partial_dependency()', RET(), 'partial views of nested dependencies'),
    Ob(DEPBASE, 'InternalDependency.get_partial_dependency', 'attr:self.sources', RET(), 'declare_dependency(sources:) - generated headers'),
    Ob(DEPBASE, 'InternalDependency.get_partial_dependency', 'attr:self.libraries', RET(), 'link_with'),
    Ob(DEPBASE, 'InternalDependency.get_partial_dependency', 'attr:self.whole_libraries', RET(), 'link_whole'),
]


def _kwonly(fn: ast.AST) -> T.List[str]:
    return [a.arg for a in fn.args.kwonlyargs]  # type: ignore[attr-defined]


def _comp_env(ff: FuncFlow, node: T.Any, call: ast.Call) -> T.Dict[str, T.Any]:
    """Values of comprehension variables in scope at `call` (each inherits from its iterable)."""
    env: T.Dict[str, T.Any] = {}
    root = node.expr()

    def rec(e: ast.AST, scope: T.Dict[str, T.Any]) -> T.Optional[T.Dict[str, T.Any]]:
        if e is call:
            return scope
        if isinstance(e, (ast.ListComp, ast.SetComp, ast.GeneratorExp, ast.DictComp)):
            sc = dict(scope)
            for g in e.generators:
                for x in ast.walk(g.iter):
                    if isinstance(x, ast.Name) and x.id not in sc:
                        ff.value_at(x, node)        # solve what the iterable reads outside the comprehension
                v = ff._ev(g.iter, node, sc, ff._look_eval)
                for t in ast.walk(g.target):
                    if isinstance(t, ast.Name):
                        sc[t.id] = v
            scope = sc
        for ch in ast.iter_child_nodes(e):
            r = rec(ch, scope)
            if r is not None:
                return r
        return None
    return rec(root, env) or {} if root is not None else {}


def r3(ctx: RuleCtx) -> None:
    mod = ctx.repo.module(DEPBASE)
    qual = f'InternalDependency.{R3_METHOD}'
    fn = mod.func(qual)
    # the sibling interface: keyword-only selectors accepted by every implementation in this module
    sibs = {q: f for q, f in mod.funcs().items() if q.endswith('.' + R3_METHOD) and q.count('.') == 1}
    ctx.floor(f'{R3_METHOD} implementations in {DEPBASE}', len(sibs), 2)
    iface = [k for k in _kwonly(fn) if all(k in _kwonly(f) for f in sibs.values())]
    own_only = [k for k in _kwonly(fn) if k not in iface]
    ctx.floor('selector keywords of the sibling interface', len(iface), 1)
    if own_only:
        ctx.note(f'{qual} accepts {own_only} which the sibling implementations do not: it cannot be forwarded to a generic '
                 'Dependency in ext_deps (TypeError) and the DSL method never passes it; not required')
    # the DSL hands its kwargs over with **kwargs: every declared kwarg must be accepted by every sibling
    im = ctx.repo.module(IOBJ)
    tab = im.assign_value('_PARTIAL_DEP_KWARGS')
    if not isinstance(tab, (ast.List, ast.Tuple)) or not all(isinstance(e, ast.Call) and e.args and isinstance(e.args[0], ast.Constant) for e in tab.elts):
        raise Undecided('_PARTIAL_DEP_KWARGS is not a display of KwargInfo("name", ...) calls')
    dsl = [e.args[0].value for e in tab.elts]  # type: ignore[attr-defined]
    for q, f in sorted(sibs.items()):
        miss = [k for k in dsl if k not in _kwonly(f)]
        ctx.require(not miss, f'{q} accepts every partial_dependency() keyword of the DSL {dsl}', mod, q, f'{R3_METHOD} signature',
                    f'{q} does not accept {miss}, which dependency.partial_dependency() passes with **kwargs', f)
    # forwarding in the recursion over self.ext_deps (also when the loop lives in a helper method of the class)
    an = Analyzer(ctx.repo, mod, mod.cls('InternalDependency'), 5 if ctx.thorough else 3)
    ff = an.flow(mod, qual, fn)

    def rec_calls_of(f2: FuncFlow, depth: int) -> T.List[T.Tuple[ast.Call, T.Dict[str, T.Tuple[T.FrozenSet[str], ast.AST]]]]:
        """Recursive calls over self.ext_deps made by f2 or by helpers it calls: keyword -> (what it *is*, in f2's terms, expression)."""
        found = []
        for node in f2.cfg.nodes:
            for c in f2.node_calls(node):
                if isinstance(c.func, ast.Attribute) and c.func.attr == R3_METHOD:
                    env = _comp_env(f2, node, c)
                    recv = c.func.value
                    labels = env[recv.id][1] if isinstance(recv, ast.Name) and recv.id in env else f2.origins_at(recv, node)
                    if 'attr:self.ext_deps' not in labels:
                        continue
                    if any(k.arg is None for k in c.keywords) or c.args:
                        raise Undecided(f'{qual}: `{short(c)}` forwards with * / ** or positionally')
                    found.append((c, {k.arg: (f2.value_at(k.value, node)[0], k.value) for k in c.keywords}))
                elif depth > 0:
                    cal = f2._callee(c)
                    if cal is None or not an.mentions(cal[3], R3_METHOD, 1) or cal[3] is f2.fn:
                        continue
                    summ = an.summary(cal[1], cal[2], cal[3], f2.depth - 1)
                    if summ is None or summ.ff is None:
                        raise Undecided(f'{qual}: helper {cal[2]} mentions {R3_METHOD} but could not be analysed')
                    b = bind_args(cal[3], c, cal[4])
                    if b is None:
                        raise Undecided(f'{qual}: cannot bind arguments of `{short(c)}`')
                    for c2, kws in rec_calls_of(summ.ff, depth - 1):
                        mapped = {}
                        for k, (ids, expr) in kws.items():
                            out_ids: T.Set[str] = set()
                            for i in ids:
                                if i in b:
                                    out_ids |= f2.value_at(b[i], node)[0]
                                else:
                                    out_ids.add(f'<{cal[2]}>.{i}')
                            mapped[k] = (frozenset(out_ids), expr)
                        found.append((c2, mapped))
        return found
    rec_calls = rec_calls_of(ff, 2)
    if not rec_calls:
        raise Undecided(f'{qual}: no {R3_METHOD}(...) call over self.ext_deps found in the function or its helper methods')
    for c, given in rec_calls:
        for k in iface:
            if k not in given:
                ctx.violation(mod, qual, f'{R3_METHOD}(... {k} ...) over self.ext_deps',
                              f'the recursive call over self.ext_deps does not forward `{k}`: nested dependencies fall back to {k}=False and '
                              f'lose their {k} in the partial dependency (forwarded: {sorted(given)})', c)
                continue
            ids, expr = given[k]
            if ids == frozenset([k]):
                ctx.ok(f'{qual}: recursion over ext_deps forwards {k}={k}')
            elif len(ids) == 1 and next(iter(ids)) in _kwonly(fn):
                ctx.violation(mod, qual, f'{R3_METHOD}(... {k} ...) over self.ext_deps',
                              f'the recursive call passes {k}={short(expr)}, i.e. selector `{next(iter(ids))}` instead of `{k}`', c)
            elif isinstance(expr, ast.Constant):
                ctx.violation(mod, qual, f'{R3_METHOD}(... {k} ...) over self.ext_deps',
                              f'the recursive call passes the constant {k}={short(expr)} instead of the selector it received', c)
            else:
                raise Undecided(f'{qual}: cannot tell what `{k}={short(expr)}` forwards')
    _run_table(ctx, R3_TABLE)


# -- R4: nothing that was collected is dropped (def-use liveness, K3) ------------------------------------------------

R4_SELFCHECK_SRC = '''
class B:
    def gen(self, target):
        used = []
        dropped = []
        relay = []
        for s in target.generated():
            used.append(s)
            dropped.append(s)
            relay.append(s)
        unread_copy = list(relay)
        name = target.dep_name()
        self.compile(target, used, name)
        name = self.prefix(name)
'''


def _dead_report(ff: FuncFlow) -> T.List[T.Tuple[T.Any, str, str]]:
    """(definition, accumulator name, what is accumulated) for dead accumulations of values that derive from inputs."""
    out = []
    for d in ff.dead_accumulations() + ff.dead_defs():
        node = ff.cfg.nodes[d.node]
        labels = ff.origins_at(d.value, node) if d.value is not None else frozenset()
        if ff._consumers.get(d.id):
            continue      # read, but only into definitions that are dead themselves: those are reported (the root cause)
        if any(l.split(':', 1)[0] in ('param', 'attr', 'call') for l in labels):
            out.append((d, d.name, _interesting(labels, 5)))
    return out


def r4(ctx: RuleCtx) -> None:
    repo = Repo(ctx.repo.root, {SELFCHECK_REL: R4_SELFCHECK_SRC})
    m = repo.module(SELFCHECK_REL)
    ex = Analyzer(repo, m, m.cls('B')).flow(m, 'B.gen', m.func('B.gen'))
    got = sorted({name for _, name, _ in _dead_report(ex)})
    if got != ['dropped', 'name', 'unread_copy']:
        raise AnalysisError(f'built-in example: dead definitions {got}, expected [dropped, name, unread_copy]')
    ctx.note('built-in example: `dropped` (never read), the unread copy of `relay` and `name = ...` after its last use found dead, `used` alive')
    get = _analyzers(ctx.repo, 5 if ctx.thorough else 3)
    quals: T.List[T.Tuple[str, str]] = []
    for ob in R1_TABLE + R2_TABLE:
        if ob.rel in (NB, BE, DEPACC) and (ob.rel, ob.qual) not in quals:
            quals.append((ob.rel, ob.qual))
    for rel, q in [(BE, 'Backend.get_paths_for_dep_outputs'), (BE, 'Backend.get_target_depend_files'), (BE, 'Backend.get_custom_target_sources'),
                   (BE, 'Backend.eval_custom_target_command'), (NB, 'NinjaBackend.add_header_deps'), (NB, 'NinjaBackend.order_deps_to_strings'),
                   (NB, 'NinjaBackend.generate_dependency_scan_target'), (NB, 'NinjaBackend.generate_generator_list_rules')]:
        if (rel, q) not in quals:
            quals.append((rel, q))
    if ctx.thorough:
        for rel in (NB, BE):
            for q in ctx.repo.module(rel).funcs():
                if q.count('.') == 1 and (rel, q) not in quals:
                    quals.append((rel, q))
    nacc = 0
    for rel, q in quals:
        an, ff = get(rel, q)
        an.stack.append(id(ff.fn))
        try:
            dead = _dead_report(ff)
        finally:
            an.stack.pop()
        acc = sorted({d.name for d in ff.defs if not d.strong and not d.param and d.name not in ff.params})
        nacc += len(acc)
        if not dead:
            ctx.ok(f'{q}: every accumulation into {acc or "(no local accumulator)"} is read by something that leaves the function', nontrivial=bool(acc))
        seen: T.Set[str] = set()
        for d, name, what in dead:
            node = ff.cfg.nodes[d.node]
            key = f'{name} <- {short(d.value, 80)}'
            if key in seen:
                continue
            seen.add(key)
            if d.strong:
                ctx.violation(ff.mod, q, f'dead assignment {key}',
                              f'`{short(node.expr(), 90)}` computes `{name}` from [{what}], but no statement reads this value afterwards (it is '
                              f'assigned after the last use of `{name}` or overwritten unread): the computed value reaches no build statement', node.ast)
                continue
            ctx.violation(ff.mod, q, f'dead accumulation {key}',
                          f'`{short(node.expr(), 90)}` collects [{what}] into `{name}`, but nothing reads `{name}` afterwards (no call argument, '
                          f'no build element, no return): what was collected never reaches a build statement', node.ast)
    ctx.floor('local accumulators examined', nacc, 5)


# -- R5: isinstance arms are not shadowed by an earlier base-class test (K7) -----------------------------------------

R5_SELFCHECK_SRC = '''
class Base: pass
class Sub(Base): pass
class Other: pass

def good(xs):
    out = []
    for i in xs:
        if isinstance(i, Sub):
            i = i.inner
        if isinstance(i, Base):
            continue
        out.append(i)
    return out

def bad(xs):
    out = []
    for i in xs:
        if isinstance(i, Base):
            continue
        if isinstance(i, Sub):
            i = i.inner
        out.append(i)
    return out

def bad_elif(x):
    if isinstance(x, (Base, Other)):
        return 1
    elif isinstance(x, Sub) and x.ok:
        return 2
    return 3
'''


def _isinstance_tests(ff: FuncFlow) -> T.List[T.Tuple[T.Any, str, T.List[ast.AST], bool, bool, ast.Call]]:
    """(test node, subject name, class expressions, polarity, exact, call): `exact` = the whole test is this isinstance
    call (possibly negated), so both outgoing edges carry a fact; otherwise it is a conjunct of an `and`."""
    out = []
    for n in ff.cfg.nodes:
        if n.kind != 'test':
            continue
        t = n.ast.test
        pol = True
        if isinstance(t, ast.UnaryOp) and isinstance(t.op, ast.Not):
            t, pol = t.operand, False
        if isinstance(t, ast.BoolOp) and isinstance(t.op, ast.And) and pol:
            cands = [(v, False) for v in t.values]
        else:
            cands = [(t, True)]
        for c, exact in cands:
            if isinstance(c, ast.Call) and isinstance(c.func, ast.Name) and c.func.id == 'isinstance' and len(c.args) == 2 \
                    and isinstance(c.args[0], ast.Name) and not c.keywords:
                cl = c.args[1]
                out.append((n, c.args[0].id, list(cl.elts) if isinstance(cl, ast.Tuple) else [cl], pol, exact, c))
    return out


def shadowed_arms(repo: Repo, ff: FuncFlow) -> T.Tuple[int, T.List[T.Tuple[T.Any, T.Any, ast.Call, ast.Call]]]:
    """Pairs (T1, T2): T2 = `isinstance(x, Sub...)` can only be reached through the edge of T1 = `isinstance(x, Base...)`
    on which x is NOT a Base, x has the same reaching definitions at both, and every class of T2 is a repository
    subclass of a class of T1: the arm of T2 can never run."""
    ts = _isinstance_tests(ff)
    mod = ff.mod
    cache: T.Dict[str, T.Any] = {}

    def res(e: ast.AST) -> T.Any:
        ch = attr_chain(e)
        if ch is None:
            return None
        if ch not in cache:
            cache[ch] = repo.resolve_class(mod, ch)
        return cache[ch]
    all_reach = ff.cfg.reachable([ff.cfg.entry])
    out = []
    pairs = 0
    for n1, x1, c1, p1, e1, call1 in ts:
        if not e1:
            continue
        cut = None
        for n2, x2, c2, p2, e2, call2 in ts:
            if n1 is n2 or x1 != x2 or not p2 or n2.id not in all_reach:
                continue
            if ff.IN[n1.id].get(x1) != ff.IN[n2.id].get(x2):
                continue
            pairs += 1
            if cut is None:
                not_a = not p1      # label of the edge on which x is not an instance of T1's classes
                cut = ff.cfg.reachable([ff.cfg.entry], edge_ok=lambda a, b, lab, n1=n1, not_a=not_a: not (a.id == n1.id and lab is not_a))
            if n2.id in cut:
                continue            # T2 is also reachable without passing "x is not a Base"
            bases = [r[1] for r in (res(c) for c in c1) if r is not None]
            subs = [res(c) for c in c2]
            if not bases or any(s is None for s in subs):
                continue
            if all(any(any(k[1] is b for k in repo.mro(s[0], s[1])) for b in bases) for s in subs):
                out.append((n1, n2, call1, call2))
    return pairs, out


def r5(ctx: RuleCtx) -> None:
    repo = Repo(ctx.repo.root, {SELFCHECK_REL: R5_SELFCHECK_SRC})
    m = repo.module(SELFCHECK_REL)
    an = Analyzer(repo)
    got = {q: len(shadowed_arms(repo, an.flow(m, q, m.func(q)))[1]) for q in ('good', 'bad', 'bad_elif')}
    if got != {'good': 0, 'bad': 1, 'bad_elif': 1}:
        raise AnalysisError(f'built-in example: shadowed arms {got}, expected good 0, bad 1, bad_elif 1')
    ctx.note('built-in example: subclass test after a leaving base-class test found in a loop body and in an elif chain; the correct order is accepted')
    files = [BE, NB, BUILD] + ([DEPBASE, PROGRAMS] if ctx.thorough else [])
    nfn = npairs = 0
    for rel in files:
        mod = ctx.repo.module(rel)
        an = Analyzer(ctx.repo)
        for q, fn in mod.funcs().items():
            subj: T.Dict[str, int] = {}
            for c in ast.walk(fn):
                if isinstance(c, ast.Call) and isinstance(c.func, ast.Name) and c.func.id == 'isinstance' and len(c.args) == 2 \
                        and isinstance(c.args[0], ast.Name):
                    subj[c.args[0].id] = subj.get(c.args[0].id, 0) + 1
            if not any(v >= 2 for v in subj.values()):
                continue
            try:
                ff = an.flow(mod, q, fn)
            except Undecided:
                continue
            pairs, bad = shadowed_arms(ctx.repo, ff)
            nfn += 1
            npairs += pairs
            if pairs and not bad:
                ctx.ok(f'{rel}:{q}: {pairs} ordered pair(s) of isinstance tests on one value, no subclass arm behind a base-class test')
            for n1, n2, c1, c2 in bad:
                ctx.violation(mod, q, f'{norm(c1)} before {norm(c2)}',
                              f'`{norm(c2)}` is only reached when `{norm(c1)}` was false for the same value, and every class it tests is a '
                              f'subclass of a class tested there: its branch can never run (objects of the subclass take the branch of the '
                              f'base-class test at line {n1.lineno} instead)', n2.ast)
    ctx.floor('functions with two or more isinstance tests on one value examined', nfn, 10)
    ctx.floor('ordered isinstance pairs on one value', npairs, 20)


# -- R6: total collector loops (K1) ------------------------------------------------------------------------------

class Loop(T.NamedTuple):
    rel: str
    qual: str
    source: str        # label the loop's iterable carries
    why: str


R6_TABLE = [
    Loop(NB, 'NinjaBackend.generate_rust_sources', 'call:target.get_generated_sources().get_outputs()', 'every generated output is an order-only input of the rustc step'),
    Loop(NB, 'NinjaBackend.order_deps_to_strings', 'param:order_deps', 'every order dep is converted and kept'),
    Loop(NB, 'NinjaBackend.add_header_deps', 'param:header_deps', 'every generated header becomes an order-only input'),
    Loop(NB, 'NinjaBackend.get_target_generated_sources', 'call:target.get_generated_sources().get_outputs()', 'every generated output is listed'),
    Loop(NB, 'NinjaBackend.generate_genlist_for_target', 'call:genlist.get_inputs()', 'every generator input gets its build statement'),
    Loop(BE, 'Backend.get_target_depend_files', 'attr:target.depend_files', 'every depend_files entry is kept'),
    Loop(BE, 'Backend.get_custom_target_sources', 'call:target.get_sources()', 'every custom target source is an input'),
    Loop(BUILD, 'CompileTarget.get_generated_headers', 'call:self.depends.get_outputs()',
         'every output of a depends: target is an order-only input, whatever its suffix (an included .def/.inc table is not a known header suffix)'),
]

R6_SELFCHECK_SRC = '''
class B:
    def total(self, items):
        out = []
        for i in items:
            if i.a:
                name = i.x
            else:
                name = i.y
            out.append(name)
        return out

    def truncated(self, items):
        out = []
        first = None
        for i in items:
            if first is None and i.a:
                first = i
                break
            out.append(i)
        return out, first

    def skipping(self, items):
        out = []
        for i in items:
            if i.a:
                continue
            out.append(i)
        return out

    def comprehension(self, items):
        return [i.x for i in items]
'''

_ACC_METHODS = {'append', 'extend', 'add', 'update', 'insert', 'setdefault', 'add_dep', 'add_orderdep', 'add_build', 'appendleft', 'extendleft'}


def _is_accumulation(ff: FuncFlow, n: T.Any) -> bool:
    st = n.ast
    if n.kind == 'stmt':
        if isinstance(st, ast.AugAssign):
            return True
        if isinstance(st, ast.Assign) and any(isinstance(t, ast.Subscript) for t in st.targets):
            return True
    for c in ff.node_calls(n):
        if isinstance(c.func, ast.Attribute) and c.func.attr in _ACC_METHODS:
            return True
    e = n.expr()
    if e is not None and not isinstance(e, (ast.FunctionDef, ast.AsyncFunctionDef, ast.ClassDef)):
        if any(isinstance(y, (ast.Yield, ast.YieldFrom)) for y in ast.walk(e)):
            return True
    return False


def _helper_accumulation(ff: FuncFlow, n: T.Any, depth: int) -> T.Optional[T.Tuple[bool, str]]:
    """Does node n call a followed helper (method, module function, closure) that accumulates?  (always?, helper name):
    `always` = every non-raising path through the helper passes an accumulating statement (the loop body was extracted)."""
    if depth <= 0:
        return None
    best: T.Optional[T.Tuple[bool, str]] = None
    for c in ff.node_calls(n):
        fn2 = None
        summ = None
        if isinstance(c.func, ast.Name) and c.func.id in ff.local_names:
            for kind, what in ff.resolve_callable(c.func, n) or []:
                if kind == 'nested':
                    summ, _free = ff.closure_summary(what)
                    fn2 = what
        else:
            cal = ff._callee(c)
            if cal is not None and cal[3] is not ff.fn:
                fn2 = cal[3]
                summ = ff.an.summary(cal[1], cal[2], cal[3], ff.depth - 1)
        if fn2 is None or summ is None or summ.ff is None:
            continue
        hf = summ.ff
        ff.an.stack.append(id(fn2))
        try:
            accs = _acc_nodes(hf, depth - 1)
        finally:
            ff.an.stack.pop()
        if not accs:
            continue
        avoid = {a.id for a in accs}
        reach = hf.cfg.reachable([hf.cfg.entry], [hf.cfg.nodes[i] for i in avoid], edge_ok=lambda a, b, lab: lab != 'exc')
        always = hf.cfg.exit_return.id not in reach
        name = getattr(fn2, 'name', 'lambda')
        if best is None or (always and not best[0]):
            best = (always, name)
    return best


def _acc_nodes(ff: FuncFlow, depth: int = 2, only: T.Optional[T.Set[int]] = None) -> T.List[T.Any]:
    out = []
    for n in ff.cfg.nodes:
        if only is not None and n.id not in only:
            continue
        if _is_accumulation(ff, n):
            out.append(n)
        else:
            h = _helper_accumulation(ff, n, depth)
            if h is not None and h[0]:
                out.append(n)
    return out


def loop_verdicts(ff: FuncFlow, source: str, _depth: int = 2) -> T.List[T.Tuple[str, str, T.Any]]:
    """For every `for` loop whose iterable carries `source` and whose body accumulates: (ok|violation|undecided, message, node).
    Violation = some path through one iteration (not by an exception) reaches the next iteration, leaves the loop or
    returns without passing any accumulating statement: that element is silently dropped."""
    out: T.List[T.Tuple[str, str, T.Any]] = []
    cfg = ff.cfg
    for head in cfg.nodes:
        if head.kind != 'iter':
            continue
        loop = head.ast
        if source not in ff.origins_at(loop.iter, head):
            continue
        body_nodes = {n.id for n in cfg.nodes if n.ast is not None and any(n.ast is x for st in loop.body for x in ast.walk(st))}
        accs = _acc_nodes(ff, 2, body_nodes)
        partial = [h[1] for h in (_helper_accumulation(ff, n, 2) for n in cfg.nodes if n.id in body_nodes) if h is not None and not h[0]]
        if not accs and partial:
            out.append(('violation', f'the body of the loop over `{short(loop.iter, 50)}` hands each element to {partial[0]}(), which can return without '
                        'passing any accumulating statement: that element is silently dropped', loop))
            continue
        if not accs:
            # the body hands the element to a helper / closure: not followed here
            out.append(('undecided', f'{ff.qual}: the loop over `{short(loop.iter, 50)}` has no accumulating statement the rule recognises '
                        '(body moved into a helper?)', loop))
            continue
        first = [b for b, lab in cfg.succ[head.id] if lab == 'iter']
        avoid = {a.id for a in accs}
        seen: T.Set[int] = set()
        stack = [b for b in first if b not in avoid]
        escaped = None
        while stack and escaped is None:
            a = stack.pop()
            if a in seen:
                continue
            seen.add(a)
            if a == head.id or a not in body_nodes:
                escaped = cfg.nodes[a]
                break
            for b, lab in cfg.succ[a]:
                if lab == 'exc' or b in avoid:
                    continue
                if cfg.nodes[b].kind == 'exit_raise':
                    continue
                stack.append(b)
        if escaped is None:
            out.append(('ok', f'{ff.qual}: every iteration over `{short(loop.iter, 50)}` passes an accumulating statement ({len(accs)} in the body)', loop))
        else:
            how = 'starts the next iteration' if escaped.id == head.id else 'leaves the loop'
            out.append(('violation', f'an iteration over `{short(loop.iter, 50)}` can finish without accumulating its element: a path through the '
                        f'body {how} (at line {escaped.lineno or loop.lineno}) without passing any of the {len(accs)} accumulating statement(s)', loop))
    if out:
        return out
    # no such loop: a comprehension / generator over the source without a filter is total as well
    for n in cfg.nodes:
        e = n.expr()
        if e is None or isinstance(e, (ast.FunctionDef, ast.AsyncFunctionDef, ast.ClassDef)):
            continue
        for comp in ast.walk(e):
            if isinstance(comp, (ast.ListComp, ast.SetComp, ast.GeneratorExp, ast.DictComp)):
                for g in comp.generators:
                    used = {x.id for x in ast.walk(g.iter) if isinstance(x, ast.Name)}
                    outer_vars = {t.id for g2 in comp.generators for t in ast.walk(g2.target) if isinstance(t, ast.Name)}
                    it: ast.AST = g.iter
                    if used & outer_vars:
                        # `for a in xs for b in a.f()`: an element of xs carries the access path of xs (B.2), so the inner
                        # iterable is read with the earlier comprehension variables replaced by their iterables
                        earlier = {g2.target.id: g2.iter for g2 in comp.generators[:comp.generators.index(g)] if isinstance(g2.target, ast.Name)}
                        if not used & outer_vars <= set(earlier):
                            continue
                        import copy
                        it = copy.deepcopy(g.iter)
                        for _ in range(len(earlier)):
                            it = _Subst(earlier).visit(it)
                        ast.fix_missing_locations(ast.copy_location(it, g.iter))
                    if source in ff.origins_at(it, n):
                        if any(g2.ifs for g2 in comp.generators):
                            # normal form: `[f(x) for x in it if c]` is the loop `for x in it: if not c: continue; acc.append(f(x))`,
                            # which the loop reading above reports - the two spellings get the same verdict
                            flt = next(i for g2 in comp.generators for i in g2.ifs)
                            out.append(('violation', f'`{short(comp, 70)}` drops the elements of {source} for which `{short(flt, 40)}` is false: '
                                        'an iteration can finish without accumulating its element', comp))
                        else:
                            out.append(('ok', f'{ff.qual}: `{short(comp, 70)}` keeps every element of {source}', comp))
    if out or _depth <= 0:
        if not out:
            out.append(('undecided', f'{ff.qual}: no loop or comprehension over {source} found (moved into a helper?)', ff.fn))
        return out
    # the elements are handed, as a whole, to a helper method that does the looping (an existing helper reused, a block extracted)
    for n in cfg.nodes:
        for c in ff.node_calls(n):
            cal = ff._callee(c)
            if cal is None or cal[3] is ff.fn:
                continue
            b = bind_args(cal[3], c, cal[4])
            if b is None:
                continue
            for p, a in b.items():
                if source in ff.origins_at(a, n):
                    summ = ff.an.summary(cal[1], cal[2], cal[3], ff.depth - 1)
                    if summ is None or summ.ff is None:
                        continue
                    ff.an.stack.append(id(cal[3]))
                    try:
                        sub = loop_verdicts(summ.ff, f'param:{p}', _depth - 1)
                    finally:
                        ff.an.stack.pop()
                    out.extend((v, f'{ff.qual} -> {msg}', c if v == 'violation' else node) for v, msg, node in sub
                               if not (v == 'undecided' and 'no loop or comprehension' in msg))
    if not out:
        for s0 in ff.sinks():
            if source in ff.sink_value(s0)[1]:
                out.append(('ok', f'{ff.qual}: {source} is handed over as a whole to `{s0.desc}`', s0.node.ast))
                break
    if not out:
        out.append(('undecided', f'{ff.qual}: no loop or comprehension over {source} found (moved into a helper?)', ff.fn))
    return out


def r6(ctx: RuleCtx) -> None:
    repo = Repo(ctx.repo.root, {SELFCHECK_REL: R6_SELFCHECK_SRC})
    m = repo.module(SELFCHECK_REL)
    an = Analyzer(repo, m, m.cls('B'))
    got = {q: sorted({v[0] for v in loop_verdicts(an.flow(m, f'B.{q}', m.func(f'B.{q}')), 'param:items')})
           for q in ('total', 'truncated', 'skipping', 'comprehension')}
    if got != {'total': ['ok'], 'truncated': ['violation'], 'skipping': ['violation'], 'comprehension': ['ok']}:
        raise AnalysisError(f'built-in example: loop verdicts {got}')
    ctx.note('built-in example: total loop and unfiltered comprehension accepted; `break` and `continue` before the accumulation rejected')
    get = _analyzers(ctx.repo, 5 if ctx.thorough else 3)
    und: T.List[str] = []
    for row in R6_TABLE:
        an2, ff = get(row.rel, row.qual)
        _check_source(ff, Ob(row.rel, row.qual, row.source, ('edge',)))
        an2.stack.append(id(ff.fn))
        try:
            vs = loop_verdicts(ff, row.source)
        finally:
            an2.stack.pop()
        for verdict, msg, node in vs:
            if verdict == 'ok':
                ctx.ok(msg)
            elif verdict == 'violation':
                ctx.violation(ff.mod, row.qual, f'total loop over {row.source}', f'{msg} ({row.why})', node)
            else:
                und.append(msg)
    if und:
        raise Undecided(' || '.join(und[:3]))


# -- R8: typed must-pass-through - an input that is a build-tree producer is recorded as a dependency (K9) --------------

class Arm(T.NamedTuple):
    rel: str
    qual: str
    source: str                     # label the loop's iterable carries
    leaf: str                       # the record: an accumulation of the element into an attribute chain ending in this name
    producers: T.Tuple[str, ...]    # classes (as named in the module) whose instances are made by a build step
    why: str


R8_TABLE = [
    Arm(BUILD, 'Generator.process_files', 'param:files', 'depends', ('BuildTarget', 'CustomTarget', 'CustomTargetIndex', 'GeneratedList'),
        'GeneratedList.depends is what generate_genlist_for_target walks to emit the build statements of the producers of generator inputs'),
    Arm(BUILD, 'BuildTarget.process_sourcelist', 'param:sources', 'generated', ('CustomTarget', 'CustomTargetIndex', 'GeneratedList'),
        'BuildTarget.generated is the list every generated-source / generated-header edge of the target is made from'),
    Arm(BUILD, 'BuildTarget.process_objectlist', 'param:objects', 'generated', ('CustomTarget', 'CustomTargetIndex', 'GeneratedList'),
        'generated objects: their producer is ordered before the link through BuildTarget.generated'),
]

R8_SELFCHECK_SRC = """
class File: pass
class Target: pass
class BuildTarget(Target): pass
class CustomTarget(Target): pass
class GeneratedList: pass

class B:
    def good(self, files):
        for e in files:
            if isinstance(e, (BuildTarget, CustomTarget)):
                self.out.depends.add(e)
                fs = e.get_outputs()
            elif isinstance(e, GeneratedList):
                self.out.depends.add(e)
                self.out.add_files(e.get_outputs())
                continue
            else:
                fs = [e]
            self.out.add_files(fs)

    def merged_after_continue(self, files):
        for e in files:
            if isinstance(e, (BuildTarget, CustomTarget)):
                fs = e.get_outputs()
            elif isinstance(e, GeneratedList):
                self.out.add_files(e.get_outputs())
                continue
            else:
                fs = [e]
            if not isinstance(e, (str, File)):
                self.out.depends.add(e)
            self.out.add_files(fs)

    def hoisted_guard(self, files):
        for e in files:
            is_file = isinstance(e, (str, File))
            if not is_file:
                self.out.depends.add(e)
            if isinstance(e, GeneratedList):
                self.out.add_files(e.get_outputs())
                continue
            self.out.add_files([e])

    def helper(self, files):
        for e in files:
            if isinstance(e, GeneratedList):
                self.note(self.out, e)
                continue
            self.out.add_files([e])

    def note(self, out, e):
        out.depends.add(e)

    def helper_sometimes(self, files):
        for e in files:
            if isinstance(e, GeneratedList):
                self.note_if(self.out, e)
                continue
            self.out.add_files([e])

    def note_if(self, out, e):
        if self.enabled:
            out.depends.add(e)
"""

_BUILTIN_TYPES = {'str', 'bytes', 'int', 'float', 'bool', 'list', 'tuple', 'dict', 'set', 'frozenset', 'type(None)'}


def _instance_fact(repo: Repo, mod: Module, p: T.Tuple[Module, ast.ClassDef], kexprs: T.Sequence[ast.AST], memo: T.Dict[T.Any, T.Any]) -> T.Optional[bool]:
    """Truth of isinstance(x, kexprs) for an x whose class is p or a subclass of p: True when p derives from one of the
    classes, False when every class is provably disjoint from p (a builtin type, or an unrelated repository class that shares
    no subclass with p in the closed world of their two modules), None otherwise."""
    pmro = [c for _, c in repo.mro(p[0], p[1])]
    unknown = False
    for k in kexprs:
        ch = attr_chain(k)
        if ch is None:
            unknown = True
            continue
        if ch in _BUILTIN_TYPES:
            continue
        r = repo.resolve_class(mod, ch)
        if r is None:
            unknown = True
            continue
        if any(c is r[1] for c in pmro):
            return True
        if any(c is p[1] for _, c in repo.mro(r[0], r[1])):
            unknown = True          # a strict subclass of p: x may or may not be one
            continue
        key = (id(p[1]), id(r[1]))
        if key not in memo:
            shared = False
            for m in {p[0].rel: p[0], r[0].rel: r[0]}.values():
                for c in m.classes().values():
                    lin = [x for _, x in repo.mro(m, c)]
                    if any(x is p[1] for x in lin) and any(x is r[1] for x in lin):
                        shared = True
            memo[key] = shared
        if memo[key]:
            unknown = True
    return None if unknown else False


def _helper_records(ff: FuncFlow, call: ast.Call, cal: T.Any, var: str, leaf: str) -> bool:
    """The resolved helper receives the element `var` as a plain argument and every non-raising path through it accumulates that
    parameter into an attribute chain ending in `leaf`."""
    b = bind_args(cal[3], call, cal[4])
    if b is None:
        return False
    ps = [p for p, a in b.items() if isinstance(a, ast.Name) and a.id == var]
    if len(ps) != 1:
        return False
    summ = ff.an.summary(cal[1], cal[2], cal[3], ff.depth - 1)
    if summ is None or summ.ff is None:
        return False
    hf = summ.ff
    if any(d.name == ps[0] and not d.param for d in hf.defs):
        return False
    recs = [n for chain, lst in hf.attr_defs.items() if chain.rsplit('.', 1)[-1] == leaf for n, v, _i in lst
            if v is not None and any(isinstance(x, ast.Name) and x.id == ps[0] for x in ast.walk(v))]
    if not recs:
        return False
    reach = hf.cfg.reachable([hf.cfg.entry], recs, edge_ok=lambda a, b, lab: lab != 'exc')
    return hf.cfg.exit_return.id not in reach


def arm_verdicts(repo: Repo, ff: FuncFlow, row: Arm) -> T.List[T.Tuple[str, str, T.Any]]:
    """For the outermost loop(s) over row.source: under the assumption `the element is an instance of producer class P`
    (each P of the row in turn) every non-raising path through one iteration passes a statement that accumulates the element
    into `<...>.<leaf>`.  isinstance tests on the element are decided from the class hierarchy; an escape that needs a test the
    rule cannot decide, or passes a helper that receives the element and mentions the leaf, is undecided."""
    cfg = ff.cfg
    out: T.List[T.Tuple[str, str, T.Any]] = []
    memo: T.Dict[T.Any, T.Any] = {}
    prods = []
    for name in row.producers:
        r = repo.resolve_class(ff.mod, name)
        if r is None:
            raise Undecided(f'{ff.qual}: producer class {name} cannot be resolved from {ff.mod.rel}; re-confirm the table')
        prods.append((name, r))
    heads = [h for h in cfg.nodes if h.kind == 'iter' and isinstance(h.ast, ast.For) and row.source in ff.origins_at(h.ast.iter, h)]
    heads = [h for h in heads if not any(h2 is not h and any(x is h.ast for st in h2.ast.body for x in ast.walk(st)) for h2 in heads)]
    if not heads:
        return [('undecided', f'{ff.qual}: no `for` loop over {row.source} (comprehension / helper?)', ff.fn)]
    for head in heads:
        loop = head.ast
        if not isinstance(loop.target, ast.Name):
            out.append(('undecided', f'{ff.qual}: the loop over `{short(loop.iter, 40)}` unpacks its element', loop))
            continue
        var = loop.target.id
        inbody = {id(x) for st in loop.body for x in ast.walk(st)}
        body_nodes = {n.id for n in cfg.nodes if n.ast is not None and id(n.ast) in inbody}
        if any(d.name == var and d.node in body_nodes for d in ff.defs):
            out.append(('undecided', f'{ff.qual}: the loop variable `{var}` is re-bound in the body', loop))
            continue

        def mentions(e: T.Optional[ast.AST]) -> bool:
            return e is not None and any(isinstance(x, ast.Name) and x.id == var for x in ast.walk(e))
        rec = {n.id for chain, lst in ff.attr_defs.items() if chain.rsplit('.', 1)[-1] == row.leaf
               for n, v, _i in lst if n.id in body_nodes and mentions(v)}
        maybe: T.Set[int] = set()
        for n in cfg.nodes:
            if n.id not in body_nodes or n.id in rec:
                continue
            for c in ff.node_calls(n):
                if not any(mentions(a) for a in list(c.args) + [k.value for k in c.keywords]):
                    continue
                if isinstance(c.func, ast.Name) and c.func.id in ff.local_names:
                    maybe.add(n.id)          # a closure / callable local
                    continue
                cal = ff._callee(c)
                if cal is not None and cal[3] is not ff.fn and ff.an.mentions(cal[3], row.leaf, 2):
                    if _helper_records(ff, c, cal, var, row.leaf):
                        rec.add(n.id)        # the arm was extracted: every non-raising path of the helper records its parameter
                    else:
                        maybe.add(n.id)
        maybe -= rec
        outside = [n for chain, lst in ff.attr_defs.items() if chain.rsplit('.', 1)[-1] == row.leaf
                   for n, v, i in lst if n.id not in body_nodes and v is not None and row.source in ff.origins_at(v, n, i)]

        def formula(e: ast.AST, n: T.Any, p: T.Tuple[Module, ast.ClassDef], depth: int = 0) -> T.Tuple[T.Optional[bool], bool]:
            """(three-valued truth under the assumption, does an undecided part depend on the element)"""
            if isinstance(e, ast.UnaryOp) and isinstance(e.op, ast.Not):
                v, dep = formula(e.operand, n, p, depth)
                return (None if v is None else not v), dep
            if isinstance(e, ast.BoolOp):
                parts = [formula(x, n, p, depth) for x in e.values]
                dom = isinstance(e.op, ast.Or)
                if any(v is dom for v, _ in parts):
                    return dom, False
                if all(v is (not dom) for v, _ in parts):
                    return (not dom), False
                return None, any(dep for v, dep in parts if v is None)
            if isinstance(e, ast.Call) and isinstance(e.func, ast.Name) and e.func.id == 'isinstance' and len(e.args) == 2 and not e.keywords \
                    and isinstance(e.args[0], ast.Name) and e.args[0].id == var:
                cl = e.args[1]
                v = _instance_fact(repo, ff.mod, p, list(cl.elts) if isinstance(cl, ast.Tuple) else [cl], memo)
                return v, v is None
            if isinstance(e, ast.Name) and depth < 2:
                ds = [ff.defs[i] for i in ff.IN[n.id].get(e.id, frozenset())]
                if len(ds) == 1 and ds[0].strong and not ds[0].param and ds[0].value is not None and ds[0].index is None \
                        and ds[0].node in body_nodes:
                    return formula(ds[0].value, cfg.nodes[ds[0].node], p, depth + 1)
            return None, mentions(e)

        def escape(p: T.Tuple[Module, ast.ClassDef], strict: bool) -> T.Optional[T.Any]:
            """A path through one iteration that avoids the record.  strict: helpers that may record and tests on the element
            the rule cannot decide block the path (what is found is certain)."""
            avoid = rec | maybe if strict else rec
            seen: T.Set[int] = set()
            stack = [b for b, lab in cfg.succ[head.id] if lab == 'iter' and b not in avoid]
            while stack:
                a = stack.pop()
                if a in seen:
                    continue
                seen.add(a)
                node = cfg.nodes[a]
                if a == head.id or a not in body_nodes:
                    return node
                allowed: T.Optional[bool] = None
                if node.kind == 'test':
                    v, dep = formula(node.ast.test, node, p)
                    if v is None and dep and strict:
                        continue
                    allowed = v
                for b, lab in cfg.succ[a]:
                    if lab == 'exc' or b in avoid or cfg.nodes[b].kind == 'exit_raise':
                        continue
                    if allowed is not None and lab in (True, False) and lab is not allowed:
                        continue
                    stack.append(b)
            return None

        for name, p in prods:
            sure = escape(p, True)
            if sure is not None and outside:
                out.append(('undecided', f'{ff.qual}: elements of {row.source} are also accumulated into .{row.leaf} outside the loop '
                            f'(`{short(outside[0].expr(), 60)}`); the rule does not read which', loop))
            elif sure is not None:
                how = 'starts the next iteration' if sure.id == head.id else 'leaves the loop'
                out.append(('violation', f'when the element of `{short(loop.iter, 40)}` is a {name}, a path through the iteration {how} '
                            f'without accumulating it into .{row.leaf} ({len(rec)} recording statement(s) in the body): the producer of that '
                            'input is not a declared dependency of the consumer', (loop, name)))
            elif escape(p, False) is not None:
                out.append(('undecided', f'{ff.qual}: whether a {name} element is recorded in .{row.leaf} depends on a helper or on a test '
                            f'on `{var}` the rule does not decide', loop))
            else:
                out.append(('ok', f'{ff.qual}: every iteration whose element is a {name} accumulates it into .{row.leaf}', loop))
    return out


def r8(ctx: RuleCtx) -> None:
    repo = Repo(ctx.repo.root, {SELFCHECK_REL: R8_SELFCHECK_SRC})
    m = repo.module(SELFCHECK_REL)
    an = Analyzer(repo, m, m.cls('B'))
    ex = Arm(SELFCHECK_REL, '', 'param:files', 'depends', ('BuildTarget', 'CustomTarget', 'GeneratedList'), '')
    ex1 = ex._replace(producers=('GeneratedList',))
    got = {q: [v[0] for v in arm_verdicts(repo, an.flow(m, f'B.{q}', m.func(f'B.{q}')), e)]
           for q, e in (('good', ex), ('merged_after_continue', ex), ('hoisted_guard', ex), ('helper', ex1), ('helper_sometimes', ex1))}
    want = {'good': ['ok', 'ok', 'ok'], 'merged_after_continue': ['ok', 'ok', 'violation'], 'hoisted_guard': ['ok', 'ok', 'ok'], 'helper': ['ok'],
            'helper_sometimes': ['undecided']}
    if got != want:
        raise AnalysisError(f'built-in example: arm verdicts {got}')
    ctx.note('built-in example: record in every producer arm and a hoisted `not isinstance(e, (str, File))` guard accepted; a record merged '
             'after the chain that the `continue` of the GeneratedList arm skips rejected; a helper that always records followed, one that records conditionally left undecided')
    get = _analyzers(ctx.repo, 5 if ctx.thorough else 3)
    und: T.List[str] = []
    for row in R8_TABLE:
        an2, ff = get(row.rel, row.qual)
        _check_source(ff, Ob(row.rel, row.qual, row.source, ('edge',)))
        an2.stack.append(id(ff.fn))
        try:
            vs = arm_verdicts(ctx.repo, ff, row)
        finally:
            an2.stack.pop()
        for verdict, msg, node in vs:
            if verdict == 'ok':
                ctx.ok(msg)
            elif verdict == 'violation':
                ctx.violation(ff.mod, row.qual, f'{node[1]} element of {row.source} -> .{row.leaf}', f'{msg} ({row.why})', node[0])
            else:
                und.append(msg)
    if und:
        raise Undecided(' || '.join(und[:3]))


# -- R9: sibling agreement of two suffix predicates - scanned sources == compile statements that load the dyndep file (K10) ------

R9_SCAN = 'NinjaBackend.select_sources_to_scan'
R9_LOAD = 'NinjaBackend.add_dependency_scanner_entries_to_element'
_RAW, _LOW = '__suffix_raw__', '__suffix_lower__'

R9_SELFCHECK_SRC = """
import os
SUFFIXES = {'cpp': ('cc', 'C'), 'fortran': ('f90',)}

class B:
    def scan(self, sources):
        for s in sources:
            ext = os.path.splitext(s)[1][1:]
            if ext.lower() in SUFFIXES['cpp'] or ext == 'C':
                yield s, 'cpp'
            elif ext.lower() in SUFFIXES['fortran']:
                yield s, 'fortran'

    def load(self, element, src):
        if not self.enabled:
            return
        extension = os.path.splitext(src.fname)[1][1:]
        if extension != 'C':
            extension = extension.lower()
        if not (extension in SUFFIXES['fortran'] or extension in SUFFIXES['cpp']):
            return
        element.add_item('dyndep', self.dd)

    def load_verbatim(self, element, src):
        extension = os.path.splitext(src.fname)[1][1:]
        if not (extension in SUFFIXES['fortran'] or extension in SUFFIXES['cpp']):
            return
        element.add_item('dyndep', self.dd)

    def load_helper(self, element, src):
        if self._scanned(os.path.splitext(src.fname)[1][1:]):
            element.add_item('dyndep', self.dd)

    def _scanned(self, suffix):
        return suffix == 'C' or suffix.lower() in (*SUFFIXES['cpp'], *SUFFIXES['fortran'])
"""


class _Subst(ast.NodeTransformer):
    def __init__(self, env: T.Dict[str, ast.AST]):
        self.env = env

    def visit_Name(self, node: ast.Name) -> ast.AST:
        if isinstance(node.ctx, ast.Load) and node.id in self.env:
            return self.env[node.id]
        return node


def _is_const(e: ast.AST, v: T.Any) -> bool:
    return isinstance(e, ast.Constant) and e.value == v and type(e.value) is type(v)


class _SuffixForms(ast.NodeTransformer):
    """`os.path.splitext(X)[1][1:]` -> the raw suffix symbol; `.lower()` of a suffix symbol -> the lower-cased suffix symbol."""
    def visit_Subscript(self, node: ast.Subscript) -> ast.AST:
        self.generic_visit(node)
        sl = node.slice
        if isinstance(sl, ast.Slice) and sl.upper is None and sl.step is None and sl.lower is not None and _is_const(sl.lower, 1):
            inner = node.value
            if isinstance(inner, ast.Subscript) and _is_const(inner.slice, 1) and isinstance(inner.value, ast.Call) \
                    and (attr_chain(inner.value.func) or '').rsplit('.', 1)[-1] == 'splitext' and len(inner.value.args) == 1:
                return ast.Name(id=_RAW, ctx=ast.Load())
        return node

    def visit_Call(self, node: ast.Call) -> ast.AST:
        self.generic_visit(node)
        f = node.func
        if isinstance(f, ast.Attribute) and f.attr == 'lower' and not node.args and not node.keywords \
                and isinstance(f.value, ast.Name) and f.value.id in (_RAW, _LOW):
            return ast.Name(id=_LOW, ctx=ast.Load())
        return node


def _has_suffix(e: ast.AST) -> bool:
    return any(isinstance(x, ast.Name) and x.id in (_RAW, _LOW) for x in ast.walk(e))


def suffix_predicate(repo: Repo, mod: Module, cls: T.Optional[ast.ClassDef], qual: str, body: T.List[ast.stmt],
                     accepts: T.Callable[[ast.AST], bool]) -> T.List[T.Tuple[T.List[T.Tuple[T.Any, bool]], bool]]:
    """Decision table of `body` over canonical suffix atoms: per path ([(formula, required truth)], accepting?).
    A formula is ('eq', form, const) | ('in', form, frozenset of constants) | ('not', f) | ('and'|'or', [f...]) | ('free',)
    where form is raw / lower; locals are replaced by their reaching definition on the path; a predicate helper consisting of
    one `return <expr>` is inlined.  Anything else that involves the suffix is not read -> Undecided."""
    from ..paths import enumerate_paths
    from .. import consteval

    def canon(e: ast.AST, env: T.Dict[str, ast.AST]) -> ast.AST:
        import copy
        e2 = _Subst(env).visit(copy.deepcopy(e))
        return _SuffixForms().visit(e2)

    def form_of(e: ast.AST) -> T.Optional[str]:
        if isinstance(e, ast.Name) and e.id == _RAW:
            return 'raw'
        if isinstance(e, ast.Name) and e.id == _LOW:
            return 'lower'
        return None

    def const_set(e: ast.AST) -> T.FrozenSet[str]:
        try:
            v = consteval.fold_expr(repo, mod, e)
        except Undecided as ex:
            raise Undecided(f'{qual}: the suffix is tested against `{short(e, 60)}`, which does not fold to a constant table ({ex})')
        if isinstance(v, dict):
            v = list(v)
        if not isinstance(v, (tuple, list, set, frozenset)) or not all(isinstance(x, str) for x in v):
            raise Undecided(f'{qual}: `{short(e, 60)}` is not a table of suffix strings')
        return frozenset(v)

    def formula(e: ast.AST, depth: int = 0) -> T.Any:
        if not _has_suffix(e):
            return ('free',)
        if isinstance(e, ast.UnaryOp) and isinstance(e.op, ast.Not):
            return ('not', formula(e.operand, depth))
        if isinstance(e, ast.BoolOp):
            return ('and' if isinstance(e.op, ast.And) else 'or', [formula(x, depth) for x in e.values])
        ife = next((x for x in ast.walk(e) if isinstance(x, ast.IfExp)), None)
        if ife is not None and depth < 4:
            # a conditional expression inside the test: (A if c else B) op S  ==  c and (A op S)  or  not c and (B op S)
            import copy

            def pick(node: ast.AST, arm: ast.AST) -> ast.AST:
                if node is ife:
                    return arm
                out = copy.copy(node)
                for fld, val in ast.iter_fields(node):
                    if isinstance(val, list):
                        setattr(out, fld, [pick(x, arm) if isinstance(x, ast.AST) else x for x in val])
                    elif isinstance(val, ast.AST):
                        setattr(out, fld, pick(val, arm))
                return out
            c = formula(ife.test, depth + 1)
            yes = formula(pick(e, ife.body), depth + 1)
            no = formula(pick(e, ife.orelse), depth + 1)
            return ('or', [('and', [c, yes]), ('and', [('not', c), no])])
        if isinstance(e, ast.Compare) and len(e.ops) == 1:
            a, op, b = e.left, e.ops[0], e.comparators[0]
            if isinstance(op, (ast.Eq, ast.NotEq)):
                if form_of(a) is None and form_of(b) is not None:
                    a, b = b, a
                if form_of(a) is not None and isinstance(b, ast.Constant) and isinstance(b.value, str):
                    f = ('eq', form_of(a), b.value)
                    return f if isinstance(op, ast.Eq) else ('not', f)
            if isinstance(op, (ast.In, ast.NotIn)) and form_of(a) is not None and not _has_suffix(b):
                f = ('in', form_of(a), const_set(b))
                return f if isinstance(op, ast.In) else ('not', f)
        if isinstance(e, ast.Call) and depth < 2 and not e.keywords and not any(isinstance(a, ast.Starred) for a in e.args):
            fn2 = None
            if isinstance(e.func, ast.Attribute) and isinstance(e.func.value, ast.Name) and e.func.value.id == 'self' and cls is not None:
                r = repo.find_method(mod, cls, e.func.attr)
                if r is not None and r[0] is mod:
                    fn2 = r[2]
                    params = [a.arg for a in fn2.args.posonlyargs + fn2.args.args][(0 if 'staticmethod' in [attr_chain(d) for d in fn2.decorator_list] else 1):]
            elif isinstance(e.func, ast.Name) and mod.has_func(e.func.id):
                fn2 = mod.func(e.func.id)
                params = [a.arg for a in fn2.args.posonlyargs + fn2.args.args]
            if fn2 is not None:
                stmts = [st for st in fn2.body if not (isinstance(st, ast.Expr) and isinstance(st.value, ast.Constant))]
                if len(stmts) == 1 and isinstance(stmts[0], ast.Return) and stmts[0].value is not None and len(params) == len(e.args):
                    return formula(canon(stmts[0].value, dict(zip(params, e.args))), depth + 1)
        raise Undecided(f'{qual}: the test `{short(e, 70)}` involves the source suffix in a form the rule does not read')

    # names the suffix is computed from (arguments of splitext) and locals derived from them: a test on one of them that is not a
    # canonical suffix atom (endswith, pathlib suffix, a helper ...) may look at the suffix too -> not read
    tainted: T.Set[str] = set()
    for st in body:
        for x in ast.walk(st):
            if isinstance(x, ast.Call) and (attr_chain(x.func) or '').rsplit('.', 1)[-1] == 'splitext':
                tainted |= {y.id for a in x.args for y in ast.walk(a) if isinstance(y, ast.Name)}
    changed = True
    while changed:
        changed = False
        for st in walk_stmts(body):
            if isinstance(st, (ast.Assign, ast.AnnAssign, ast.AugAssign)) and st.value is not None \
                    and any(isinstance(y, ast.Name) and y.id in tainted for y in ast.walk(st.value)):
                for tg in (st.targets if isinstance(st, ast.Assign) else [st.target]):
                    for y in ast.walk(tg):
                        if isinstance(y, ast.Name) and y.id not in tainted:
                            tainted.add(y.id)
                            changed = True
    tainted.discard('self')

    def type_test_only(e: ast.AST) -> bool:
        if isinstance(e, ast.UnaryOp) and isinstance(e.op, ast.Not):
            return type_test_only(e.operand)
        if isinstance(e, ast.BoolOp):
            return all(type_test_only(x) for x in e.values)
        return isinstance(e, ast.Call) and isinstance(e.func, ast.Name) and e.func.id == 'isinstance'

    rows: T.List[T.Tuple[T.List[T.Tuple[T.Any, bool]], bool]] = []
    for path in enumerate_paths(body):
        env: T.Dict[str, ast.AST] = {}
        conj: T.List[T.Tuple[T.Any, bool]] = []
        acc = False
        for ev in path.events:
            if ev.kind == 'cond':
                f = formula(canon(ev.node, env))
                if f == ('free',) and not type_test_only(ev.node) \
                        and any(isinstance(y, ast.Name) and y.id in tainted for y in ast.walk(ev.node)):
                    raise Undecided(f'{qual}: the test `{short(ev.node, 70)}` looks at the source path in a form the rule does not read')
                conj.append((f, bool(ev.val)))
            elif ev.kind == 'stmt':
                st = ev.node
                if accepts(st):
                    acc = True
                if isinstance(st, ast.Assign) and len(st.targets) == 1 and isinstance(st.targets[0], ast.Name):
                    env[st.targets[0].id] = canon(st.value, env)
                elif isinstance(st, ast.AnnAssign) and isinstance(st.target, ast.Name) and st.value is not None:
                    env[st.target.id] = canon(st.value, env)
                else:
                    for x in ast.walk(st):
                        if isinstance(x, ast.Name) and isinstance(x.ctx, (ast.Store, ast.Del)) and x.id in env:
                            if _has_suffix(env[x.id]):
                                raise Undecided(f'{qual}: `{x.id}` (derived from the source suffix) is re-bound by `{short(st, 60)}`')
                            del env[x.id]
            elif ev.kind in ('iter', 'with'):
                for x in ast.walk(ev.node) if ev.node is not None else ():
                    if isinstance(x, ast.Name) and isinstance(x.ctx, ast.Store):
                        env.pop(x.id, None)
        if path.outcome == 'raise':
            continue
        rows.append((conj, acc))
    return rows


def _atoms(f: T.Any, out: T.Set[T.Any]) -> None:
    if f[0] in ('eq', 'in'):
        out.add(f)
    elif f[0] == 'not':
        _atoms(f[1], out)
    elif f[0] in ('and', 'or'):
        for x in f[1]:
            _atoms(x, out)


def _truth(f: T.Any, world: T.Dict[T.Any, bool]) -> T.Optional[bool]:
    if f[0] == 'free':
        return None
    if f[0] in ('eq', 'in'):
        return world[f]
    if f[0] == 'not':
        v = _truth(f[1], world)
        return None if v is None else not v
    vs = [_truth(x, world) for x in f[1]]
    dom = f[0] == 'or'
    if any(v is dom for v in vs):
        return dom
    if all(v is (not dom) for v in vs):
        return not dom
    return None


def suffix_worlds(tables: T.Sequence[T.List[T.Tuple[T.List[T.Tuple[T.Any, bool]], bool]]]) -> T.List[T.Tuple[str, T.Dict[T.Any, bool]]]:
    """The consistent truth assignments of the suffix atoms of all tables, each with a witness: the suffixes the constant
    tables declare, their case variants, and one suffix that is in no table."""
    atoms: T.Set[T.Any] = set()
    for t in tables:
        for conj, _ in t:
            for f, _v in conj:
                _atoms(f, atoms)
    consts: T.Set[str] = set()
    for a in atoms:
        consts |= {a[2]} if a[0] == 'eq' else set(a[2])
    reps = sorted({v for c in consts for v in (c, c.upper(), c.lower(), c.capitalize())} | {'\x00none'})
    seen: T.Dict[T.Tuple[bool, ...], str] = {}
    order = sorted(atoms, key=repr)
    out = []
    for s in reps:
        w = {}
        for a in order:
            subj = s if a[1] == 'raw' else s.lower()
            w[a] = (subj == a[2]) if a[0] == 'eq' else (subj in a[2])
        key = tuple(w[a] for a in order)
        if key not in seen:
            seen[key] = s
            out.append((s, w))
    return out


def _accepting(table: T.List[T.Tuple[T.List[T.Tuple[T.Any, bool]], bool]], world: T.Dict[T.Any, bool]) -> bool:
    return any(acc and all(_truth(f, world) in (None, v) for f, v in conj) for conj, acc in table)


def _is_yield_stmt(st: ast.AST) -> bool:
    return any(isinstance(x, (ast.Yield, ast.YieldFrom)) for x in ast.walk(st))


def _is_dyndep_stmt(st: ast.AST) -> bool:
    return any(isinstance(x, ast.Call) and isinstance(x.func, ast.Attribute) and x.func.attr == 'add_item' and x.args
               and _is_const(x.args[0], 'dyndep') for x in ast.walk(st))


def suffix_agreement(repo: Repo, mod: Module, cls: T.Optional[ast.ClassDef], scan_q: str, load_q: str) -> T.Tuple[int, int, T.List[str]]:
    """(worlds, suffix atoms, witnesses of disagreement)"""
    scan = mod.func(scan_q)
    emits = _is_yield_stmt
    if not any(_is_yield_stmt(st) for st in scan.body):
        # list builder instead of a generator: `res = []; for ..: res.append(..); return res`
        rets = [st for st in walk_stmts(scan.body) if isinstance(st, ast.Return)]
        if len(rets) == 1 and isinstance(rets[0].value, ast.Name):
            acc_name = rets[0].value.id

            def emits(st: ast.AST) -> bool:
                return any(isinstance(x, ast.Call) and isinstance(x.func, ast.Attribute) and x.func.attr in ('append', 'add')
                           and isinstance(x.func.value, ast.Name) and x.func.value.id == acc_name for x in ast.walk(st)) \
                    or (isinstance(st, ast.AugAssign) and isinstance(st.target, ast.Name) and st.target.id == acc_name)
    loops = [st for st in walk_stmts(scan.body) if isinstance(st, ast.For) and any(emits(b) for b in st.body)]
    if len(loops) != 1 or any(emits(st) for st in scan.body if st is not loops[0] and not any(x is loops[0] for x in ast.walk(st))):
        raise Undecided(f'{scan_q}: the scanned sources are not yielded / appended from the body of one `for` loop over the sources')
    ta = suffix_predicate(repo, mod, cls, scan_q, loops[0].body, emits)
    load = mod.func(load_q)
    tb = suffix_predicate(repo, mod, cls, load_q, load.body, _is_dyndep_stmt)
    if not any(acc for _, acc in tb):
        raise Undecided(f"{load_q}: no path adds the 'dyndep' item to the element (moved into a helper?)")
    worlds = suffix_worlds([ta, tb])
    natoms = len(worlds[0][1]) if worlds else 0
    for t, q in ((ta, scan_q), (tb, load_q)):
        s: T.Set[T.Any] = set()
        for conj, _ in t:
            for f, _v in conj:
                _atoms(f, s)
        if not s:
            raise Undecided(f'{q}: no test on the source suffix (`os.path.splitext(..)[1][1:]`) was read')
    bad = []
    for wit, w in worlds:
        a, b = _accepting(ta, w), _accepting(tb, w)
        if a != b:
            bad.append(f"suffix like '.{wit}': " + ('scanned, but its compile statement does not load the dyndep file' if a else
                                                      'its compile statement loads the dyndep file, but the source is not scanned'))
    return len(worlds), natoms, bad


def walk_stmts(body: T.List[ast.stmt]) -> T.Iterator[ast.stmt]:
    for st in body:
        yield st
        for fld in ('body', 'orelse', 'finalbody'):
            sub = getattr(st, fld, None)
            if isinstance(sub, list) and not isinstance(st, (ast.FunctionDef, ast.AsyncFunctionDef, ast.ClassDef)):
                yield from walk_stmts(sub)
        for h in getattr(st, 'handlers', []) or []:
            yield from walk_stmts(h.body)


def r9(ctx: RuleCtx) -> None:
    repo = Repo(ctx.repo.root, {SELFCHECK_REL: R9_SELFCHECK_SRC})
    m = repo.module(SELFCHECK_REL)
    got = {q: bool(suffix_agreement(repo, m, m.cls('B'), 'B.scan', f'B.{q}')[2]) for q in ('load', 'load_verbatim', 'load_helper')}
    if got != {'load': False, 'load_verbatim': True, 'load_helper': False}:
        raise AnalysisError(f'built-in example: suffix agreement {got}')
    ctx.note('built-in example: lower-unless-C reading and a one-line predicate helper agree with the scanner; a verbatim suffix test disagrees (F90)')
    mod = ctx.repo.module(NB)
    nworlds, natoms, bad = suffix_agreement(ctx.repo, mod, mod.cls('NinjaBackend'), R9_SCAN, R9_LOAD)
    ctx.floor('suffix atoms read in the two predicates', natoms, 3)
    ctx.floor('suffix worlds compared', nworlds, 4)
    if bad:
        ctx.violation(mod, R9_LOAD, 'scanned sources == compile statements that load the dyndep file',
                      f'{R9_SCAN} and {R9_LOAD} classify source suffixes differently in {len(bad)} of {nworlds} worlds: ' + '; '.join(bad[:4])
                      + ' (the module edge carried by the dyndep file is lost / ninja rejects a dyndep file that does not mention the output)',
                      mod.func(R9_LOAD))
    else:
        ctx.ok(f'{R9_SCAN} yields a source exactly when {R9_LOAD} binds the dyndep file, in all {nworlds} suffix worlds ({natoms} atoms)')


# -- R7: a built file of a target output lives in the target's build directory (K8) -----------------------------------

R7_SELFCHECK_SRC = '''
class File:
    pass

class T1:
    def good(self):
        return [File(True, d.get_builddir(), o) for d in self.depends for o in d.get_outputs()]

    def bad(self):
        out = []
        for d in self.depends:
            out += [File(True, d.subdir, o) for o in d.get_outputs()]
        return out

    def bad2(self, c):
        return File.from_built_file(c.get_subdir(), c.get_filename())

    def unrelated(self, c, other):
        return File.from_built_file(other.get_subdir(), c.get_filename())

    def emit_bad(self, src):
        if src.is_built:
            rel = src.fname
        else:
            rel = src.rel_to_builddir(self.build_to_src)
        elem = NinjaBuildElement(self.all_outputs, 'o', 'R', rel)
        self.add_build(elem)

    def emit_good(self, src):
        obj = self.canonicalize(src.fname)
        elem = NinjaBuildElement(self.all_outputs, obj, 'R', src.rel_to_builddir(self.build_to_src))
        self.add_build(elem)
'''
_SRC_DIR = ('.subdir', '.get_subdir()')
_OUT_NAME = ('.get_outputs()', '.get_filename()', '.outputs', '.filename')


def built_file_sites(ff: FuncFlow) -> T.List[T.Tuple[str, ast.Call, str]]:
    """Constructions of a *built* File: (ok|violation, call, text)."""
    out = []
    for n in ff.cfg.nodes:
        for c in ff.node_calls(n):
            f = c.func
            d = nm = None
            if isinstance(f, ast.Name) and f.id == 'File' or (isinstance(f, ast.Attribute) and f.attr == 'File'):
                if len(c.args) == 3 and isinstance(c.args[0], ast.Constant) and c.args[0].value is True:
                    d, nm = c.args[1], c.args[2]
            elif isinstance(f, ast.Attribute) and f.attr == 'from_built_file' and len(c.args) == 2:
                d, nm = c.args
            if d is None:
                continue
            env = _comp_env(ff, n, c)
            for e in (d, nm):
                for x in ast.walk(e):
                    if isinstance(x, ast.Name) and x.id not in env:
                        ff.value_at(x, n)
            dv = ff._ev(d, n, env, ff._look_eval)
            nv = ff._ev(nm, n, env, ff._look_eval)
            owners = set()
            for lab in set(nv[0]) | {l.split(':', 1)[1] for l in nv[1] if l.startswith(('call:', 'attr:'))}:
                for suf in _OUT_NAME:
                    if lab.endswith(suf):
                        owners.add(lab[:-len(suf)])
            bad = sorted((p for p in dv[0] for suf in _SRC_DIR if p.endswith(suf) and p[:-len(suf)] in owners), key=lambda p: (len(p), p))
            if bad:
                out.append(('violation', c, bad[0]))
            elif owners:
                out.append(('ok', c, short(d, 50)))
    return out


def r7(ctx: RuleCtx) -> None:
    repo = Repo(ctx.repo.root, {SELFCHECK_REL: R7_SELFCHECK_SRC})
    m = repo.module(SELFCHECK_REL)
    an = an0 = Analyzer(repo, m, m.cls('T1'))
    got = {q: [v[0] for v in built_file_sites(an.flow(m, f'T1.{q}', m.func(f'T1.{q}')))] for q in ('good', 'bad', 'bad2', 'unrelated')}
    if got != {'good': ['ok'], 'bad': ['violation'], 'bad2': ['violation'], 'unrelated': ['ok']}:
        raise AnalysisError(f'built-in example: built-file sites {got}')
    ctx.note('built-in example: File(True, d.subdir, <output of d>) and from_built_file(c.get_subdir(), c.get_filename()) rejected; get_builddir() accepted')
    nsites = 0
    for rel in (BUILD, BE, NB):
        mod = ctx.repo.module(rel)
        an = Analyzer(ctx.repo)
        for q, fn in mod.funcs().items():
            if not any(isinstance(x, ast.Call) and ((isinstance(x.func, ast.Attribute) and x.func.attr in ('from_built_file', 'File'))
                                                    or (isinstance(x.func, ast.Name) and x.func.id == 'File')) for x in ast.walk(fn)):
                continue
            try:
                ff = an.flow(mod, q, fn)
            except Undecided:
                continue
            for verdict, c, what in built_file_sites(ff):
                nsites += 1
                if verdict == 'ok':
                    ctx.ok(f'{rel}:{q}: built file `{short(c, 70)}` is placed in {what}')
                else:
                    ctx.violation(mod, q, norm(c),
                                  f'`{short(c, 90)}` builds the path of an output of `{what.rsplit(".", 1)[0]}` from its *source* sub-directory '
                                  f'(`{what}`); the output is written to get_builddir() (machine prefix + subdir + build_subdir), so with '
                                  f'build_subdir: or a build-machine subproject the edge names a file nobody produces', c)
    ctx.floor('built-file constructions from target outputs examined', nsites, 1)
    # second clause: an edge names a file by its path from the build root, never by the bare File.fname
    ex = an0.flow(m, 'T1.emit_bad', m.func('T1.emit_bad'))
    ex2 = an0.flow(m, 'T1.emit_good', m.func('T1.emit_good'))
    if [bool(x) for x in (bare_fname_sinks(ex), bare_fname_sinks(ex2))] != [True, False]:
        raise AnalysisError('built-in example: bare .fname edge input not recognised')
    nbm = ctx.repo.module(NB)
    an2 = _analyzers(ctx.repo, 5 if ctx.thorough else 3)(NB, 'NinjaBackend.generate_target')[0]
    nfn = 0
    for q, fn in nbm.funcs().items():
        if q.count('.') != 1 or not any(isinstance(x, ast.Attribute) and x.attr == 'fname' for x in ast.walk(fn)) \
                or not any(isinstance(x, ast.Name) and x.id == 'NinjaBuildElement' for x in ast.walk(fn)):
            continue
        try:
            ff = an2.flow(nbm, q, fn)
        except Undecided:
            continue
        nfn += 1
        an2.stack.append(id(fn))
        try:
            bad = bare_fname_sinks(ff)
        finally:
            an2.stack.pop()
        if not bad:
            ctx.ok(f'{q}: no build element input or dependency is the bare .fname of a File')
        for s0, path in bad:
            ctx.violation(nbm, q, f'{s0.kind} <- {path}',
                          f'`{s0.desc}` names its {s0.kind} by `{path}`, the file name without its directory: for a File in a sub-directory '
                          f'(a generated source of a custom target in sub/) the statement then reads a file nobody produces; the sibling '
                          f'compile paths use rel_to_builddir()', s0.node.ast)
    ctx.note(f'functions that read .fname and build elements: {nfn}')


def bare_fname_sinks(ff: FuncFlow) -> T.List[T.Tuple[T.Any, str]]:
    out = []
    for s0 in ff.sinks():
        if s0.pre is not None or not ff.registered(s0):
            continue
        for e in s0.exprs:
            for path in sorted(ff.value_at(e, s0.node)[0]):
                if path.endswith('.fname'):
                    out.append((s0, path))
    return out


RULES = [
    Rule('C05.R1', 'edge-population obligations (must-flow of every dependency source into its edge)', r1),
    Rule('C05.R2', 'get_generated_headers: transitive over link_with/link_whole, complete result cached', r2),
    Rule('C05.R3', 'partial_dependency forwards every interface selector through nested dependencies', r3),
    Rule('C05.R4', 'nothing collected from dependency sources is dropped (def-use liveness of accumulators)', r4),
    Rule('C05.R5', 'isinstance arms in dependency-collecting code are not shadowed by an earlier base-class test', r5),
    Rule('C05.R6', 'collector loops over dependency sources keep every element (no break/continue/return before the accumulation)', r6),
    Rule('C05.R7', 'a built File of a target output is placed in the target build directory, not its source sub-directory', r7),
    Rule('C05.R8', 'an input that is a build-tree producer is recorded as a dependency on every path of its iteration (typed must-pass-through)', r8),
    Rule('C05.R9', 'the dependency scanner scans a source exactly when its compile statement loads the dyndep file (sibling suffix predicates agree)', r9),
]
