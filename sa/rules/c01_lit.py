"""C01.R7 (literals: escape decoding, sorted dict keys) and C01.R8 (documented method sets) - DESIGN section 2 C01."""
from __future__ import annotations

import ast
import re
import typing as T

from ..core import Module, Repo, Undecided, AnchorMissing, norm, short, attr_chain
from ..report import RuleCtx
from ..consteval import Regex
from .c01_sym import fold_expr
from .. import rx
from .c01_sym import sym_paths, is_call, show, subterms
from .c01_parser import MPARSER, mro_cached, _summaries, actual_name
from .c01_ops import LexTables, _guarded, HOLDERS, DECOR, _strip_calls

SYNTAX_MD = 'docs/markdown/Syntax.md'
YAML_DIR = 'docs/yaml/elementary/'

# frozen copy of the documented escape list (Syntax.md, "The full list of escape sequences is"); cross-checked with the file at check time
ESCAPES_FROZEN = ['\\\\', "\\'", '\\a', '\\b', '\\f', '\\n', '\\r', '\\t', '\\v', '\\ooo', '\\xhh', '\\uxxxx', '\\Uxxxxxxxx', '\\N{name}']


def documented_escapes(ctx: RuleCtx) -> T.List[str]:
    try:
        text = ctx.repo.read(SYNTAX_MD)
    except AnchorMissing:
        ctx.note('Syntax.md not readable: using the frozen escape list')
        return list(ESCAPES_FROZEN)
    lines = text.splitlines()
    start = [i for i, l in enumerate(lines) if 'full list of escape sequences' in l]
    if len(start) != 1:
        raise Undecided('Syntax.md: the escape sequence list was not found')
    out: T.List[str] = []
    for l in lines[start[0] + 1:]:
        if not l.strip():
            if out:
                break
            continue
        m = re.match(r'^\* `([^`]+)`', l)
        if not m:
            break
        out.append(m.group(1))
    if out != ESCAPES_FROZEN:
        ctx.note(f'Syntax.md escape list differs from the frozen copy: {out}')
    return out


HEX = frozenset('0123456789abcdefABCDEF')
OCT = frozenset('01234567')
INF = 'inf'
ASCII = [chr(c) for c in range(32, 127)]


def escape_reference(doc: T.List[str]) -> T.Set[T.Tuple[T.Any, ...]]:
    """Documented escape forms as (literal prefix, character set, min, max, literal suffix)."""
    singles: T.Set[str] = set()
    out: T.Set[T.Tuple[T.Any, ...]] = set()
    for e in doc:
        if not e.startswith('\\'):
            raise Undecided(f'Syntax.md documents an escape that does not start with a backslash: {e}')
        body = e[1:]
        if len(body) == 1:
            singles.add(body)
        elif set(body) == {'o'}:
            out.add(('\\', OCT, 1, len(body), ''))                   # "up to three octal digits are accepted"
        elif body[0] in 'xuU' and set(body[1:]) in ({'h'}, {'x'}):
            out.add(('\\' + body[0], HEX, len(body) - 1, len(body) - 1, ''))
        elif body == 'N{name}':
            out.add(('\\N{', ('not', frozenset('}')), 1, INF, '}'))
        else:
            raise Undecided(f'Syntax.md documents an escape form this rule does not know: {e}')
    if singles:
        out.add(('\\', frozenset(singles), 1, 1, ''))
    return out


def escape_alternatives(reg: Regex) -> T.Set[T.Tuple[T.Any, ...]]:
    """The alternatives of the escape regex in the same normal form (read off re._parser's tree; no matching is run)."""
    c = rx.sre_c

    def charset(items: T.Any) -> T.Any:
        items = list(items)
        if items and items[0][0] is c.NEGATE:
            rest = items[1:]
            if all(op is c.LITERAL for op, _ in rest):
                return ('not', frozenset(chr(av) for _, av in rest))
            raise Undecided('negated character class with ranges in the escape regex')
        return frozenset(rx.class_chars(items, ASCII))
    def expand(items: T.List[T.Any]) -> T.List[T.List[T.Any]]:
        # re._parser factors a common literal prefix out of an alternation and wraps groups: undo both
        items = list(items)
        if len(items) == 1 and items[0][0] is c.SUBPATTERN:
            return expand(list(items[0][1][3]))
        for k, (op, av) in enumerate(items):
            if op is c.BRANCH:
                res: T.List[T.List[T.Any]] = []
                for b in av[1]:
                    res.extend(expand(items[:k] + list(b) + items[k + 1:]))
                return res
            if op is c.SUBPATTERN:
                return expand(items[:k] + list(av[3]) + items[k + 1:])
        return [items]
    out: T.Set[T.Tuple[T.Any, ...]] = set()
    for items in expand(list(rx.parse(reg.pattern, reg.flags))):
        i = 0
        pre = ''
        while i < len(items) and items[i][0] is c.LITERAL:
            pre += chr(items[i][1])
            i += 1
        if i >= len(items):
            raise Undecided(f'escape regex alternative {pre!r} has no variable part')
        op, av = items[i]
        if op is c.IN:
            body = (charset(av), 1, 1)
        elif op in (c.MAX_REPEAT, c.MIN_REPEAT):
            lo, hi, sub = av
            sub = list(sub)
            if len(sub) == 1 and sub[0][0] is c.IN:
                cs = charset(sub[0][1])
            elif len(sub) == 1 and sub[0][0] is c.NOT_LITERAL:
                cs = ('not', frozenset(chr(sub[0][1])))
            else:
                raise Undecided('escape regex alternative repeats something other than a character class')
            body = (cs, lo, INF if hi is c.MAXREPEAT else hi)
        else:
            raise Undecided(f'escape regex alternative with construct {op}')
        i += 1
        suf = ''
        while i < len(items) and items[i][0] is c.LITERAL:
            suf += chr(items[i][1])
            i += 1
        if i != len(items):
            raise Undecided('escape regex alternative has more than prefix / class / suffix')
        out.add((pre, body[0], body[1], body[2], suf))
    return out


def _fmt_esc(d: T.Tuple[T.Any, ...]) -> str:
    pre, cs, lo, hi, suf = d
    if isinstance(cs, tuple):
        cls = '[^' + ''.join(sorted(cs[1])) + ']'
    elif cs == HEX:
        cls = '<hex>'
    elif cs == OCT:
        cls = '<octal>'
    else:
        cls = '[' + ''.join(sorted(cs)) + ']'
    rep = '' if (lo, hi) == (1, 1) else f'{{{lo},{hi}}}' if lo != hi else f'{{{lo}}}'
    return f'{pre}{cls}{rep}{suf}'


def _const_domain(e: ast.AST, fold: T.Optional[T.Callable[[ast.AST], T.Any]] = None) -> T.Optional[T.Tuple[str, T.Set[T.Any]]]:
    """(variable, constants) when the test says `variable is one of these constants`: `x in {a, b}` / `x in (a, b)` / `x == a` / `a == x` /
    `x == a or x == b` (any nesting of or)."""
    if isinstance(e, ast.Compare) and len(e.ops) == 1:
        l, r = e.left, e.comparators[0]
        if isinstance(e.ops[0], ast.In) and isinstance(l, ast.Name) and isinstance(r, (ast.Set, ast.Tuple, ast.List)) and all(isinstance(x, ast.Constant) for x in r.elts):
            return l.id, {x.value for x in r.elts}          # type: ignore[attr-defined]
        if isinstance(e.ops[0], ast.In) and isinstance(l, ast.Name) and fold is not None and attr_chain(r) is not None:
            # a named constant set (module / class constant): folded
            try:
                v = fold(r)
            except Undecided:
                return None
            if isinstance(v, (set, frozenset, tuple, list, dict)) and all(isinstance(x, (str, int, bool)) for x in v):
                return l.id, set(v)
        if isinstance(e.ops[0], ast.Eq):
            if isinstance(l, ast.Name) and isinstance(r, ast.Constant):
                return l.id, {r.value}
            if isinstance(r, ast.Name) and isinstance(l, ast.Constant):
                return r.id, {l.value}
    if isinstance(e, ast.BoolOp) and isinstance(e.op, ast.Or):
        parts = [_const_domain(v, fold) for v in e.values]
        if all(p is not None for p in parts) and len({p[0] for p in parts}) == 1:       # type: ignore[index]
            out: T.Set[T.Any] = set()
            for p in parts:
                out |= p[1]         # type: ignore[index]
            return parts[0][0], out     # type: ignore[index]
    return None


def r7(ctx: RuleCtx) -> None:
    repo = ctx.repo
    mod = repo.module(MPARSER)
    lt = LexTables(ctx)
    # (a) the four string token kinds: delimiters read off the specification regexes (literal prefix / suffix),
    #     `multiline` in the token id <=> triple-quote delimiters, `fstring` in the id <=> f prefix
    _summaries(ctx, mod, 'e10')           # registers the actual name of the string-token table by role
    strings = sorted(fold_expr(repo, mod, ast.Name(id=actual_name(repo, 'ALL_STRINGS'), ctx=ast.Load())))
    ctx.floor('string token kinds (ALL_STRINGS)', len(strings), 4)
    delim: T.Dict[str, T.Tuple[str, str]] = {}
    for tid in strings:
        i = lt.index(tid)
        if i is None:
            ctx.violation(mod, 'Lexer.__init__', f'string token kind {tid} has no specification', f'ALL_STRINGS names the token kind {tid}, which token_specification does not define', lt.nodes['self.token_specification'])
            continue
        r = lt.spec[i][1]
        items = list(rx.parse(r.pattern, r.flags))
        pre = rx.literal_prefix(items)
        suf = rx.literal_prefix(list(reversed(items)))[::-1]
        delim[tid] = (pre, suf)
        want_pre = ('f' if 'fstring' in tid else '') + ("'''" if 'multiline' in tid else "'")
        want_suf = "'''" if 'multiline' in tid else "'"
        ctx.require((pre, suf) == (want_pre, want_suf), f'{tid}: delimiters {want_pre} ... {want_suf}', mod, 'Lexer.__init__', f'{tid}: regex delimiters {pre!r} ... {suf!r}',
                    f'the specification of {tid} is delimited by {pre!r} ... {suf!r}; a token id containing `multiline` must be the triple-quoted form and `fstring` the f-prefixed one '
                    f'(reference {want_pre!r} ... {want_suf!r}): StringNode decides escape decoding from the token id', lt.nodes['self.token_specification'])
    # the longer delimiter must be tried first: ''' before ', f' before identifiers
    for first, second in (('multiline_string', 'string'), ('multiline_fstring', 'fstring'), ('fstring', 'id'), ('multiline_fstring', 'id')):
        i, j = lt.index(first), lt.index(second)
        if i is None or j is None:
            continue
        ctx.require(i < j, f'specification {first} is tried before {second}', mod, 'Lexer.__init__', f'order of {first} / {second}',
                    f'{second} is tried before {first}: its regex matches a prefix of every {first} literal, so such literals would be split', lt.nodes['self.token_specification'])
    fn = mod.func('Lexer.lex')
    strips: T.Dict[str, T.Tuple[int, int]] = {}
    # single-use locals of a branch (`quote_start = 2 if tid == 'fstring' else 1`) are substituted into the slice bounds: reaching definitions
    # per branch, in statement order
    branch_defs: T.Dict[T.Tuple[T.Tuple[int, bool], ...], T.Dict[str, ast.AST]] = {}

    class _Inline(ast.NodeTransformer):
        def __init__(self, env: T.Dict[str, ast.AST]):
            self.env = env

        def visit_Name(self, n: ast.Name) -> ast.AST:
            if isinstance(n.ctx, ast.Load) and n.id in self.env:
                import copy as _cp
                return self.visit(_cp.deepcopy(self.env[n.id]))
            return n
    for st, guards in _guarded(fn.body, []):
        gkey = tuple((id(g), v) for g, v in guards)
        env_b: T.Dict[str, ast.AST] = dict(branch_defs.get(gkey, {})) if gkey else {}      # definitions of this very branch only
        if isinstance(st, ast.Assign) and len(st.targets) == 1 and isinstance(st.targets[0], ast.Name) and not (
                isinstance(st.value, ast.Subscript) and norm(st.value.value) == st.targets[0].id) \
                and not any(isinstance(n, ast.Call) for n in ast.walk(st.value)) and st.targets[0].id not in {n.id for n in ast.walk(st.value) if isinstance(n, ast.Name)}:
            branch_defs.setdefault(gkey, {})[st.targets[0].id] = st.value
        elif isinstance(st, (ast.Assign, ast.AugAssign, ast.AnnAssign)):
            for t in ast.walk(st):
                if isinstance(t, ast.Name) and isinstance(t.ctx, ast.Store):
                    for d in branch_defs.values():
                        d.pop(t.id, None)
        if isinstance(st, ast.Assign) and isinstance(st.targets[0], ast.Name) and isinstance(st.value, ast.Subscript) and norm(st.value.value) == st.targets[0].id \
                and isinstance(st.value.slice, ast.Slice):
            import copy as _cp2
            st = _cp2.deepcopy(st)
            if st.value.slice.lower is not None:
                st.value.slice.lower = _Inline(env_b).visit(st.value.slice.lower)
            if st.value.slice.upper is not None:
                st.value.slice.upper = _Inline(env_b).visit(st.value.slice.upper)
            ast.fix_missing_locations(st)
            sets = []
            for ge, val in guards:
                dom = _const_domain(ge, lambda x: fold_expr(repo, mod, x)) if val else None
                if dom is not None:
                    sets.append(dom)
            if len(sets) != 1:
                continue
            var, tids = sets[0]
            for tid in tids:
                lo = fold_expr(repo, mod, st.value.slice.lower, env={var: tid}) if st.value.slice.lower is not None else 0
                hi = fold_expr(repo, mod, st.value.slice.upper, env={var: tid}) if st.value.slice.upper is not None else 0
                strips[tid] = (lo, hi)
    if not strips:
        raise Undecided('Lexer.lex: delimiter stripping `value = value[a:b]` under `tid in {...}` not recognised')
    for tid, (pre, suf) in sorted(delim.items()):
        want = (len(pre), -len(suf))
        ctx.require(strips.get(tid) == want, f'{tid}: the token value is the text between the delimiters {want}', mod, 'Lexer.lex', f'{tid}: value slice {strips.get(tid)}',
                    f'the value of a {tid} token is text[{strips.get(tid)}]; its regex delimiters are {pre!r} ... {suf!r}, so it must be text[{want[0]}:{want[1]}]', fn)
    # (b) StringNode decodes iff (escape requested and) not multiline
    init = mod.func('StringNode.__init__')
    ps = [a.arg for a in init.args.args[1:]]
    if len(ps) != 2:
        raise Undecided('StringNode.__init__: expected (token, escape)')
    tok, esc = ps
    ml_term = ('op', 'In', (('const', 'multiline'), ('name', f'{tok}.tid')))
    seen: T.Set[T.Tuple[T.Any, T.Any]] = set()
    for sp in sym_paths(init, mod=mod):
        if sp.outcome == 'raise':
            continue
        e_val = m_val = None
        mw = [_strip_calls(w) for w in sp.writes('self.is_multiline')]
        if mw:
            ml_term = mw[-1]            # whatever its spelling: its meaning per token kind is checked below over the declared kinds
        for t, v in sp.conds():
            if t == ('name', esc):
                e_val = v
            elif _strip_calls(t) == ml_term:
                m_val = v
            elif any(x == ('name', f'{tok}.tid') for x in subterms(t)):
                raise Undecided(f'StringNode.__init__: the token kind is tested as {show(t)}')
        vals = [_strip_calls(w) for w in sp.writes('self.value')]
        decoded = any(w == ('call', 'self.escape', None, (), ()) for w in vals)
        raw = [_strip_calls(w) for w in sp.writes('self.raw_value')]
        ctx.require(raw == [('name', f'{tok}.value')], 'StringNode: raw_value is the token text', mod, 'StringNode.__init__', f'raw_value := {[show(w) for w in raw]}',
                    'raw_value is not bound to the token text', sp.last_node)
        should = (e_val is not False) and (m_val is False)
        known = m_val is not None or e_val is False
        seen.add((e_val, m_val))
        if not known:
            ctx.violation(mod, 'StringNode.__init__', f'StringNode: decode={decoded} without multiline test', f'a path {"decodes" if decoded else "keeps"} the text without testing whether the token is multi-line', sp.last_node)
            continue
        ctx.require(decoded == should, f'StringNode: escape={e_val}, multiline={m_val} -> {"decoded" if should else "raw text"}', mod, 'StringNode.__init__',
                    f'StringNode: escape={e_val} multiline={m_val} decoded={decoded}',
                    f'with escape={e_val} and a {"multi-line" if m_val else "single-line"} token the value is {"decoded" if decoded else "left raw"}; '
                    "reference: '...' decodes escapes, '''...''' does not", sp.last_node)
    # meaning of is_multiline for each declared string token kind (finite domain: ALL_STRINGS): the reaching definition written to the
    # attribute (locals resolved) is folded with the token id replaced by each kind
    ml_terms = {_strip_calls(w) for sp in sym_paths(init, mod=mod) for w in sp.writes('self.is_multiline')}
    if len(ml_terms) != 1:
        raise Undecided('StringNode.__init__: is_multiline is not defined by one expression')
    mterm = next(iter(ml_terms))
    tid_term = ('name', f'{tok}.tid')

    def fold_term(t: T.Any, tid: str) -> T.Any:
        if t == tid_term:
            return tid
        if not isinstance(t, tuple):
            raise Undecided('is_multiline: unknown term')
        if t[0] == 'const':
            return t[1]
        if t[0] in ('tuple', 'list', 'set'):
            return [fold_term(x, tid) for x in t[1]]
        if t[0] == 'name' and '.' not in t[1] and mod.has_assign(t[1]):
            return fold_expr(repo, mod, ast.Name(id=t[1], ctx=ast.Load()))
        if t[0] == 'op':
            vs = [fold_term(x, tid) for x in t[2]]
            try:
                if t[1] == 'In':
                    return vs[0] in vs[1]
                if t[1] == 'NotIn':
                    return vs[0] not in vs[1]
                if t[1] in ('Eq', 'Is'):
                    return vs[0] == vs[1]
                if t[1] in ('NotEq', 'IsNot'):
                    return vs[0] != vs[1]
                if t[1] == 'Not':
                    return not vs[0]
                if t[1] == 'And':
                    return all(vs)
                if t[1] == 'Or':
                    return any(vs)
            except TypeError:
                pass
        raise Undecided(f'StringNode.__init__: is_multiline is defined by {show(t) if len(t) == 6 else t[0]}, which does not fold over the token kinds')
    idef = [st for st in ast.walk(init) if isinstance(st, ast.Assign) and len(st.targets) == 1 and norm(st.targets[0]) == 'self.is_multiline']
    for tid in strings:
        got_ml = fold_term(mterm, tid)
        if not isinstance(got_ml, bool):
            raise Undecided(f'StringNode.__init__: is_multiline does not fold to a boolean for the token kind {tid}')
        ctx.require(got_ml == ('multiline' in tid), f'StringNode: a {tid} token is {"" if "multiline" in tid else "not "}multi-line', mod, 'StringNode.__init__',
                    f'is_multiline for {tid}: {got_ml}', f'for a {tid} token is_multiline is computed as {got_ml}: '
                    "'''...''' literals are raw, '...' literals decode escapes", idef[0] if idef else init)
    ctx.require(any(m is False for _, m in seen) and any(m is True for _, m in seen), 'StringNode: both the single-line and the multi-line row exist', mod, 'StringNode.__init__',
                f'StringNode rows {sorted(map(str, seen))}', f'rows {sorted(map(str, seen))}', init)
    esc_fn = mod.func('StringNode.escape')
    regex_name = None
    callback = None
    verdicts = []
    for sp in sym_paths(esc_fn, mod=mod):
        if sp.outcome != 'return':
            continue
        subs = [t for t in subterms(sp.result) if is_call(t) and (t[2].endswith('.sub') or t[2] == 're.sub')]
        if len(subs) != 1:
            raise Undecided('StringNode.escape: no single regex substitution found')
        c = subs[0]
        args = list(c[4]) if c[2] != 're.sub' else list(c[4][1:])
        rname = c[2][:-4] if c[2] != 're.sub' else (c[4][0][1] if c[4] and c[4][0][0] == 'name' else None)
        if len(args) < 2 or rname is None or args[0][0] != 'name':
            raise Undecided('StringNode.escape: substitution call of unknown shape')
        regex_name, callback = rname, args[0][1]
        verdicts.append(args[1] == ('name', 'self.raw_value') and sp.result is c)
    if not verdicts:
        raise Undecided('StringNode.escape never returns')
    ctx.require(all(verdicts), f'StringNode.escape substitutes the matches of {regex_name} in raw_value through {callback}', mod, 'StringNode.escape', 'escape() subject',
                'escape() substitutes over something else than the raw token text (or post-processes the result)', esc_fn)
    if callback is None or not mod.has_func(callback):
        raise Undecided(f'StringNode.escape: replacement callback {callback} is not a module function')
    dm = mod.func(callback)
    codecs_calls = []
    for sp in sym_paths(dm, mod=mod):
        codecs_calls += [t for t in subterms(sp.result) if is_call(t, 'codecs.decode')]
    if not codecs_calls:
        raise Undecided(f'{callback}: no codecs.decode call found')
    ok = all(len(t[4]) == 2 and t[4][1] == ('const', 'unicode_escape') and 'group' in show(t[4][0]) for t in codecs_calls)
    ctx.require(ok, f'{callback} decodes the matched text with unicode_escape', mod, callback, 'escape decoding codec', f'{callback} does not decode the matched text with the unicode_escape codec', dm)
    # (c) the escape regex accepts exactly the documented escapes
    doc = documented_escapes(ctx)
    want = escape_reference(doc)
    reg = fold_expr(repo, mod, ast.parse(regex_name, mode='eval').body)
    if not isinstance(reg, Regex):
        raise Undecided(f'{regex_name} is not a compiled regex')
    node = mod.assign_value(regex_name) if mod.has_assign(regex_name) else esc_fn
    got = escape_alternatives(reg)
    ctx.floor('escape forms documented in Syntax.md', len(doc), 14)
    for d in sorted(want - got, key=_fmt_esc):
        near = [g for g in got if g[0] == d[0]]
        ctx.violation(mod, '<module>', f'escape regex lacks {_fmt_esc(d)}',
                      f'Syntax.md documents the escape form {_fmt_esc(d)}; the regex has {[_fmt_esc(g) for g in near] or "no alternative with this prefix"}', node)
    for g in sorted(got - want, key=_fmt_esc):
        ctx.violation(mod, '<module>', f'escape regex decodes {_fmt_esc(g)}', f'the regex decodes {_fmt_esc(g)}, which is not a documented escape form '
                      f'(documented: {sorted(_fmt_esc(w) for w in want)})', node)
    for d in sorted(want & got, key=_fmt_esc):
        ctx.ok(f'escape form {_fmt_esc(d)} is decoded exactly as documented')
    # (d) dict.keys() is sorted
    dmod = repo.module(HOLDERS['DictHolder'])
    km = None
    for st in dmod.cls('DictHolder').body:
        if isinstance(st, ast.FunctionDef) and any(isinstance(d, ast.Call) and (attr_chain(d.func) or '').endswith('.method') and d.args and isinstance(d.args[0], ast.Constant) and d.args[0].value == 'keys'
                                                   for d in st.decorator_list):
            km = st
    if km is None:
        ctx.violation(dmod, 'DictHolder', 'dict.keys method missing', 'DictHolder registers no `keys` method', dmod.cls('DictHolder'))
    else:
        meths = {s.name: s for s in dmod.cls('DictHolder').body if isinstance(s, ast.FunctionDef)}

        def results(f: ast.FunctionDef, depth: int = 0) -> T.List[T.Any]:
            out = []
            for sp in sym_paths(f):
                if sp.outcome != 'return':
                    continue
                r = sp.result
                if is_call(r) and r[3] is None and r[2].startswith('self.') and r[2][5:] in meths and not r[4] and depth < 2:
                    out.extend(results(meths[r[2][5:]], depth + 1))
                else:
                    out.append(r)
            return out
        rs = results(km)
        held = ('name', 'self.held_object')
        good = [('call', 'sorted', None, (held,), ()), ('call', 'sorted', None, (('call', '.keys', held, (), ()),), ()), ('call', 'sorted', None, (('call', 'self.held_object.keys', None, (), ()),), ())]
        ctx.require(bool(rs) and all(_strip_calls(r) in good for r in rs), 'dict.keys() returns sorted(held keys)', dmod, f'DictHolder.{km.name}', f'dict.keys result {[show(r) for r in rs]}',
                    f'dict.keys() returns {[show(r) for r in rs]}; the reference prescribes the sorted key list', km)

    from .c01_args import dict_values_order
    dict_values_order(ctx)


# ---------------------------------------------------------------------------
# R8
# ---------------------------------------------------------------------------

TYPES = {'str': 'StringHolder', 'array': 'ArrayHolder', 'dict': 'DictHolder', 'int': 'IntegerHolder', 'bool': 'BooleanHolder'}
DOC_FLOOR = {'str': 15, 'array': 5, 'dict': 4, 'int': 3, 'bool': 2}
POS_CHECK = {'noPosargs', 'typed_pos_args'}
KW_CHECK = {'noKwargs', 'typed_kwargs'}


def yaml_methods(text: str) -> T.List[str]:
    """Names of the top-level `methods:` list of a docs/yaml object file (indentation reader, no yaml module)."""
    out: T.List[str] = []
    in_methods = False
    item_indent: T.Optional[int] = None
    for line in text.splitlines():
        if not line.strip() or line.lstrip().startswith('#'):
            continue
        indent = len(line) - len(line.lstrip())
        if re.match(r'^[A-Za-z_]+:', line):
            in_methods = line.startswith('methods:')
            item_indent = None
            continue
        if not in_methods:
            continue
        if line.lstrip().startswith('- '):
            if item_indent is None:
                item_indent = indent
            if indent == item_indent:
                m = re.match(r'^\s*- name:\s*(\S+)\s*$', line)
                if not m:
                    raise Undecided(f'methods item does not start with `- name:`: {line!r}')
                out.append(m.group(1))
    return out


def registered_methods(repo: Repo, mod: Module, clsname: str) -> T.Dict[str, T.Tuple[Module, str, ast.FunctionDef]]:
    out: T.Dict[str, T.Tuple[Module, str, ast.FunctionDef]] = {}
    for m, c in reversed(mro_cached(repo, mod, clsname)):
        for st in c.body:
            if isinstance(st, ast.FunctionDef):
                for d in st.decorator_list:
                    if isinstance(d, ast.Call) and (attr_chain(d.func) or '') in ('InterpreterObject.method', 'ObjectHolder.method') and len(d.args) == 1:
                        if not (isinstance(d.args[0], ast.Constant) and isinstance(d.args[0].value, str)):
                            raise Undecided(f'{c.name}.{st.name}: method name is not a literal')
                        out[d.args[0].value] = (m, c.name, st)
    return out


def wrapper_transparency(dm: Module, name: str) -> T.Optional[str]:
    """None if decorator `name` hands attributes of the wrapped function through (returns it, or wraps it with functools.wraps);
    otherwise a description of the offending wrapper."""
    if dm.has_func(name):
        roots: T.List[ast.AST] = [dm.func(name)]
    elif dm.has_cls(name):
        roots = []
        for _, c in mro_cached(dm.repo, dm, name):
            roots += [s for s in c.body if isinstance(s, ast.FunctionDef) and s.name == '__call__']
        if not roots:
            return f'{name} has no __call__'
        roots = roots[:1]
    else:
        return f'decorator {name} not found in decorators.py'
    for root in roots:
        # functions that take the wrapped function as a parameter, and the nested wrappers that call it
        for outer in ast.walk(root):
            if not isinstance(outer, ast.FunctionDef):
                continue
            for w in outer.body:
                if isinstance(w, ast.FunctionDef):
                    params = {a.arg for a in outer.args.args}
                    called = {c.func.id for c in ast.walk(w) if isinstance(c, ast.Call) and isinstance(c.func, ast.Name)} & params
                    if called:
                        ok = any(isinstance(d, ast.Call) and (attr_chain(d.func) or '').split('.')[-1] == 'wraps' and d.args and norm(d.args[0]) in called for d in w.decorator_list)
                        if not ok:
                            return f'{name}: wrapper `{w.name}` replaces the decorated function without functools.wraps'
    return None


def r8(ctx: RuleCtx) -> None:
    repo = ctx.repo
    dm = repo.module(DECOR)
    transparent: T.Dict[str, T.Optional[str]] = {}
    for ty, holder in TYPES.items():
        mod = repo.module(HOLDERS[holder])
        doc = yaml_methods(repo.read(f'{YAML_DIR}{ty}.yml'))
        ctx.floor(f'documented methods of {ty}', len(doc), DOC_FLOOR[ty])
        reg = registered_methods(repo, mod, holder)
        if not reg:
            raise Undecided(f'{holder}: no `@InterpreterObject.method(name)` registration found - the registration idiom is not the one this rule reads')
        missing = sorted(set(doc) - set(reg))
        extra = sorted(set(reg) - set(doc))
        ctx.require(not missing, f'{ty}: every documented method is registered ({len(doc)})', mod, holder, f'{ty}: unregistered documented methods {missing}',
                    f'docs/yaml/elementary/{ty}.yml documents {missing}, which {holder} does not register: calling it is "Unknown method"', mod.cls(holder))
        ctx.require(not extra, f'{ty}: no undocumented method is registered', mod, holder, f'{ty}: undocumented methods {extra}',
                    f'{holder} registers {extra}, which docs/yaml/elementary/{ty}.yml does not document', reg[extra[0]][2] if extra else mod.cls(holder))
        for name, (m, cname, fn) in sorted(reg.items()):
            decos = []
            tag_i = None
            for i, d in enumerate(fn.decorator_list):
                n = attr_chain(d.func if isinstance(d, ast.Call) else d) or short(d)
                decos.append(n)
                if n.endswith('.method'):
                    tag_i = i
            names = {d.split('.')[-1] for d in decos}
            qn = f'{cname}.{fn.name}'
            ctx.require(bool(names & POS_CHECK) and bool(names & KW_CHECK), f'{ty}.{name}: positional and keyword arguments are checked ({sorted(names & (POS_CHECK | KW_CHECK))})', m, qn,
                        f'{ty}.{name}: argument checks {sorted(names & (POS_CHECK | KW_CHECK))}',
                        f'{ty}.{name}() is wrapped by {sorted(names & (POS_CHECK | KW_CHECK))} only: ill-typed or surplus {"keyword" if names & POS_CHECK else "positional"} arguments are not rejected', fn)
            above = decos[:tag_i] if tag_i is not None else []
            for d in above:
                base = d.split('.')[-1]
                if base not in transparent:
                    transparent[base] = wrapper_transparency(dm, base)
                why = transparent[base]
                ctx.require(why is None, f'{ty}.{name}: @{base} above the method tag keeps the tag visible', m, qn, f'{ty}.{name}: @{base} hides the tag', f'{why}: the meson_method tag of {qn} is lost and the method is never registered', fn)
    # the registration mechanism itself: __init_subclass__ collects functions carrying the tag set by InterpreterObject.method
    bm = repo.module('mesonbuild/interpreterbase/baseobjects.py')
    outer = bm.func('InterpreterObject.method')
    inner = [s_ for s_ in outer.body if isinstance(s_, ast.FunctionDef)]
    if len(inner) != 1 or len(inner[0].args.args) != 1 or len(outer.args.args) != 1:
        raise Undecided('InterpreterObject.method: not a one-argument decorator factory')
    mfn = inner[0]
    fp, np_ = mfn.args.args[0].arg, outer.args.args[0].arg
    ok = any(isinstance(s_, ast.Assign) and norm(s_.targets[0]) == f'{fp}.meson_method' and norm(s_.value) == np_ for s_ in mfn.body) and \
        any(isinstance(s_, ast.Return) and norm(s_.value) == fp for s_ in mfn.body)
    ctx.require(ok, 'InterpreterObject.method tags the function with meson_method = name and returns it', bm, 'InterpreterObject.method', 'method tag decorator', 'the method tag decorator no longer sets meson_method to the given name on the function it returns', mfn)
    isc = bm.func('InterpreterObject.__init_subclass__')
    stores = [n for n in ast.walk(isc) if isinstance(n, ast.Assign) and isinstance(n.targets[0], ast.Subscript) and norm(n.targets[0].value) == 'cls.METHODS'
              and isinstance(n.targets[0].slice, ast.Attribute) and n.targets[0].slice.attr == 'meson_method' and norm(n.targets[0].slice.value) == norm(n.value)]
    ctx.require(len(stores) == 1, '__init_subclass__ registers every tagged function under its tag', bm, 'InterpreterObject.__init_subclass__', 'METHODS registration', 'METHODS registration changed', isc)
