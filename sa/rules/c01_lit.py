"""C01.R7 (literals: escape decoding, sorted dict keys) and C01.R8 (documented method sets) - DESIGN section 2 C01."""
from __future__ import annotations

import ast
import re
import typing as T

from ..core import Module, Repo, Undecided, AnchorMissing, norm, short, attr_chain
from ..report import RuleCtx
from ..consteval import fold_expr, Regex
from .c01_sym import sym_paths, is_call, show, subterms
from .c01_parser import MPARSER, mro_cached
from .c01_ops import LexTables, _guarded, HOLDERS, DECOR, _strip_calls

SYNTAX_MD = 'docs/markdown/Syntax.md'
YAML_DIR = 'docs/yaml/elementary/'

# frozen copy of the documented escape list (Syntax.md, "The full list of escape sequences is"); cross-checked with the file at check time
ESCAPES_FROZEN = ['\\\\', "\\'", '\\a', '\\b', '\\f', '\\n', '\\r', '\\t', '\\v', '\\ooo', '\\xhh', '\\uxxxx', '\\Uxxxxxxxx', '\\N{name}']


def documented_escapes(ctx: RuleCtx) -> T.List[str]:
    try:
        text = ctx.repo.read(SYNTAX_MD)
    except AnchorMissing:
        ctx.note('Syntax.md not readable: using the frozen escape list')
        return list(ESCAPES_FROZEN)
    lines = text.splitlines()
    start = [i for i, l in enumerate(lines) if 'full list of escape sequences' in l]
    if len(start) != 1:
        raise Undecided('Syntax.md: the escape sequence list was not found')
    out: T.List[str] = []
    for l in lines[start[0] + 1:]:
        if not l.strip():
            if out:
                break
            continue
        m = re.match(r'^\* `([^`]+)`', l)
        if not m:
            break
        out.append(m.group(1))
    if out != ESCAPES_FROZEN:
        ctx.note(f'Syntax.md escape list differs from the frozen copy: {out}')
    return out


def escape_samples(doc: T.List[str]) -> T.Tuple[T.Set[str], T.Dict[str, T.List[str]], T.Dict[str, T.List[str]]]:
    """single-character escapes, positive samples and negative samples per parametrised form."""
    singles: T.Set[str] = set()
    pos: T.Dict[str, T.List[str]] = {}
    neg: T.Dict[str, T.List[str]] = {}
    for e in doc:
        body = e[1:]
        if len(body) == 1:
            singles.add(body)
        elif body == 'ooo':
            pos[e] = ['\\7', '\\17', '\\177', '\\000']
            neg[e] = ['\\8', '\\9', '\\1234']
        elif body == 'xhh':
            pos[e] = ['\\x4f', '\\xA0']
            neg[e] = ['\\x4', '\\xg0', '\\X41']
        elif body == 'uxxxx':
            pos[e] = ['\\u12aB']
            neg[e] = ['\\u12a', '\\u12ag']
        elif body == 'Uxxxxxxxx':
            pos[e] = ['\\U0001f600']
            neg[e] = ['\\U0001f60', '\\U0001f60g']
        elif body == 'N{name}':
            pos[e] = ['\\N{DASH}', '\\N{LATIN SMALL LETTER A}']
            neg[e] = ['\\N{}', '\\N{DASH', '\\NDASH', '\\n{DASH}x']
        else:
            raise Undecided(f'Syntax.md documents an escape form this rule does not know: {e}')
    return singles, pos, neg


def r7(ctx: RuleCtx) -> None:
    repo = ctx.repo
    mod = repo.module(MPARSER)
    lt = LexTables(ctx)
    # (a) which token kinds are multi-line strings, and how much of the token text is delimiter
    kinds = {"'a b'": ('string', False), "f'a b'": ('fstring', False), "'''a\nb'''": ('multiline_string', True), "f'''a\nb'''": ('multiline_fstring', True)}
    for text, (want, ml) in kinds.items():
        tid, v = lt.lex1(text + '\n')
        ctx.require(tid == want and v == text, f'{text!r} is one {want} token', mod, 'Lexer.__init__', f'lexing of {text!r}', f'{text!r} is lexed as ({tid}, {v!r}); reference: one {want} token',
                    lt.nodes['self.token_specification'])
    fn = mod.func('Lexer.lex')
    strips: T.Dict[str, T.Tuple[int, int]] = {}
    for st, guards in _guarded(fn.body, []):
        if isinstance(st, ast.Assign) and norm(st.targets[0]) == 'value' and isinstance(st.value, ast.Subscript) and norm(st.value.value) == 'value' and isinstance(st.value.slice, ast.Slice):
            sets = []
            for g, val in guards:
                ge = ast.parse(g, mode='eval').body
                if val and isinstance(ge, ast.Compare) and len(ge.ops) == 1 and isinstance(ge.ops[0], ast.In) and norm(ge.left) == 'tid' and isinstance(ge.comparators[0], ast.Set):
                    sets.append({e.value for e in ge.comparators[0].elts if isinstance(e, ast.Constant)})
            if len(sets) != 1:
                continue
            for tid in sets[0]:
                lo = fold_expr(repo, mod, st.value.slice.lower, env={'tid': tid}) if st.value.slice.lower is not None else 0
                hi = fold_expr(repo, mod, st.value.slice.upper, env={'tid': tid}) if st.value.slice.upper is not None else 0
                strips[tid] = (lo, hi)
    for tid in ('string', 'fstring', 'multiline_string', 'multiline_fstring'):
        opening = ('f' if 'fstring' in tid else '') + ("'''" if 'multiline' in tid else "'")
        want = (len(opening), -(3 if 'multiline' in tid else 1))
        ctx.require(strips.get(tid) == want, f'{tid}: the token value is the text between the delimiters {want}', mod, 'Lexer.lex', f'{tid}: value slice {strips.get(tid)}',
                    f'the value of a {tid} token is text[{strips.get(tid)}]; the delimiters are {opening!r} ... so it must be text[{want[0]}:{want[1]}]', fn)
    # (b) StringNode decodes iff (escape requested and) not multiline
    init = mod.func('StringNode.__init__')
    ps = [a.arg for a in init.args.args[1:]]
    if len(ps) != 2:
        raise Undecided('StringNode.__init__: expected (token, escape)')
    tok, esc = ps
    ml_term = ('op', 'In', (('const', 'multiline'), ('name', f'{tok}.tid')))
    seen: T.Set[T.Tuple[T.Any, T.Any]] = set()
    for sp in sym_paths(init):
        if sp.outcome == 'raise':
            continue
        e_val = m_val = None
        for t, v in sp.conds():
            if t == ('name', esc):
                e_val = v
            elif _strip_calls(t) == ml_term:
                m_val = v
        vals = [_strip_calls(w) for w in sp.writes('self.value')]
        decoded = any(w == ('call', 'self.escape', None, (), ()) for w in vals)
        raw = [_strip_calls(w) for w in sp.writes('self.raw_value')]
        ctx.require(raw == [('name', f'{tok}.value')], 'StringNode: raw_value is the token text', mod, 'StringNode.__init__', f'raw_value := {[show(w) for w in raw]}',
                    'raw_value is not bound to the token text', sp.last_node)
        should = (e_val is not False) and (m_val is False)
        known = m_val is not None or e_val is False
        seen.add((e_val, m_val))
        if not known:
            ctx.violation(mod, 'StringNode.__init__', f'StringNode: decode={decoded} without multiline test', f'a path {"decodes" if decoded else "keeps"} the text without testing whether the token is multi-line', sp.last_node)
            continue
        ctx.require(decoded == should, f'StringNode: escape={e_val}, multiline={m_val} -> {"decoded" if should else "raw text"}', mod, 'StringNode.__init__',
                    f'StringNode: escape={e_val} multiline={m_val} decoded={decoded}',
                    f'with escape={e_val} and a {"multi-line" if m_val else "single-line"} token the value is {"decoded" if decoded else "left raw"}; '
                    "reference: '...' decodes escapes, '''...''' does not", sp.last_node)
    ctx.require(any(m is False for _, m in seen) and any(m is True for _, m in seen), 'StringNode: both the single-line and the multi-line row exist', mod, 'StringNode.__init__',
                f'StringNode rows {sorted(map(str, seen))}', f'rows {sorted(map(str, seen))}', init)
    esc_fn = mod.func('StringNode.escape')
    ok = False
    for sp in sym_paths(esc_fn):
        r = _strip_calls(sp.result)
        ok = r == ('call', 'ESCAPE_SEQUENCE_SINGLE_RE.sub', None, (('name', 'decode_match'), ('name', 'self.raw_value')), ())
    ctx.require(ok, 'StringNode.escape substitutes ESCAPE_SEQUENCE_SINGLE_RE matches of raw_value through decode_match', mod, 'StringNode.escape', 'escape() body', 'escape() no longer substitutes the escape regex over raw_value', esc_fn)
    dm = mod.func('decode_match')
    ok = False
    for sp in sym_paths(dm):
        r = _strip_calls(sp.result)
        ok = isinstance(r, tuple) and r[:2] == ('call', 'codecs.decode') and r[3][1:] == (('const', 'unicode_escape'),) and 'group' in show(sp.result)
    ctx.require(ok, 'decode_match decodes the matched text with unicode_escape', mod, 'decode_match', 'decode_match body', 'decode_match does not decode the match with unicode_escape', dm)
    # (c) the escape regex accepts exactly the documented escapes
    doc = documented_escapes(ctx)
    singles, pos, neg = escape_samples(doc)
    reg = fold_expr(repo, mod, ast.Name(id='ESCAPE_SEQUENCE_SINGLE_RE', ctx=ast.Load()))
    if not isinstance(reg, Regex):
        raise Undecided('ESCAPE_SEQUENCE_SINGLE_RE is not a compiled regex')
    node = mod.assign_value('ESCAPE_SEQUENCE_SINGLE_RE')
    # concrete membership questions are put to the stdlib regex engine on the folded pattern
    # (sa.rx approximates counted repeats above 6, e.g. [0-9A-Fa-f]{8}; engine gap, worked around here)
    try:
        compiled = re.compile(reg.pattern, reg.flags)
    except re.error as e:
        raise Undecided(f'ESCAPE_SEQUENCE_SINGLE_RE does not compile: {e}')

    def full(s: str) -> bool:
        return compiled.fullmatch(s) is not None
    got_singles = set()
    for c in map(chr, range(32, 127)):
        if full('\\' + c):
            got_singles.add(c)
    octal = set('01234567') if any(e[1:] == 'ooo' for e in doc) else set()
    ctx.require(got_singles == singles | octal, f'single-character escapes are exactly {sorted(singles)} (+ octal digits)', mod, '<module>', f'ESCAPE_SEQUENCE_SINGLE_RE singles {sorted(got_singles - octal)}',
                f'the regex decodes backslash + {sorted(got_singles - octal)}; Syntax.md documents {sorted(singles)}: '
                f'undocumented {sorted(got_singles - singles - octal)}, missing {sorted((singles | octal) - got_singles)}', node)
    for e, samples in pos.items():
        bad = [s for s in samples if not full(s)]
        ctx.require(not bad, f'documented escape `{e}` is decoded', mod, '<module>', f'ESCAPE_SEQUENCE_SINGLE_RE misses {e}', f'the documented escape {e} is not matched (e.g. {bad})', node)
    for e, samples in neg.items():
        bad = [s for s in samples if full(s)]
        ctx.require(not bad, f'malformed `{e}` is left alone', mod, '<module>', f'ESCAPE_SEQUENCE_SINGLE_RE over-accepts near {e}', f'the regex also decodes {bad}, which is not of the documented form {e}', node)
    # (d) dict.keys() is sorted
    dmod = repo.module(HOLDERS['DictHolder'])
    km = None
    for st in dmod.cls('DictHolder').body:
        if isinstance(st, ast.FunctionDef) and any(isinstance(d, ast.Call) and (attr_chain(d.func) or '').endswith('.method') and d.args and isinstance(d.args[0], ast.Constant) and d.args[0].value == 'keys'
                                                   for d in st.decorator_list):
            km = st
    if km is None:
        ctx.violation(dmod, 'DictHolder', 'dict.keys method missing', 'DictHolder registers no `keys` method', dmod.cls('DictHolder'))
    else:
        meths = {s.name: s for s in dmod.cls('DictHolder').body if isinstance(s, ast.FunctionDef)}

        def results(f: ast.FunctionDef, depth: int = 0) -> T.List[T.Any]:
            out = []
            for sp in sym_paths(f):
                if sp.outcome != 'return':
                    continue
                r = sp.result
                if is_call(r) and r[3] is None and r[2].startswith('self.') and r[2][5:] in meths and not r[4] and depth < 2:
                    out.extend(results(meths[r[2][5:]], depth + 1))
                else:
                    out.append(r)
            return out
        rs = results(km)
        held = ('name', 'self.held_object')
        good = [('call', 'sorted', None, (held,), ()), ('call', 'sorted', None, (('call', '.keys', held, (), ()),), ()), ('call', 'sorted', None, (('call', 'self.held_object.keys', None, (), ()),), ())]
        ctx.require(bool(rs) and all(_strip_calls(r) in good for r in rs), 'dict.keys() returns sorted(held keys)', dmod, f'DictHolder.{km.name}', f'dict.keys result {[show(r) for r in rs]}',
                    f'dict.keys() returns {[show(r) for r in rs]}; the reference prescribes the sorted key list', km)


# ---------------------------------------------------------------------------
# R8
# ---------------------------------------------------------------------------

TYPES = {'str': 'StringHolder', 'array': 'ArrayHolder', 'dict': 'DictHolder', 'int': 'IntegerHolder', 'bool': 'BooleanHolder'}
DOC_FLOOR = {'str': 15, 'array': 5, 'dict': 4, 'int': 3, 'bool': 2}
POS_CHECK = {'noPosargs', 'typed_pos_args'}
KW_CHECK = {'noKwargs', 'typed_kwargs'}


def yaml_methods(text: str) -> T.List[str]:
    """Names of the top-level `methods:` list of a docs/yaml object file (indentation reader, no yaml module)."""
    out: T.List[str] = []
    in_methods = False
    item_indent: T.Optional[int] = None
    for line in text.splitlines():
        if not line.strip() or line.lstrip().startswith('#'):
            continue
        indent = len(line) - len(line.lstrip())
        if re.match(r'^[A-Za-z_]+:', line):
            in_methods = line.startswith('methods:')
            item_indent = None
            continue
        if not in_methods:
            continue
        if line.lstrip().startswith('- '):
            if item_indent is None:
                item_indent = indent
            if indent == item_indent:
                m = re.match(r'^\s*- name:\s*(\S+)\s*$', line)
                if not m:
                    raise Undecided(f'methods item does not start with `- name:`: {line!r}')
                out.append(m.group(1))
    return out


def registered_methods(repo: Repo, mod: Module, clsname: str) -> T.Dict[str, T.Tuple[Module, str, ast.FunctionDef]]:
    out: T.Dict[str, T.Tuple[Module, str, ast.FunctionDef]] = {}
    for m, c in reversed(mro_cached(repo, mod, clsname)):
        for st in c.body:
            if isinstance(st, ast.FunctionDef):
                for d in st.decorator_list:
                    if isinstance(d, ast.Call) and (attr_chain(d.func) or '') in ('InterpreterObject.method', 'ObjectHolder.method') and len(d.args) == 1:
                        if not (isinstance(d.args[0], ast.Constant) and isinstance(d.args[0].value, str)):
                            raise Undecided(f'{c.name}.{st.name}: method name is not a literal')
                        out[d.args[0].value] = (m, c.name, st)
    return out


def wrapper_transparency(dm: Module, name: str) -> T.Optional[str]:
    """None if decorator `name` hands attributes of the wrapped function through (returns it, or wraps it with functools.wraps);
    otherwise a description of the offending wrapper."""
    if dm.has_func(name):
        roots: T.List[ast.AST] = [dm.func(name)]
    elif dm.has_cls(name):
        roots = []
        for _, c in mro_cached(dm.repo, dm, name):
            roots += [s for s in c.body if isinstance(s, ast.FunctionDef) and s.name == '__call__']
        if not roots:
            return f'{name} has no __call__'
        roots = roots[:1]
    else:
        return f'decorator {name} not found in decorators.py'
    for root in roots:
        # functions that take the wrapped function as a parameter, and the nested wrappers that call it
        for outer in ast.walk(root):
            if not isinstance(outer, ast.FunctionDef):
                continue
            for w in outer.body:
                if isinstance(w, ast.FunctionDef):
                    params = {a.arg for a in outer.args.args}
                    called = {c.func.id for c in ast.walk(w) if isinstance(c, ast.Call) and isinstance(c.func, ast.Name)} & params
                    if called:
                        ok = any(isinstance(d, ast.Call) and (attr_chain(d.func) or '').split('.')[-1] == 'wraps' and d.args and norm(d.args[0]) in called for d in w.decorator_list)
                        if not ok:
                            return f'{name}: wrapper `{w.name}` replaces the decorated function without functools.wraps'
    return None


def r8(ctx: RuleCtx) -> None:
    repo = ctx.repo
    dm = repo.module(DECOR)
    transparent: T.Dict[str, T.Optional[str]] = {}
    for ty, holder in TYPES.items():
        mod = repo.module(HOLDERS[holder])
        doc = yaml_methods(repo.read(f'{YAML_DIR}{ty}.yml'))
        ctx.floor(f'documented methods of {ty}', len(doc), DOC_FLOOR[ty])
        reg = registered_methods(repo, mod, holder)
        missing = sorted(set(doc) - set(reg))
        extra = sorted(set(reg) - set(doc))
        ctx.require(not missing, f'{ty}: every documented method is registered ({len(doc)})', mod, holder, f'{ty}: unregistered documented methods {missing}',
                    f'docs/yaml/elementary/{ty}.yml documents {missing}, which {holder} does not register: calling it is "Unknown method"', mod.cls(holder))
        ctx.require(not extra, f'{ty}: no undocumented method is registered', mod, holder, f'{ty}: undocumented methods {extra}',
                    f'{holder} registers {extra}, which docs/yaml/elementary/{ty}.yml does not document', reg[extra[0]][2] if extra else mod.cls(holder))
        for name, (m, cname, fn) in sorted(reg.items()):
            decos = []
            tag_i = None
            for i, d in enumerate(fn.decorator_list):
                n = attr_chain(d.func if isinstance(d, ast.Call) else d) or short(d)
                decos.append(n)
                if n.endswith('.method'):
                    tag_i = i
            names = {d.split('.')[-1] for d in decos}
            qn = f'{cname}.{fn.name}'
            ctx.require(bool(names & POS_CHECK) and bool(names & KW_CHECK), f'{ty}.{name}: positional and keyword arguments are checked ({sorted(names & (POS_CHECK | KW_CHECK))})', m, qn,
                        f'{ty}.{name}: argument checks {sorted(names & (POS_CHECK | KW_CHECK))}',
                        f'{ty}.{name}() is wrapped by {sorted(names & (POS_CHECK | KW_CHECK))} only: ill-typed or surplus {"keyword" if names & POS_CHECK else "positional"} arguments are not rejected', fn)
            above = decos[:tag_i] if tag_i is not None else []
            for d in above:
                base = d.split('.')[-1]
                if base not in transparent:
                    transparent[base] = wrapper_transparency(dm, base)
                why = transparent[base]
                ctx.require(why is None, f'{ty}.{name}: @{base} above the method tag keeps the tag visible', m, qn, f'{ty}.{name}: @{base} hides the tag', f'{why}: the meson_method tag of {qn} is lost and the method is never registered', fn)
    # the registration mechanism itself: __init_subclass__ collects functions carrying the tag set by InterpreterObject.method
    bm = repo.module('mesonbuild/interpreterbase/baseobjects.py')
    mfn = bm.func('InterpreterObject.method.decorator')
    ok = any(isinstance(s, ast.Assign) and norm(s.targets[0]) == 'f.meson_method' and norm(s.value) == 'name' for s in mfn.body) and \
        any(isinstance(s, ast.Return) and norm(s.value) == 'f' for s in mfn.body)
    ctx.require(ok, 'InterpreterObject.method tags the function with meson_method = name and returns it', bm, 'InterpreterObject.method', 'method tag decorator', 'the method tag decorator changed', mfn)
    isc = bm.func('InterpreterObject.__init_subclass__')
    stores = [n for n in ast.walk(isc) if isinstance(n, ast.Assign) and norm(n.targets[0]) == 'cls.METHODS[method.meson_method]' and norm(n.value) == 'method']
    ctx.require(len(stores) == 1, '__init_subclass__ registers every tagged function under its tag', bm, 'InterpreterObject.__init_subclass__', 'METHODS registration', 'METHODS registration changed', isc)
