"""Decision tables with *ordered* rows for the C18 pack (helper on top of sa.paths / sa.tables).

`sa.tables.extract` keys a row's conditions by atom text and inlines only locals with a single definition at
the top level of the tabulated body.  `TAPParser.parse_line` re-binds `m` (four regex matches), `line`
(`line = line.rstrip()`) and tabulates locals defined in nested blocks (`num_tests`, `skipped`), so this helper
builds the rows itself from the engine's path enumeration:

* every path of `sa.paths.enumerate_paths(body)` becomes one row;
* local names are replaced by their **reaching definition on that path** (copy propagation: `m` becomes
  `self._RE_PLAN.match(ARG1.rstrip())`, `directive` becomes `ARG4.upper()`), parameters are renamed `ARGn` -
  so atoms are versioned by construction and a renamed or re-used local gives the same row;
* conditions are canonicalised with `sa.tables.canon`; a path that needs one atom both ways is dropped;
* the row keeps its conditions **and effects in evaluation order** (`items`), so a rule can ask "is this test
  evaluated after that assignment";
* the rows are wrapped in `sa.tables.Table`, so worlds (`table.worlds()`) and firing (`table.fire(world)`) are the
  engine's.

Nothing is evaluated: an effect is a normalised statement shape (`set self.state := self._YAML`,
`yield self.Error(...)`), compared structurally by the rules.
"""
from __future__ import annotations

import ast
import copy
import typing as T

from ..core import Undecided, attr_chain, norm, short
from ..paths import enumerate_paths, Event
from .. import tables
from ..tables import Atom


class Eff(T.NamedTuple):
    kind: str                    # set | aug | yield | yieldfrom | call
    target: str                  # set/aug: normalised target text, else ''
    value: T.Optional[ast.AST]   # substituted value expression
    op: str                      # aug: operator class name
    raw: ast.AST                 # the original statement (for locations)

    def __repr__(self) -> str:
        v = norm(self.value) if self.value is not None else ''
        if self.kind == 'set':
            return f'{self.target} := {v}'
        if self.kind == 'aug':
            return f'{self.target} {self.op}= {v}'
        return f'{self.kind} {v}'


class Item(T.NamedTuple):
    atom: T.Optional[Atom]       # condition item
    val: bool
    eff: T.Optional[Eff]         # effect item
    raw: ast.AST
    depth: int = 0               # > 0: the item comes from a spliced callee that is judged by its own table (see keep_forward)


class Row(tables.Row):
    items: T.List[Item]
    ints: T.List[T.Tuple[ast.Call, ast.AST]]    # int(<x>) calls evaluated on the row: (original call, operand over reaching definitions)
    final: T.Dict[str, ast.AST]                 # attribute chain written on the row -> its value on exit, over entry values
    exprs: T.List[T.Tuple[ast.AST, ast.AST, int]]    # (raw statement/condition, substituted copy, number of items evaluated before it)

    def effs(self, kind: T.Optional[str] = None, own: bool = False) -> T.List[Eff]:
        return [i.eff for i in self.items if i.eff is not None and (kind is None or i.eff.kind == kind) and (not own or i.depth == 0)]

    def through_handler(self) -> bool:
        """The row continues in an `except` handler (spliced helper or tabulated with handlers): the exceptional continuation."""
        return any(i.eff is not None and i.eff.kind == 'exc' for i in self.items)

    def inner_atoms(self) -> T.Set[Atom]:
        """Conditions evaluated inside spliced callees only (not by the tabulated body itself)."""
        own = {i.atom for i in self.items if i.atom is not None and i.depth == 0}
        return {i.atom for i in self.items if i.atom is not None and i.depth > 0} - own

    def index_of(self, pred: T.Callable[[Item], bool]) -> T.List[int]:
        return [k for k, i in enumerate(self.items) if pred(i)]


class _Sub(ast.NodeTransformer):
    def __init__(self, defs: T.Dict[str, ast.AST], params: T.Dict[str, str]):
        self.defs = defs
        self.params = params

    def visit_Name(self, n: ast.Name) -> ast.AST:
        if isinstance(n.ctx, ast.Load):
            if n.id in self.defs:
                return copy.deepcopy(self.defs[n.id])
            if n.id in self.params:
                return ast.Name(id=self.params[n.id], ctx=ast.Load())
        return n

    def visit_Attribute(self, n: ast.Attribute) -> ast.AST:
        if isinstance(n.ctx, ast.Load):
            c = attr_chain(n)
            if c is not None and c in self.defs:
                return copy.deepcopy(self.defs[c])
        return self.generic_visit(n)

    def visit_NamedExpr(self, n: ast.NamedExpr) -> ast.AST:
        # (x := e) is e here; the binding itself is recorded by the row builder
        return self.visit(n.value)

    def visit_Lambda(self, n: ast.Lambda) -> ast.AST:
        return n

    def visit_GeneratorExp(self, n: ast.GeneratorExp) -> ast.AST:
        return n

    visit_ListComp = visit_SetComp = visit_DictComp = visit_GeneratorExp   # type: ignore[assignment]


def _inlinable(v: ast.AST) -> bool:
    for n in ast.walk(v):
        if isinstance(n, (ast.Await, ast.Yield, ast.YieldFrom, ast.Lambda, ast.GeneratorExp, ast.ListComp, ast.SetComp, ast.DictComp)):
            return False
    return len(norm(v)) <= 800


def param_names(fn: T.Any) -> T.Dict[str, str]:
    out: T.Dict[str, str] = {}
    i = 0
    for a in fn.args.posonlyargs + fn.args.args:
        if a.arg in ('self', 'cls'):
            continue
        i += 1
        out[a.arg] = f'ARG{i}'
    return out


class _Frame:
    def __init__(self, locals_: T.Dict[str, ast.AST], params: T.Dict[str, str], depth: int, shadow: bool = False):
        self.locals = locals_
        self.params = params
        self.depth = depth
        self.shadow = shadow     # inside a callee that is also kept as a forwarding item: its items are judged by its own table


class _State:
    def __init__(self) -> None:
        self.fields: T.Dict[str, ast.AST] = {}      # attribute chains written on the path -> value over entry values
        self.conds: T.Dict[Atom, bool] = {}
        self.written: T.Set[str] = set()
        self.items: T.List[Item] = []
        self.exprs: T.List[T.Tuple[ast.AST, ast.AST, int]] = []
        self.ints: T.List[T.Tuple[ast.Call, ast.AST]] = []

    def copy(self) -> '_State':
        s = _State()
        s.fields, s.conds, s.written = dict(self.fields), dict(self.conds), set(self.written)
        s.items, s.exprs, s.ints = list(self.items), list(self.exprs), list(self.ints)
        return s


def _placeholder(text: str) -> ast.AST:
    """An opaque value (valid identifier, so that atom texts stay parseable)."""
    return ast.Name(id='_opaque_' + ''.join(ch if ch.isalnum() else '_' for ch in text), ctx=ast.Load())


HelperResolver = T.Callable[[str], T.Optional[T.Any]]


class Normal(ast.NodeTransformer):
    """Source-to-source normal form applied to every substituted expression: `Owner.m(self, a)` -> `self.m(a)`;
    a read of a class/module constant that folds to a text -> the text (`self._SKIP` -> 'SKIP')."""

    def __init__(self, owner: str = '', texts: T.Optional[T.Callable[[str], T.Optional[str]]] = None,
                 displays: T.Optional[T.Callable[[str], T.Optional[ast.Dict]]] = None):
        self.owner = owner
        self.texts = texts
        self.displays = displays       # chain -> the dict display a constant table is bound to
        self.records: T.Dict[str, T.List[str]] = {}      # NamedTuple record class (last name component) -> field names in order
        self.nonnull: T.Optional[T.Callable[[str], bool]] = None      # expression text -> it denotes a value that is never None (a declared enum member)

    def visit_Subscript(self, n: ast.Subscript) -> ast.AST:
        self.generic_visit(n)
        c = attr_chain(n.value) if isinstance(n.ctx, ast.Load) else None
        d = self.displays(c) if (c and self.displays is not None) else None
        if d is not None and all(isinstance(k, ast.Constant) for k in d.keys):
            keys = [k.value for k in d.keys]      # type: ignore[union-attr]
            if isinstance(n.slice, ast.Constant) and n.slice.value in keys:
                return copy.deepcopy(d.values[keys.index(n.slice.value)])
            if sorted(map(repr, keys)) == ['False', 'True'] and all(isinstance(k, bool) for k in keys):
                # TABLE[flag] over a table keyed by the two booleans: the conditional expression it stands for
                return ast.IfExp(test=n.slice, body=copy.deepcopy(d.values[keys.index(True)]), orelse=copy.deepcopy(d.values[keys.index(False)]))
        return n

    def visit_IfExp(self, n: ast.IfExp) -> ast.AST:
        """`a if <x> is [not] None else b` where x is the literal None or a value known not to be None (after copy propagation of a
        helper's result): the branch that is taken."""
        self.generic_visit(n)
        t = n.test
        neg = False
        while isinstance(t, ast.UnaryOp) and isinstance(t.op, ast.Not):
            t, neg = t.operand, not neg
        if isinstance(t, ast.Compare) and len(t.ops) == 1 and isinstance(t.ops[0], (ast.Is, ast.IsNot)) \
                and isinstance(t.comparators[0], ast.Constant) and t.comparators[0].value is None:
            is_none: T.Optional[bool] = None
            if isinstance(t.left, ast.Constant):
                is_none = t.left.value is None
            elif self.nonnull is not None and isinstance(t.left, (ast.Attribute, ast.Name)) and self.nonnull(norm(t.left)):
                is_none = False
            if is_none is not None:
                holds = (is_none == isinstance(t.ops[0], ast.Is)) != neg
                return n.body if holds else n.orelse
        return n

    def visit_Call(self, n: ast.Call) -> ast.AST:
        self.generic_visit(n)
        if isinstance(n.func, ast.Call) and attr_chain(n.func.func) in ('partial', 'functools.partial') and n.func.args:
            # partial(f, a, k=v)(b, j=w)  is  f(a, b, k=v, j=w)
            inner = n.func
            return self.visit(ast.Call(func=inner.args[0], args=list(inner.args[1:]) + list(n.args), keywords=list(inner.keywords) + list(n.keywords)))
        if self.owner and isinstance(n.func, ast.Attribute) and attr_chain(n.func.value) == self.owner and n.args \
                and isinstance(n.args[0], ast.Name) and n.args[0].id == 'self':
            return ast.Call(func=ast.Attribute(value=ast.Name(id='self', ctx=ast.Load()), attr=n.func.attr, ctx=ast.Load()), args=n.args[1:], keywords=n.keywords)
        return n

    def visit_Attribute(self, n: ast.Attribute) -> ast.AST:
        if self.texts is not None and isinstance(n.ctx, ast.Load):
            c = attr_chain(n)
            if c is not None:
                t = self.texts(c)
                if t is not None:
                    return ast.Constant(value=t)
        return self.generic_visit(n)

    def visit_Name(self, n: ast.Name) -> ast.AST:
        if self.texts is not None and isinstance(n.ctx, ast.Load):
            t = self.texts(n.id)
            if t is not None:
                return ast.Constant(value=t)
        return n


def _replace(e: ast.AST, target: ast.AST, new: ast.AST) -> ast.AST:
    """Copy of `e` with the sub-tree `target` (by identity) replaced by a copy of `new`."""
    if e is target:
        return copy.deepcopy(new)
    out = copy.copy(e)
    for name, val in ast.iter_fields(e):
        if isinstance(val, ast.AST):
            setattr(out, name, _replace(val, target, new))
        elif isinstance(val, list):
            setattr(out, name, [_replace(x, target, new) if isinstance(x, ast.AST) else x for x in val])
    return out


def _never_none(text: str) -> bool:
    """The expression text denotes a value that cannot be None whatever its operands are: an f-string, a container display,
    `'const'.format(..)` / `'const' % x`."""
    try:
        e = ast.parse(text, mode='eval').body
    except SyntaxError:
        return False
    if isinstance(e, (ast.JoinedStr, ast.Tuple, ast.List, ast.Dict, ast.Set)):
        return True
    if isinstance(e, ast.BinOp) and isinstance(e.op, ast.Mod) and isinstance(e.left, ast.Constant) and isinstance(e.left.value, str):
        return True
    if isinstance(e, ast.Call) and isinstance(e.func, ast.Attribute) and e.func.attr == 'format' and isinstance(e.func.value, ast.Constant) \
            and isinstance(e.func.value.value, str):
        return True
    return False


def _record_fields(v: ast.AST, conds: T.Dict[Atom, bool], normal: T.Optional['Normal'], arity: int) -> T.Optional[T.List[str]]:
    """Field names of the NamedTuple record class that `v` (a name / attribute chain) is an instance of on this path: exactly one
    `isinstance(v, K)` atom holds for it, K is a record class declared to the normal form, and the unpacking has its arity."""
    recs = getattr(normal, 'records', None) if normal is not None else None
    if not recs or not isinstance(v, (ast.Name, ast.Attribute)):
        return None
    text = norm(v)
    hits = [a for a, val in conds.items() if val and a.kind == 'isinstance' and a.args[0] == text and len(a.args[1]) == 1]
    if len(hits) != 1:
        return None
    fields = recs.get(hits[0].args[1][0].split('.')[-1])
    return list(fields) if fields is not None and len(fields) == arity else None


def _first_ifexp(e: ast.AST) -> T.Optional[ast.IfExp]:
    stack = [e]
    while stack:
        n = stack.pop()
        if isinstance(n, ast.IfExp):
            return n
        if isinstance(n, (ast.Lambda, ast.GeneratorExp, ast.ListComp, ast.SetComp, ast.DictComp, ast.JoinedStr)):
            continue
        stack.extend(reversed(list(ast.iter_child_nodes(n))))
    return None


def unroll_constant_loops(fn: T.Any) -> T.Any:
    """Normal form: a `for` over a constant display of (tuples of) expressions - written in place or bound once to a local -
    whose body has no break/continue/else is the sequence of its bodies, the loop variables replaced by the items
    (`for regex, handler in ((A, f), (B, g)): ...`  is  `...[A, f]; ...[B, g]`).  Returns a rewritten copy (or fn itself)."""
    singles: T.Dict[str, ast.AST] = {}
    stores: T.Dict[str, int] = {}
    for n in ast.walk(fn):
        if isinstance(n, ast.Name) and isinstance(n.ctx, ast.Store):
            stores[n.id] = stores.get(n.id, 0) + 1
    for n in ast.walk(fn):
        tgt = n.targets[0] if isinstance(n, ast.Assign) and len(n.targets) == 1 else (n.target if isinstance(n, ast.AnnAssign) else None)
        if isinstance(tgt, ast.Name) and stores.get(tgt.id) == 1 and isinstance(getattr(n, 'value', None), (ast.Tuple, ast.List)):
            singles[tgt.id] = n.value      # type: ignore[union-attr]
    changed = [False]

    def own_jumps(body: T.List[ast.stmt]) -> bool:
        stack: T.List[ast.AST] = list(body)
        while stack:
            x = stack.pop()
            if isinstance(x, (ast.Break, ast.Continue)):
                return True
            if isinstance(x, (ast.For, ast.AsyncFor, ast.While, ast.FunctionDef, ast.AsyncFunctionDef, ast.Lambda, ast.ClassDef)):
                continue
            stack.extend(ast.iter_child_nodes(x))
        return False

    class Unroll(ast.NodeTransformer):
        def _block(self, body: T.List[ast.stmt]) -> T.List[ast.stmt]:
            out: T.List[ast.stmt] = []
            for st in body:
                st2 = self.visit(st)
                if isinstance(st2, list):
                    out.extend(st2)
                else:
                    out.append(st2)
            return out

        def visit_For(self, n: ast.For) -> T.Any:
            self.generic_visit(n)
            it = n.iter
            if isinstance(it, ast.Name) and it.id in singles:
                it = singles[it.id]
            if not isinstance(it, (ast.Tuple, ast.List)) or n.orelse or own_jumps(n.body) or len(it.elts) > 12 or any(isinstance(e, ast.Starred) for e in it.elts):
                return n
            names: T.List[str]
            if isinstance(n.target, ast.Name):
                names = [n.target.id]
            elif isinstance(n.target, (ast.Tuple, ast.List)) and all(isinstance(t, ast.Name) for t in n.target.elts):
                names = [t.id for t in n.target.elts]       # type: ignore[attr-defined]
            else:
                return n
            out: T.List[ast.stmt] = []
            for item in it.elts:
                vals = [item] if isinstance(n.target, ast.Name) else (list(item.elts) if isinstance(item, (ast.Tuple, ast.List)) and len(item.elts) == len(names) else None)
                if vals is None:
                    return n
                if any(stores.get(nm, 0) > 1 for nm in names):
                    return n        # the loop variable is also assigned elsewhere
                out.extend(_Sub(dict(zip(names, vals)), {}).visit(copy.deepcopy(b)) for b in n.body)
            changed[0] = True
            return out
    new = Unroll().visit(copy.deepcopy(fn))
    if not changed[0]:
        return fn
    return ast.fix_missing_locations(new)


def _alts(e: ast.AST, val: bool) -> T.List[T.List[T.Tuple[ast.AST, bool]]]:
    """Ways a (substituted) condition can take the value `val`, as lists of (atom expression, value) in evaluation order:
    and/or/not are decomposed the way sa.paths decomposes the test of an `if` (a condition named as a local first, then tested)."""
    if isinstance(e, ast.UnaryOp) and isinstance(e.op, ast.Not):
        return _alts(e.operand, not val)
    if isinstance(e, ast.Constant):
        return [[]] if bool(e.value) == val else []
    if isinstance(e, ast.Call) and isinstance(e.func, ast.Name) and e.func.id == 'bool' and len(e.args) == 1 and not e.keywords \
            and not isinstance(e.args[0], ast.Starred):
        return _alts(e.args[0], val)        # bool(x) in a tested position is the truth value of x
    if isinstance(e, ast.Call) and isinstance(e.func, ast.Name) and e.func.id == 'isinstance' and len(e.args) == 2 and not e.keywords \
            and isinstance(e.args[1], ast.Tuple) and e.args[1].elts and not any(isinstance(x, ast.Starred) for x in e.args[1].elts):
        # isinstance(x, (A, B)) is isinstance(x, A) or isinstance(x, B)
        return _alts(ast.BoolOp(op=ast.Or(), values=[ast.Call(func=e.func, args=[e.args[0], k], keywords=[]) for k in e.args[1].elts]), val)
    if isinstance(e, ast.BoolOp):
        is_and = isinstance(e.op, ast.And)
        if is_and == val:      # every operand takes `val`
            out: T.List[T.List[T.Tuple[ast.AST, bool]]] = [[]]
            for x in e.values:
                out = [a + b for a in out for b in _alts(x, val)]
            return out
        res: T.List[T.List[T.Tuple[ast.AST, bool]]] = []
        for k in range(len(e.values)):      # the first k operands do not decide, operand k does
            pre: T.List[T.List[T.Tuple[ast.AST, bool]]] = [[]]
            for x in e.values[:k]:
                pre = [a + b for a in pre for b in _alts(x, not val)]
            res += [a + b for a in pre for b in _alts(e.values[k], val)]
        return res
    cx = _first_ifexp(e)
    if cx is not None and cx is not e:
        # a conditional expression inside an atom (a local bound to `a if c else b`, then tested): the atom holds on the branch c picks
        out2: T.List[T.List[T.Tuple[ast.AST, bool]]] = []
        for tv, branch in ((True, cx.body), (False, cx.orelse)):
            out2 += [a + b for a in _alts(cx.test, tv) for b in _alts(_replace(e, cx, branch), val)]
        return out2
    if cx is e:
        return [a + b for tv, branch in ((True, e.body), (False, e.orelse)) for a in _alts(e.test, tv) for b in _alts(branch, val)]   # type: ignore[attr-defined]
    return [[(e, val)]]


def build(fn: T.Any, body: T.List[ast.stmt], name: str, seed: T.Optional[T.Dict[str, ast.AST]] = None,
          handlers: bool = False, helpers: T.Optional[HelperResolver] = None,
          keep_forward: T.Collection[str] = (), normal: T.Optional[Normal] = None) -> T.Tuple[tables.Table, T.Dict[str, ast.AST]]:
    """Ordered decision table of `body` (a statement list of `fn`); `seed` = reaching definitions of locals on entry
    (already substituted).  `helpers(name)` resolves `self.<name>` to a method of the same class whose paths are spliced
    into the row where it is called as a statement (`yield from self.h(...)` / `self.h(...)`), two levels deep.
    For a callee named in `keep_forward` the forwarding statement itself is kept as an item as well (the caller's operands stay visible).
    Returns the table and the definitions on exit that all normally-completing rows agree on."""
    rows: T.List[tables.Row] = []
    exit_box: T.List[T.Optional[T.Dict[str, ast.AST]]] = [None]
    hpaths: T.Dict[int, T.Any] = {}

    def helper_call(v: ast.AST, want_gen: bool, depth: int) -> T.Optional[T.Tuple[T.Any, T.Dict[str, ast.AST]]]:
        """(callee, {parameter: substituted operand}) when `v` is `self.h(...)` of a resolvable same-class helper."""
        if helpers is not None and depth < 2 and isinstance(v, ast.Attribute) and isinstance(v.ctx, ast.Load) and isinstance(v.value, ast.Name) \
                and v.value.id == 'self' and not want_gen:
            # `self.p` of a read-only @property: a call without operands
            prop = helpers(v.attr)
            if prop is not None and isinstance(prop, ast.FunctionDef) and [attr_chain(d) for d in prop.decorator_list] == ['property'] \
                    and not any(isinstance(n, (ast.Yield, ast.YieldFrom)) for n in ast.walk(prop)):
                return prop, {}
            return None
        if helpers is None or depth >= 2 or not isinstance(v, ast.Call):
            return None
        module_level = isinstance(v.func, ast.Name)
        if module_level:
            callee = helpers('.' + v.func.id)          # a module-level function of the same file (resolver convention: leading dot)
        elif isinstance(v.func, ast.Attribute) and isinstance(v.func.value, ast.Name) and v.func.value.id == 'self':
            callee = helpers(v.func.attr)
        else:
            return None
        if callee is None:
            return None
        decos = [attr_chain(d) for d in callee.decorator_list]
        if module_level:
            if decos:
                return None
            decos = ['staticmethod']                   # no bound first parameter
        if any(d != 'staticmethod' for d in decos) or isinstance(callee, ast.AsyncFunctionDef):
            return None
        is_gen = any(isinstance(n, (ast.Yield, ast.YieldFrom)) for n in ast.walk(callee))
        if is_gen != want_gen:
            return None
        ps = [a.arg for a in callee.args.posonlyargs + callee.args.args][(0 if decos else 1):]
        if callee.args.vararg or callee.args.kwarg or callee.args.kwonlyargs or any(isinstance(a, ast.Starred) for a in v.args) or len(v.args) > len(ps):
            return None
        bound: T.Dict[str, ast.AST] = dict(zip(ps, v.args))
        for k in v.keywords:
            if k.arg is None or k.arg not in ps or k.arg in bound:
                return None
            bound[k.arg] = k.value
        for pn, d in zip(ps[len(ps) - len(callee.args.defaults):], callee.args.defaults):
            bound.setdefault(pn, d)
        if set(bound) != set(ps):
            return None
        return callee, bound

    class _InlineTrivial(ast.NodeTransformer):
        """`self.h(a)` inside an expression, where h is `def h(self, p): return <expr>` (no other statement): the expression, with p := a."""

        def __init__(self, depth: int, fields: T.Dict[str, ast.AST]):
            self.depth = depth
            self.fields = fields        # field values as of now: the inlined body reads them, its operands are already substituted

        def visit_Call(self, n: ast.Call) -> ast.AST:
            self.generic_visit(n)
            hc = helper_call(n, False, self.depth)
            if hc is None:
                return n
            callee, bound = hc
            body = [b for b in callee.body if not (isinstance(b, ast.Expr) and isinstance(b.value, ast.Constant))]
            if len(body) != 1 or not isinstance(body[0], ast.Return) or body[0].value is None or any(isinstance(x, (ast.Yield, ast.YieldFrom, ast.Await, ast.Lambda))
                                                                                                    for x in ast.walk(body[0].value)):
                return n
            inner = _InlineTrivial(self.depth + 1, self.fields).visit(_Sub(dict(self.fields), {}).visit(copy.deepcopy(body[0].value)))
            return _Sub(dict(bound), {}).visit(inner)

        def visit_Attribute(self, n: ast.Attribute) -> ast.AST:
            """`self.p` where p is a read-only `@property` of the same class whose body is one `return <expr>` (a named predicate /
            derived value): the expression, over the field values as of now."""
            self.generic_visit(n)
            if helpers is None or self.depth >= 3 or not isinstance(n.ctx, ast.Load) or not (isinstance(n.value, ast.Name) and n.value.id == 'self'):
                return n
            callee = helpers(n.attr)
            if callee is None or isinstance(callee, ast.AsyncFunctionDef) or [attr_chain(d) for d in callee.decorator_list] != ['property']:
                return n
            body = [b for b in callee.body if not (isinstance(b, ast.Expr) and isinstance(b.value, ast.Constant))]
            if len(body) != 1 or not isinstance(body[0], ast.Return) or body[0].value is None or any(isinstance(x, (ast.Yield, ast.YieldFrom, ast.Await, ast.Lambda, ast.NamedExpr))
                                                                                                    for x in ast.walk(body[0].value)):
                return n
            return _InlineTrivial(self.depth + 1, self.fields).visit(_Sub(dict(self.fields), {}).visit(copy.deepcopy(body[0].value)))

    cond_no = [0]

    def _single_return(callee: T.Any) -> bool:
        body = [b for b in callee.body if not (isinstance(b, ast.Expr) and isinstance(b.value, ast.Constant))]
        return len(body) == 1 and isinstance(body[0], ast.Return)

    def _nested_helper_call(e: ast.AST, depth: int, allow_top: bool) -> T.Optional[ast.AST]:
        """The first `self.h(..)` / `self.p` inside `e` that resolves to a helper with a body of its own (more than one `return <expr>`,
        which is inlined as an expression)."""
        stack = [e]
        while stack:
            x = stack.pop(0)
            if isinstance(x, (ast.Lambda, ast.GeneratorExp, ast.ListComp, ast.SetComp, ast.DictComp)):
                continue
            if (x is not e or allow_top) and isinstance(x, (ast.Call, ast.Attribute)):
                hc = helper_call(x, False, depth)
                if hc is not None and not _single_return(hc[0]):
                    return x
            stack.extend(ast.iter_child_nodes(x))
        return None

    def _mk(fr: _Frame, atom: T.Optional[Atom], val: bool, eff: T.Optional[Eff], raw: ast.AST) -> Item:
        return Item(atom, val, eff, raw, 1 if fr.shadow else 0)

    def proc(events: T.List[T.Any], i: int, st: _State, fr: _Frame, done: T.Callable[[_State, _Frame], None]) -> None:
        def sub(e: ast.AST) -> ast.AST:
            x = _Sub({**st.fields, **fr.locals}, fr.params).visit(copy.deepcopy(e))
            if helpers is not None:
                x = _InlineTrivial(fr.depth, st.fields).visit(x)
            return normal.visit(x) if normal is not None else x

        def setlocal(nm: str, v: ast.AST) -> None:
            fr.locals[nm] = v if _inlinable(v) else _placeholder(f'{nm} after assignment')

        def bind_walrus(e: ast.AST) -> None:
            for n in ast.walk(e):
                if isinstance(n, ast.NamedExpr) and isinstance(n.target, ast.Name):
                    setlocal(n.target.id, sub(n.value))
        while i < len(events):
            ev = events[i]
            i += 1
            node = ev.node
            if node is None:
                continue
            if ev.kind in ('cond', 'stmt'):
                for c in ast.walk(node):
                    if isinstance(c, ast.Call) and isinstance(c.func, ast.Name) and c.func.id == 'int' and len(c.args) == 1:
                        st.ints.append((c, sub(c.args[0])))
            if ev.kind == 'cond':
                c0 = _nested_helper_call(node, fr.depth, True)
                if c0 is not None:
                    # `if self.h(..):` / `if self.p:` / `if (v := self.h(..)) is not None:` on a helper with a body of its own: read as
                    # `t = self.h(..); if t:` (the callee's paths are spliced, the test is on what each path returns)
                    cond_no[0] += 1
                    tmp = f'_cond_{cond_no[0]}_'
                    synth0 = ast.copy_location(ast.Assign(targets=[ast.Name(id=tmp, ctx=ast.Store())], value=c0), node)
                    test0 = ast.fix_missing_locations(ast.copy_location(_replace(node, c0, ast.Name(id=tmp, ctx=ast.Load())), node))
                    events = events[:i - 1] + [Event('stmt', synth0, None), Event('cond', test0, ev.val)] + events[i:]
                    i -= 1
                    continue
                e = sub(node)
                bind_walrus(node)
                alts = _alts(e, bool(ev.val))
                forks: T.List[_State] = []
                for alt in alts:
                    st2 = st if len(alts) == 1 else st.copy()
                    ok = True
                    for x, xv in alt:
                        a, v = tables.canon(x, xv)
                        if a.kind in ('cmp', 'is') and len(a.args) >= 2 and a.args[-1] == a.args[-2] and (a.kind == 'is' or a.args[0] == 'eq'):
                            if not v:       # x == x / x is x observed false: not a path
                                ok = False
                                break
                            continue
                        if a.kind in ('cmp', 'is') and (a.kind == 'is' or a.args[0] == 'eq'):
                            try:
                                l_, r_ = ast.literal_eval(a.args[-2]), ast.literal_eval(a.args[-1])
                                folded: T.Optional[bool] = (l_ is r_ or (a.kind == 'cmp' and l_ == r_ and type(l_) is type(r_)))
                            except (ValueError, SyntaxError):
                                folded = None
                            if folded is not None:      # both sides are literals: fold (None == 'TODO' is false)
                                if folded != v:
                                    ok = False
                                    break
                                continue
                        if a.kind == 'truth':
                            try:
                                lit = ast.literal_eval(a.args[0])
                                if bool(lit) != v:
                                    ok = False
                                    break
                                continue
                            except (ValueError, SyntaxError):
                                pass
                        if a.kind == 'is' and a.args[1] == 'None' and a.args[0].endswith(')') and any(
                                a.args[0].endswith(f'.{meth}()') for meth in ('upper', 'lower', 'casefold', 'strip', 'rstrip', 'lstrip', 'title', 'capitalize')):
                            if v:           # a str method never returns None
                                ok = False
                                break
                            continue
                        if a.kind == 'is' and a.args[1] == 'None' and normal is not None and normal.nonnull is not None and normal.nonnull(a.args[0]):
                            if v:           # a member of a declared enum is not None
                                ok = False
                                break
                            continue
                        if a.kind == 'is' and a.args[1] == 'None' and _never_none(a.args[0]):
                            if v:           # an f-string / a display / a formatted text is a value, never None
                                ok = False
                                break
                            continue
                        if a.kind == 'is' and a.args[1] == 'None' and a.args[0].startswith('int(') and a.args[0].endswith(')'):
                            if v:           # the result of int(...) is never None
                                ok = False
                                break
                            continue
                        if a in st2.conds and st2.conds[a] != v:
                            ok = False
                            break
                        st2.conds[a] = v
                        st2.items.append(_mk(fr, a, v, None, node))
                        st2.exprs.append((node, x, len(st2.items) - 1))
                    if ok:
                        forks.append(st2)
                if len(alts) == 1 and forks:
                    continue
                for st2 in forks:
                    proc(events, i, st2, _Frame(dict(fr.locals), fr.params, fr.depth, fr.shadow), done)
                return
            elif ev.kind == 'exc':
                st.items.append(_mk(fr, None, True, Eff('exc', '', None, '', node), node))
            elif ev.kind == 'stmt':
                s_ = node
                hv = getattr(s_, 'value', None)
                hgen = isinstance(hv, ast.YieldFrom)
                if isinstance(s_, (ast.Assign, ast.AnnAssign, ast.AugAssign)) and hv is not None and not hgen:
                    c0 = _nested_helper_call(hv, fr.depth, False)
                    if c0 is not None:
                        # `x = self.h(..) or x`: the helper call is named first (`t = self.h(..); x = t or x`), so that its paths are spliced
                        cond_no[0] += 1
                        tmp = f'_cond_{cond_no[0]}_'
                        synth0 = ast.copy_location(ast.Assign(targets=[ast.Name(id=tmp, ctx=ast.Store())], value=c0), s_)
                        s2 = copy.copy(s_)
                        s2.value = _replace(hv, c0, ast.Name(id=tmp, ctx=ast.Load()))
                        events = events[:i - 1] + [Event('stmt', synth0, None), Event('stmt', ast.fix_missing_locations(s2), None)] + events[i:]
                        i -= 1
                        continue
                    if isinstance(hv, ast.BoolOp) and isinstance(hv.values[0], ast.Name) and hv.values[0].id.startswith('_cond_') and not isinstance(s_, ast.AugAssign):
                        # `x = t or rest` on a spliced helper result t: `x = t` where t is true, `x = rest` where it is not (and dually for `and`)
                        is_or = isinstance(hv.op, ast.Or)
                        rest_v: ast.AST = hv.values[1] if len(hv.values) == 2 else ast.BoolOp(op=hv.op, values=list(hv.values[1:]))
                        for tv in (True, False):
                            s2 = copy.copy(s_)
                            s2.value = hv.values[0] if tv == is_or else rest_v
                            evs = [Event('cond', hv.values[0], tv), Event('stmt', ast.fix_missing_locations(s2), None)] + events[i:]
                            proc(evs, 0, st.copy(), _Frame(dict(fr.locals), fr.params, fr.depth, fr.shadow), done)
                        return
                if isinstance(s_, (ast.Assign, ast.AnnAssign)) and (isinstance(s_, ast.AnnAssign) or len(s_.targets) == 1) and hv is not None \
                        and helper_call(hv.value if hgen else hv, hgen, fr.depth) is not None:
                    # x = self.h(...) / x = yield from self.gen(...): splice the callee's paths, x receives what the path returns
                    callee, bound = T.cast(T.Tuple[T.Any, T.Dict[str, ast.AST]], helper_call(hv.value if hgen else hv, hgen, fr.depth))
                    if id(callee) not in hpaths:
                        hpaths[id(callee)] = enumerate_paths(callee.body, unroll=1, handlers=any(isinstance(n, ast.Try) for n in ast.walk(callee)))
                    args = {pn: sub(x) for pn, x in bound.items()}
                    tgt = s_.targets[0] if isinstance(s_, ast.Assign) else s_.target
                    rest_events, rest_i, caller = events, i, fr
                    for hp in hpaths[id(callee)]:
                        if hp.outcome == 'raise':
                            raise Undecided(f'{name}: helper {callee.name} can raise explicitly')
                        st2 = st.copy()
                        hfr = _Frame({pn: (x if _inlinable(x) else _placeholder(pn)) for pn, x in args.items()}, {}, fr.depth + 1, fr.shadow)
                        cfr = _Frame(dict(caller.locals), caller.params, caller.depth, caller.shadow)

                        def after(s3: _State, hf: _Frame, hp: T.Any = hp, cfr: _Frame = cfr) -> None:
                            rv: ast.AST = ast.Constant(value=None)
                            if hp.outcome == 'return' and hp.value is not None:
                                rv = _Sub({**s3.fields, **hf.locals}, hf.params).visit(copy.deepcopy(hp.value))
                                rv = normal.visit(rv) if normal is not None else rv
                            synth = ast.copy_location(ast.Assign(targets=[tgt], value=ast.Name(id='_helper_result_', ctx=ast.Load())), s_)
                            cfr.locals['_helper_result_'] = rv if _inlinable(rv) else _placeholder('helper result')
                            proc([Event('stmt', synth, None)] + rest_events[rest_i:], 0, s3, cfr, done)
                        proc(hp.events, 0, st2, hfr, after)
                    return
                if isinstance(s_, ast.Assign) and len(s_.targets) == 1:
                    v = sub(s_.value)
                    bind_walrus(s_.value)
                    t = s_.targets[0]
                    st.exprs.append((s_, v, len(st.items)))
                    if isinstance(t, ast.Name):
                        setlocal(t.id, v)
                        st.items.append(_mk(fr, None, True, Eff('set', fr.params.get(t.id, t.id), v, '', s_), s_))
                    elif isinstance(t, (ast.Tuple, ast.List)):
                        names = [x.id if isinstance(x, ast.Name) else None for x in t.elts]
                        if (isinstance(v, ast.Call) and isinstance(v.func, ast.Attribute) and v.func.attr == 'groups' and not v.args and not v.keywords
                                and all(names)):
                            # re.Match.groups() is (group(1), ..., group(n)): bind each target to its group
                            for k, nm in enumerate(names):
                                setlocal(T.cast(str, nm), ast.Call(func=ast.Attribute(value=copy.deepcopy(v.func.value), attr='group', ctx=ast.Load()),
                                                                  args=[ast.Constant(value=k + 1)], keywords=[]))
                            st.items.append(_mk(fr, None, True, Eff('unpack', str(len(names)), v, '', s_), s_))
                        elif isinstance(v, (ast.Tuple, ast.List)) and len(v.elts) == len(t.elts) and all(names):
                            for nm, x in zip(names, v.elts):
                                setlocal(T.cast(str, nm), x)
                        elif _record_fields(v, st.conds, normal, len(t.elts)) is not None and all(names):
                            # a NamedTuple record (its class known from an `isinstance` atom that holds on the path) is (v.f1, ..., v.fn)
                            for nm, fld in zip(names, T.cast(T.List[str], _record_fields(v, st.conds, normal, len(t.elts)))):
                                setlocal(T.cast(str, nm), ast.Attribute(value=copy.deepcopy(v), attr=fld, ctx=ast.Load()))
                            st.items.append(_mk(fr, None, True, Eff('unpack', str(len(names)), v, '', s_), s_))
                        else:
                            for nm in names:
                                if nm:
                                    fr.locals[nm] = _placeholder(f'unpacked {nm}')
                            st.items.append(_mk(fr, None, True, Eff('set', norm(sub(t)), v, '', s_), s_))
                    else:
                        c = attr_chain(t)
                        st.items.append(_mk(fr, None, True, Eff('set', c or norm(sub(t)), v, '', s_), s_))
                        if c is not None:
                            for k_ in [k_ for k_ in st.fields if k_.startswith(c + '.')]:
                                del st.fields[k_]
                            st.fields[c] = v if _inlinable(v) else _placeholder(f'{c} after assignment')
                            st.written.add(c)
                elif isinstance(s_, ast.AnnAssign) and s_.value is not None:
                    v = sub(s_.value)
                    st.exprs.append((s_, v, len(st.items)))
                    if isinstance(s_.target, ast.Name):
                        setlocal(s_.target.id, v)
                        st.items.append(_mk(fr, None, True, Eff('set', s_.target.id, v, '', s_), s_))
                    else:
                        c = attr_chain(s_.target)
                        st.items.append(_mk(fr, None, True, Eff('set', c or norm(sub(s_.target)), v, '', s_), s_))
                        if c is not None:
                            st.fields[c] = v if _inlinable(v) else _placeholder(f'{c} after assignment')
                            st.written.add(c)
                elif isinstance(s_, ast.AugAssign):
                    v = sub(s_.value)
                    st.exprs.append((s_, v, len(st.items)))
                    if isinstance(s_.target, ast.Name):
                        cur = sub(ast.Name(id=s_.target.id, ctx=ast.Load()))
                        setlocal(s_.target.id, ast.BinOp(left=cur, op=s_.op, right=v))
                        st.items.append(_mk(fr, None, True, Eff('aug', fr.params.get(s_.target.id, s_.target.id), v, type(s_.op).__name__, s_), s_))
                    else:
                        c = attr_chain(s_.target)
                        st.items.append(_mk(fr, None, True, Eff('aug', c or norm(sub(s_.target)), v, type(s_.op).__name__, s_), s_))
                        if c is not None:
                            cur = sub(ast.Attribute(value=s_.target.value, attr=s_.target.attr, ctx=ast.Load()))   # type: ignore[attr-defined]
                            nv = ast.BinOp(left=cur, op=s_.op, right=v)
                            st.fields[c] = nv if _inlinable(nv) else _placeholder(f'{c} after assignment')
                            st.written.add(c)
                elif isinstance(s_, ast.Expr):
                    val = s_.value
                    if isinstance(val, ast.Constant):
                        continue
                    is_yf = isinstance(val, ast.YieldFrom)
                    hc = helper_call(val.value if is_yf else val, is_yf, fr.depth) if isinstance(val, (ast.YieldFrom, ast.Call)) else None
                    if hc is not None:
                        callee, bound = hc
                        if callee.name in keep_forward:
                            v = sub(val.value if is_yf else val)
                            st.items.append(_mk(fr, None, True, Eff('yieldfrom' if is_yf else 'call', '', v, '', s_), s_))
                            st.exprs.append((s_, v, len(st.items)))
                        if id(callee) not in hpaths:
                            hpaths[id(callee)] = enumerate_paths(callee.body, unroll=1, handlers=handlers or any(isinstance(n, ast.Try) for n in ast.walk(callee)))
                        args = {pn: sub(x) for pn, x in bound.items()}
                        rest_events, rest_i, caller = events, i, fr
                        for hp in hpaths[id(callee)]:
                            if hp.outcome == 'raise':
                                raise Undecided(f'{name}: helper {callee.name} can raise explicitly')
                            st2 = st.copy()
                            hfr = _Frame({pn: (x if _inlinable(x) else _placeholder(pn)) for pn, x in args.items()}, {}, fr.depth + 1, fr.shadow or callee.name in keep_forward)
                            cfr = _Frame(dict(caller.locals), caller.params, caller.depth, caller.shadow)
                            proc(hp.events, 0, st2, hfr, lambda s3, _f, cfr=cfr: proc(rest_events, rest_i, s3, cfr, done))
                        return
                    if isinstance(val, ast.Yield):
                        v = sub(val.value) if val.value is not None else ast.Constant(value=None)
                        st.items.append(_mk(fr, None, True, Eff('yield', '', v, '', s_), s_))
                    elif is_yf:
                        v = sub(val.value)
                        st.items.append(_mk(fr, None, True, Eff('yieldfrom', '', v, '', s_), s_))
                    else:
                        v = sub(val)
                        st.items.append(_mk(fr, None, True, Eff('call', '', v, '', s_), s_))
                    st.exprs.append((s_, v, len(st.items)))
                elif isinstance(s_, (ast.Return, ast.Raise)):
                    x = s_.value if isinstance(s_, ast.Return) else s_.exc
                    if x is not None:
                        st.exprs.append((s_, sub(x), len(st.items)))
                elif isinstance(s_, (ast.Pass, ast.Import, ast.ImportFrom, ast.Global, ast.Nonlocal)):
                    pass
                elif isinstance(s_, (ast.FunctionDef, ast.AsyncFunctionDef, ast.ClassDef)):
                    fr.locals.pop(s_.name, None)
                elif isinstance(s_, ast.Delete):
                    for t in s_.targets:
                        if isinstance(t, ast.Name):
                            fr.locals.pop(t.id, None)
                else:
                    raise Undecided(f'{name}: statement outside the tabulated subset: `{short(s_, 60)}`')
            elif ev.kind in ('iter', 'with'):
                for n in ast.walk(node):
                    if isinstance(n, ast.Name) and isinstance(n.ctx, ast.Store):
                        fr.locals[n.id] = _placeholder(f'{n.id} bound by a loop')
                st.items.append(_mk(fr, None, True, Eff('loop' if ev.kind == 'iter' else 'with', '', None, str(ev.val), node), node))
        done(st, fr)

    for p in enumerate_paths(body, unroll=1, handlers=handlers):
        def finish(st: _State, fr: _Frame, p: T.Any = p) -> None:
            def sub(e: ast.AST) -> ast.AST:
                x = _Sub({**st.fields, **fr.locals}, fr.params).visit(copy.deepcopy(e))
                return normal.visit(x) if normal is not None else x
            r = Row(st.conds, tables.default_outcome(p, sub), tuple(repr(i.eff) for i in st.items if i.eff is not None), p)
            r.items, r.ints, r.exprs = st.items, st.ints, st.exprs
            r.final = {c: st.fields[c] for c in st.written if c in st.fields}
            rows.append(r)
            if p.outcome == 'fall':
                defs = {**st.fields, **fr.locals}
                if exit_box[0] is None:
                    exit_box[0] = dict(defs)
                else:   # keep the definitions every normally-completing row agrees on
                    exit_box[0] = {k: v for k, v in exit_box[0].items() if k in defs and norm(defs[k]) == norm(v)}
        st0 = _State()
        seed_ = dict(seed or {})
        st0.fields = {k: v for k, v in seed_.items() if '.' in k}
        proc(p.events, 0, st0, _Frame({k: v for k, v in seed_.items() if '.' not in k}, param_names(fn), 0), finish)
    tab = tables.Table([r for r in rows if not T.cast(Row, r).through_handler()], name)
    tab.handler_rows = [r for r in rows if T.cast(Row, r).through_handler()]   # type: ignore[attr-defined]
    return tab, (exit_box[0] or {})


def expr_of(text: str) -> ast.AST:
    return ast.parse(text, mode='eval').body


def compare(table: tables.Table, sem: T.Callable[[Atom], T.Optional[T.Tuple[str, bool]]],
            ref: T.Callable[[T.Dict[str, T.Optional[bool]]], T.Any], got: T.Callable[[Row, T.Dict[str, T.Optional[bool]]], T.Any],
            extra: T.Iterable[Atom] = (), ignore: T.Callable[[Atom], bool] = lambda a: False,
            foreign: T.Optional[T.Callable[[Atom, T.List[Atom]], T.Optional[str]]] = None,
            inner: T.Collection[Atom] = (),
            consistent: T.Callable[[T.Dict[str, T.Optional[bool]]], bool] = lambda v: True) -> T.Tuple[int, T.List[T.Tuple[Row, T.Any, T.Any, T.Dict[str, T.Optional[bool]]]], T.List[T.Dict[str, T.Optional[bool]]]]:
    """Enumerate the worlds of the table's atoms; `sem(atom)` -> (semantic name, flip) or None (unknown atom ->
    `foreign(atom, others)` may admit it as a free input, else Undecided); `ref(view)` -> expected, `got(row, view)` -> actual.  Returns (worlds compared, mismatches, holes = consistent worlds in which no row fires, i.e. an assumed assertion fails)."""
    names: T.Dict[Atom, T.Tuple[str, bool]] = {}
    for a in list(table.atoms()) + list(extra):
        if ignore(a):
            continue
        if a in inner:      # decided inside a spliced callee (judged by that callee's own table): a free input here
            names[a] = (f'inner: {a!r}', False)
            continue
        s = sem(a)
        if s is None and foreign is not None:
            # an atom the reference does not know: admissible as an independent input (explored both ways) only if the caller can
            # argue that it is a plain read of entry state not correlated with the reference atoms
            fn_ = foreign(a, [b for b in list(table.atoms()) + list(extra) if b != a])
            if fn_ is not None:
                s = (fn_, False)
        if s is None:
            raise Undecided(f'{table.name}: condition outside the reference vocabulary: `{a!r}`')
        names[a] = s
    n = 0
    bad: T.List[T.Tuple[Row, T.Any, T.Any, T.Dict[str, T.Optional[bool]]]] = []
    seen: T.Set[str] = set()
    holes: T.Dict[str, T.Dict[str, T.Optional[bool]]] = {}
    fired: T.Set[str] = set()
    for w in table.worlds(extra):
        view: T.Dict[str, T.Optional[bool]] = {}
        ok = True
        for a, v in w.items():
            if a not in names:
                continue
            nm, flip = names[a]
            val = (not v) if flip else v
            if nm in view and view[nm] != val:
                ok = False
                break
            view[nm] = val
        if not ok or not consistent(view):
            continue
        rows = [r for r in table.fire(w) if all(w.get(a) == v for a, v in r.conds.items())]
        # atoms the pack ignores (e.g. an assertion assumed to hold) must not split the firing set
        key = repr(sorted((k, v) for k, v in view.items() if v is not None))
        if not rows:
            holes.setdefault(key, view)
            continue
        fired.add(key)
        want = ref(view)
        if want is None:
            continue
        if key in seen:
            continue
        seen.add(key)
        n += 1
        outs = {}
        for r in rows:
            outs[repr(got(T.cast(Row, r), view))] = r
        if len(outs) != 1:
            raise Undecided(f'{table.name}: {len(outs)} different rows fire for {view}')
        g = got(T.cast(Row, rows[0]), view)
        if g != want:
            bad.append((T.cast(Row, rows[0]), g, want, view))
    return n, bad, [v for k, v in holes.items() if k not in fired]
