"""Decision tables with *ordered* rows for the C18 pack (helper on top of sa.paths / sa.tables).

`sa.tables.extract` keys a row's conditions by atom text and inlines only locals with a single definition at
the top level of the tabulated body.  `TAPParser.parse_line` re-binds `m` (four regex matches), `line`
(`line = line.rstrip()`) and tabulates locals defined in nested blocks (`num_tests`, `skipped`), so this helper
builds the rows itself from the engine's path enumeration:

* every path of `sa.paths.enumerate_paths(body)` becomes one row;
* local names are replaced by their **reaching definition on that path** (copy propagation: `m` becomes
  `self._RE_PLAN.match(ARG1.rstrip())`, `directive` becomes `ARG4.upper()`), parameters are renamed `ARGn` -
  so atoms are versioned by construction and a renamed or re-used local gives the same row;
* conditions are canonicalised with `sa.tables.canon`; a path that needs one atom both ways is dropped;
* the row keeps its conditions **and effects in evaluation order** (`items`), so a rule can ask "is this test
  evaluated after that assignment";
* the rows are wrapped in `sa.tables.Table`, so worlds (`table.worlds()`) and firing (`table.fire(world)`) are the
  engine's.

Nothing is evaluated: an effect is a normalised statement shape (`set self.state := self._YAML`,
`yield self.Error(...)`), compared structurally by the rules.
"""
from __future__ import annotations

import ast
import copy
import typing as T

from ..core import Undecided, attr_chain, norm, short
from ..paths import enumerate_paths
from .. import tables
from ..tables import Atom


class Eff(T.NamedTuple):
    kind: str                    # set | aug | yield | yieldfrom | call
    target: str                  # set/aug: normalised target text, else ''
    value: T.Optional[ast.AST]   # substituted value expression
    op: str                      # aug: operator class name
    raw: ast.AST                 # the original statement (for locations)

    def __repr__(self) -> str:
        v = norm(self.value) if self.value is not None else ''
        if self.kind == 'set':
            return f'{self.target} := {v}'
        if self.kind == 'aug':
            return f'{self.target} {self.op}= {v}'
        return f'{self.kind} {v}'


class Item(T.NamedTuple):
    atom: T.Optional[Atom]       # condition item
    val: bool
    eff: T.Optional[Eff]         # effect item
    raw: ast.AST


class Row(tables.Row):
    items: T.List[Item]
    ints: T.List[T.Tuple[ast.Call, ast.AST]]    # int(<x>) calls evaluated on the row: (original call, operand over reaching definitions)
    final: T.Dict[str, ast.AST]                 # attribute chain written on the row -> its value on exit, over entry values
    exprs: T.List[T.Tuple[ast.AST, ast.AST]]    # (raw statement/condition, substituted copy) in order

    def effs(self, kind: T.Optional[str] = None) -> T.List[Eff]:
        return [i.eff for i in self.items if i.eff is not None and (kind is None or i.eff.kind == kind)]

    def index_of(self, pred: T.Callable[[Item], bool]) -> T.List[int]:
        return [k for k, i in enumerate(self.items) if pred(i)]


class _Sub(ast.NodeTransformer):
    def __init__(self, defs: T.Dict[str, ast.AST], params: T.Dict[str, str]):
        self.defs = defs
        self.params = params

    def visit_Name(self, n: ast.Name) -> ast.AST:
        if isinstance(n.ctx, ast.Load):
            if n.id in self.defs:
                return copy.deepcopy(self.defs[n.id])
            if n.id in self.params:
                return ast.Name(id=self.params[n.id], ctx=ast.Load())
        return n

    def visit_Attribute(self, n: ast.Attribute) -> ast.AST:
        if isinstance(n.ctx, ast.Load):
            c = attr_chain(n)
            if c is not None and c in self.defs:
                return copy.deepcopy(self.defs[c])
        return self.generic_visit(n)

    def visit_NamedExpr(self, n: ast.NamedExpr) -> ast.AST:
        # (x := e) is e here; the binding itself is recorded by the row builder
        return self.visit(n.value)

    def visit_Lambda(self, n: ast.Lambda) -> ast.AST:
        return n

    def visit_GeneratorExp(self, n: ast.GeneratorExp) -> ast.AST:
        return n

    visit_ListComp = visit_SetComp = visit_DictComp = visit_GeneratorExp   # type: ignore[assignment]


def _inlinable(v: ast.AST) -> bool:
    for n in ast.walk(v):
        if isinstance(n, (ast.Await, ast.Yield, ast.YieldFrom, ast.Lambda, ast.GeneratorExp, ast.ListComp, ast.SetComp, ast.DictComp)):
            return False
    return len(norm(v)) <= 240


def param_names(fn: T.Any) -> T.Dict[str, str]:
    out: T.Dict[str, str] = {}
    i = 0
    for a in fn.args.posonlyargs + fn.args.args:
        if a.arg in ('self', 'cls'):
            continue
        i += 1
        out[a.arg] = f'ARG{i}'
    return out


def build(fn: T.Any, body: T.List[ast.stmt], name: str, seed: T.Optional[T.Dict[str, ast.AST]] = None,
          handlers: bool = False) -> T.Tuple[tables.Table, T.Dict[str, ast.AST]]:
    """Ordered decision table of `body` (a statement list of `fn`); `seed` = reaching definitions of locals on entry
    (already substituted).  Returns the table and the definitions on exit that all normally-completing rows agree on."""
    params = param_names(fn)
    rows: T.List[tables.Row] = []
    exit_vals: T.Optional[T.Dict[str, ast.AST]] = None
    for p in enumerate_paths(body, unroll=1, handlers=handlers):
        defs: T.Dict[str, ast.AST] = dict(seed or {})

        def sub(e: ast.AST) -> ast.AST:
            return _Sub(defs, params).visit(copy.deepcopy(e))

        def bind_walrus(e: ast.AST) -> None:
            for n in ast.walk(e):
                if isinstance(n, ast.NamedExpr) and isinstance(n.target, ast.Name):
                    v = sub(n.value)
                    if _inlinable(v):
                        defs[n.target.id] = v
                    else:
                        defs.pop(n.target.id, None)
        conds: T.Dict[Atom, bool] = {}
        written: T.Set[str] = set()
        items: T.List[Item] = []
        exprs: T.List[T.Tuple[ast.AST, ast.AST]] = []
        feasible = True
        ints: T.List[T.Tuple[ast.Call, ast.AST]] = []
        for ev in p.events:
            node = ev.node
            if node is None:
                continue
            if ev.kind in ('cond', 'stmt'):
                for c in ast.walk(node):
                    if isinstance(c, ast.Call) and isinstance(c.func, ast.Name) and c.func.id == 'int' and len(c.args) == 1:
                        ints.append((c, sub(c.args[0])))
            if ev.kind == 'cond':
                e = sub(node)
                bind_walrus(node)
                a, v = tables.canon(e, bool(ev.val))
                if a.kind in ('cmp', 'is') and len(a.args) >= 2 and a.args[-1] == a.args[-2] and (a.kind == 'is' or a.args[0] == 'eq'):
                    if not v:       # x == x / x is x observed false: not a path
                        feasible = False
                        break
                    continue
                if a in conds and conds[a] != v:
                    feasible = False
                    break
                conds[a] = v
                items.append(Item(a, v, None, node))
                exprs.append((node, e))
            elif ev.kind == 'exc':
                items.append(Item(None, True, Eff('exc', '', None, '', node), node))
            elif ev.kind == 'stmt':
                st = node
                if isinstance(st, ast.Assign) and len(st.targets) == 1:
                    v = sub(st.value)
                    bind_walrus(st.value)
                    t = st.targets[0]
                    exprs.append((st, v))
                    if isinstance(t, ast.Name):
                        if _inlinable(v):
                            defs[t.id] = v
                        else:
                            defs.pop(t.id, None)
                        items.append(Item(None, True, Eff('set', params.get(t.id, t.id), v, '', st), st))
                    elif isinstance(t, ast.Tuple):
                        for x in t.elts:
                            if isinstance(x, ast.Name):
                                defs[x.id] = ast.Name(id=f'<unpacked {x.id}>', ctx=ast.Load())
                        items.append(Item(None, True, Eff('set', norm(sub(t)), v, '', st), st))
                    else:
                        c = attr_chain(t)
                        items.append(Item(None, True, Eff('set', c or norm(sub(t)), v, '', st), st))
                        if c is not None:
                            for k in [k for k in defs if k.startswith(c + '.')]:
                                del defs[k]
                            defs[c] = v if _inlinable(v) else ast.Name(id=f'<{c} after assignment>', ctx=ast.Load())
                            written.add(c)
                elif isinstance(st, ast.AnnAssign) and st.value is not None:
                    v = sub(st.value)
                    exprs.append((st, v))
                    if isinstance(st.target, ast.Name):
                        if _inlinable(v):
                            defs[st.target.id] = v
                        else:
                            defs.pop(st.target.id, None)
                        items.append(Item(None, True, Eff('set', st.target.id, v, '', st), st))
                    else:
                        items.append(Item(None, True, Eff('set', norm(sub(st.target)), v, '', st), st))
                elif isinstance(st, ast.AugAssign):
                    v = sub(st.value)
                    exprs.append((st, v))
                    if isinstance(st.target, ast.Name):
                        cur = sub(ast.Name(id=st.target.id, ctx=ast.Load()))
                        nv = ast.BinOp(left=cur, op=st.op, right=v)
                        if _inlinable(nv):
                            defs[st.target.id] = nv
                        else:
                            defs[st.target.id] = ast.Name(id=f'<{st.target.id} after {type(st.op).__name__}>', ctx=ast.Load())
                        items.append(Item(None, True, Eff('aug', params.get(st.target.id, st.target.id), v, type(st.op).__name__, st), st))
                    else:
                        c = attr_chain(st.target)
                        items.append(Item(None, True, Eff('aug', c or norm(sub(st.target)), v, type(st.op).__name__, st), st))
                        if c is not None:
                            cur = sub(ast.Attribute(value=st.target.value, attr=st.target.attr, ctx=ast.Load()))   # type: ignore[attr-defined]
                            nv = ast.BinOp(left=cur, op=st.op, right=v)
                            defs[c] = nv if _inlinable(nv) else ast.Name(id=f'<{c} after assignment>', ctx=ast.Load())
                            written.add(c)
                elif isinstance(st, ast.Expr):
                    val = st.value
                    if isinstance(val, ast.Yield):
                        v = sub(val.value) if val.value is not None else ast.Constant(value=None)
                        items.append(Item(None, True, Eff('yield', '', v, '', st), st))
                        exprs.append((st, v))
                    elif isinstance(val, ast.YieldFrom):
                        v = sub(val.value)
                        items.append(Item(None, True, Eff('yieldfrom', '', v, '', st), st))
                        exprs.append((st, v))
                    elif isinstance(val, ast.Constant):
                        pass
                    else:
                        v = sub(val)
                        items.append(Item(None, True, Eff('call', '', v, '', st), st))
                        exprs.append((st, v))
                elif isinstance(st, (ast.Return, ast.Raise)):
                    x = st.value if isinstance(st, ast.Return) else st.exc
                    if x is not None:
                        exprs.append((st, sub(x)))
                elif isinstance(st, (ast.Pass, ast.Import, ast.ImportFrom, ast.Global, ast.Nonlocal)):
                    pass
                elif isinstance(st, (ast.FunctionDef, ast.AsyncFunctionDef, ast.ClassDef)):
                    defs.pop(st.name, None)
                elif isinstance(st, ast.Delete):
                    for t in st.targets:
                        if isinstance(t, ast.Name):
                            defs.pop(t.id, None)
                else:
                    raise Undecided(f'{name}: statement outside the tabulated subset: `{short(st, 60)}`')
            elif ev.kind in ('iter', 'with'):
                for n in ast.walk(node):
                    if isinstance(n, ast.Name) and isinstance(n.ctx, ast.Store):
                        defs[n.id] = ast.Name(id=f'<{n.id} bound by a loop>', ctx=ast.Load())
                items.append(Item(None, True, Eff('loop' if ev.kind == 'iter' else 'with', '', None, str(ev.val), node), node))
        if not feasible:
            continue
        oc = tables.default_outcome(p, sub)
        r = Row(conds, oc, tuple(repr(i.eff) for i in items if i.eff is not None), p)
        r.items = items
        r.ints = ints
        r.exprs = exprs
        r.final = {c: defs[c] for c in written if c in defs}
        rows.append(r)
        if p.outcome == 'fall':
            if exit_vals is None:
                exit_vals = dict(defs)
            else:   # keep the definitions every normally-completing row agrees on
                exit_vals = {k: v for k, v in exit_vals.items() if k in defs and norm(defs[k]) == norm(v)}
    return tables.Table(rows, name), (exit_vals or {})


def expr_of(text: str) -> ast.AST:
    return ast.parse(text, mode='eval').body


def compare(table: tables.Table, sem: T.Callable[[Atom], T.Optional[T.Tuple[str, bool]]],
            ref: T.Callable[[T.Dict[str, T.Optional[bool]]], T.Any], got: T.Callable[[Row, T.Dict[str, T.Optional[bool]]], T.Any],
            extra: T.Iterable[Atom] = (), ignore: T.Callable[[Atom], bool] = lambda a: False,
            consistent: T.Callable[[T.Dict[str, T.Optional[bool]]], bool] = lambda v: True) -> T.Tuple[int, T.List[T.Tuple[Row, T.Any, T.Any, T.Dict[str, T.Optional[bool]]]], T.List[T.Dict[str, T.Optional[bool]]]]:
    """Enumerate the worlds of the table's atoms; `sem(atom)` -> (semantic name, flip) or None (unknown atom ->
    Undecided); `ref(view)` -> expected, `got(row, view)` -> actual.  Returns (worlds compared, mismatches, holes = consistent worlds in which no row fires, i.e. an assumed assertion fails)."""
    names: T.Dict[Atom, T.Tuple[str, bool]] = {}
    for a in list(table.atoms()) + list(extra):
        if ignore(a):
            continue
        s = sem(a)
        if s is None:
            raise Undecided(f'{table.name}: condition outside the reference vocabulary: `{a!r}`')
        names[a] = s
    n = 0
    bad: T.List[T.Tuple[Row, T.Any, T.Any, T.Dict[str, T.Optional[bool]]]] = []
    seen: T.Set[str] = set()
    holes: T.Dict[str, T.Dict[str, T.Optional[bool]]] = {}
    fired: T.Set[str] = set()
    for w in table.worlds(extra):
        view: T.Dict[str, T.Optional[bool]] = {}
        ok = True
        for a, v in w.items():
            if a not in names:
                continue
            nm, flip = names[a]
            val = (not v) if flip else v
            if nm in view and view[nm] != val:
                ok = False
                break
            view[nm] = val
        if not ok or not consistent(view):
            continue
        rows = [r for r in table.fire(w) if all(w.get(a) == v for a, v in r.conds.items())]
        # atoms the pack ignores (e.g. an assertion assumed to hold) must not split the firing set
        key = repr(sorted((k, v) for k, v in view.items() if v is not None))
        if not rows:
            holes.setdefault(key, view)
            continue
        fired.add(key)
        want = ref(view)
        if want is None:
            continue
        if key in seen:
            continue
        seen.add(key)
        n += 1
        outs = {}
        for r in rows:
            outs[repr(got(T.cast(Row, r), view))] = r
        if len(outs) != 1:
            raise Undecided(f'{table.name}: {len(outs)} different rows fire for {view}')
        g = got(T.cast(Row, rows[0]), view)
        if g != want:
            bad.append((T.cast(Row, rows[0]), g, want, view))
    return n, bad, [v for k, v in holes.items() if k not in fired]
