"""C13.R1 helper: clean/dirty typestate of the lazily flushed argument list
(DESIGN B.3 "Lazy list"), as a forward may-analysis over the engine CFG.

Status lattice per receiver expression X (a Name/attribute chain):
    clean < unknown < dirty        (join = worst)
`dirty`  = some path reaches this point with entries possibly pending in X.pre/X.post,
`unknown`= the analysis cannot tell (X handed to an unknown callee, bound from an
           unknown expression ...) -> an access in this state is *undecided*, never a violation.

Method effects are not a hand-written table: the summary (state of `self` at
exit, state of the result) of every method of the class family is computed from
its own body, as a fixpoint (append -> __iadd__, extend_direct -> append_direct
-> append ...).  The only primitives are: `X.flush_pre_post()` cleans X,
a mutation of `X.pre` / `X.post` outside flush_pre_post dirties X.
"""
from __future__ import annotations

import ast
import typing as T

from ..core import Module, Repo, Undecided, attr_chain, norm, short, walk_no_nested, FuncNode
from ..cfg import CFG, Node

CLEAN, UNKNOWN, DIRTY = 0, 1, 2
LEVEL = {CLEAN: 'clean', UNKNOWN: 'unknown', DIRTY: 'dirty'}
Status = T.Tuple[int, str]          # (level, why)
State = T.Dict[str, Status]

STORE = '_container'
QUEUES = ('pre', 'post')
FLUSH = 'flush_pre_post'
DESIGN_READERS = ('__iadd__',)   # by design it looks at _container, pre and post together without flushing (the UNIQUE test)
# (__len__ used to be listed: counting the three stores is NOT the eager length while duplicates of overridden arguments are
#  pending -- len() is off and reversed() raises IndexError -- so it is held to the flush-before-read rule like every reader)
QUEUE_MUTATORS = {'append', 'appendleft', 'extend', 'extendleft', 'insert', 'add', 'update', '__iadd__'}
EMPTY_CTORS = {'collections.deque', 'deque', 'list', 'tuple', 'set', 'dict'}

# collections.abc.MutableSequence/Sequence mixin methods, expressed by the abstract
# methods they are documented to be built from (only used when the family does not define them)
ABC_MIXINS = {
    'pop': ['__getitem__', '__delitem__'], 'remove': ['__getitem__', '__delitem__'], 'index': ['__getitem__'],
    'count': ['__iter__'], 'reverse': ['__len__', '__getitem__', '__setitem__'], 'clear': ['__getitem__', '__delitem__'],
    '__contains__': ['__iter__'], '__reversed__': ['__len__', '__getitem__'],
    'append': ['insert'], 'extend': ['append'], '__iadd__': ['extend'], '__iter__': ['__getitem__'],     # extend: one append() per element
}
# builtins applied to a list-like argument -> the dunder they call on it (None: no effect on the argument)
BUILTIN_ON_ARG = {
    'len': '__len__', 'iter': '__iter__', 'list': '__iter__', 'tuple': '__iter__', 'enumerate': '__iter__', 'sorted': '__iter__',
    'set': '__iter__', 'frozenset': '__iter__', 'any': '__iter__', 'all': '__iter__', 'reversed': '__reversed__', 'zip': '__iter__',
    'repr': '__repr__', 'str': '__repr__', 'isinstance': None, 'type': None, 'id': None, 'bool': '__len__', 'print': '__repr__',
}


BOUND = '@m:'                       # state key prefix: local name bound to a method of a tracked receiver (`f = X.flush_pre_post`)
HANDLE = '@h:'                      # state key prefix: local name bound to X._container / a bound method of it
NOT_HANDLE: Status = (CLEAN, '')
MIXED: Status = (DIRTY, '<mixed>')


def join(a: Status, b: Status) -> Status:
    return a if a[0] >= b[0] else b


def join_states(a: State, b: State, default: T.Callable[[str], Status]) -> State:
    out: State = {}
    for k in set(a) | set(b):
        if k.startswith('@'):
            x, y = a.get(k, NOT_HANDLE), b.get(k, NOT_HANDLE)
            out[k] = x if x == y else MIXED
        else:
            out[k] = join(a.get(k) or default(k), b.get(k) or default(k))
    return out


class Summary(T.NamedTuple):
    exit_self: T.Tuple[Status, Status]     # indexed by entry status of self: [entered clean, entered dirty]
    ret: T.Tuple[Status, Status]


BOTTOM = Summary(((CLEAN, ''), (CLEAN, '')), ((CLEAN, ''), (CLEAN, '')))


class Access(T.NamedTuple):
    fn_q: str
    key: T.Optional[str]      # receiver chain text
    node: ast.Attribute       # the X._container node
    status: Status
    exempt: str               # '' | 'init' | 'flush'  (by-design write of self in __init__ / flush_pre_post)
    top: ast.AST              # expression/statement evaluated at the CFG node


class Family:
    """The class family (CompilerArgs and subclasses) with method summaries."""

    def __init__(self, repo: Repo, root_mod: Module, root_cls: str, members: T.List[T.Tuple[Module, ast.ClassDef]]):
        self.repo = repo
        self.root = (root_mod, root_mod.cls(root_cls))
        self.members = members
        self.names = {c.name for _, c in members}
        self.summaries: T.Dict[T.Tuple[str, str], Summary] = {}
        self._cfg: T.Dict[int, CFG] = {}
        self._mro: T.Dict[str, T.List[T.Tuple[Module, ast.ClassDef]]] = {}
        self._resolved: T.Dict[T.Tuple[str, str], T.Optional[str]] = {}
        self._static: T.Dict[T.Any, T.Any] = {}
        self._peff: T.Dict[T.Any, Status] = {}
        self._peff_busy: T.Set[T.Any] = set()
        self.sites: T.Dict[T.Tuple[int, str], T.List[T.Tuple[Status, str]]] = {}
        self.rounds = 0
        self.roles: T.Dict[str, str] = {'__init__': 'init', FLUSH: 'flush', **{n: 'design' for n in DESIGN_READERS}}

    def mro(self, cls_key: str) -> T.List[T.Tuple[Module, ast.ClassDef]]:
        # (Repo.mro re-parses the import table on every call: memoised here)
        r = self._mro.get(cls_key)
        if r is None:
            m, c = self.member(cls_key)
            r = self.repo.mro(m, c)
            self._mro[cls_key] = r
        return r

    def resolve_member(self, mod: Module, name: str) -> T.Optional[str]:
        k = (mod.rel, name)
        if k not in self._resolved:
            res = None
            r = self.repo.resolve_class(mod, name) if name.split('.')[0] not in ('self', 'cls') else None
            if r is not None:
                for m, c in self.members:
                    if c is r[1]:
                        res = self.cls_key(m, c)
            self._resolved[k] = res
        return self._resolved[k]

    def compute_roles(self, texts: T.Dict[str, str]) -> None:
        """Role of a method w.r.t. the lazy stores of `self`: 'init' (constructor), 'flush' (the flush itself),
        'design' (by-design reader of all three stores).  The three roots are given; a *private helper* inherits the
        role when every call of it in the package is `self.helper(...)` from methods that all have that same role
        (call graph, not names): such a helper is a piece of the root that was extracted."""
        import re as _re
        roles: T.Dict[str, str] = {'__init__': 'init', FLUSH: 'flush'}
        roles.update({n: 'design' for n in DESIGN_READERS})
        defs: T.Dict[str, T.List[FuncNode]] = {}
        calls: T.Dict[str, T.List[T.Tuple[str, bool]]] = {}     # callee name -> [(caller method, receiver is self)]
        fam_files = {m.rel for m, _ in self.members}
        for m, c in self.members:
            for st in c.body:
                if not isinstance(st, (ast.FunctionDef, ast.AsyncFunctionDef)):
                    continue
                defs.setdefault(st.name, []).append(st)
                for n in ast.walk(st):
                    if isinstance(n, ast.Call) and isinstance(n.func, ast.Attribute):
                        calls.setdefault(n.func.attr, []).append((st.name, attr_chain(n.func.value) == 'self'))
                    elif isinstance(n, ast.Attribute) and isinstance(n.ctx, ast.Load) and n.attr in defs and False:
                        pass
        # any mention of the helper outside the family classes (other modules, module level code) forbids inheritance
        mentions: T.Dict[str, int] = {}
        private = [n for n in defs if n.startswith('_') and not (n.startswith('__') and n.endswith('__'))]
        for name in private:
            pat = _re.compile(r'\b' + _re.escape(name) + r'\b')
            total = sum(len(pat.findall(src)) for src in texts.values())
            inside = 0
            for m, c in self.members:
                seg = ast.get_source_segment(m.src, c) or ''
                inside += len(pat.findall(seg))
            mentions[name] = total - inside
        del fam_files
        for _ in range(4):
            changed = False
            for name in private:
                if name in roles or mentions.get(name, 1) != 0:
                    continue
                sites = calls.get(name, [])
                # every mention inside the classes must be one of the recorded `self.name(...)` calls or the def itself
                if not sites or not all(is_self for _, is_self in sites):
                    continue
                rs = {roles.get(caller) for caller, _ in sites}
                if len(rs) == 1 and None not in rs:
                    roles[name] = next(iter(rs))  # type: ignore[assignment]
                    changed = True
            if not changed:
                break
        self.roles = roles

    # -- calls into repository helpers: bind by signature, summarise the effect on a list handed over ------------
    def resolve_callee(self, an: 'Analysis', call: ast.Call) -> T.Optional[T.Tuple[Module, FuncNode, T.Optional[str], int]]:
        """(module, function, family class key, number of leading implicit parameters) of a call that can be resolved:
        self.m(...) / cls.m(...) / Class.m(self, ...) in the family, or a function of the same module."""
        f = call.func
        if isinstance(f, ast.Attribute):
            recv = attr_chain(f.value)
            if recv in ('self', 'cls') and an.cls_key is not None:
                found = self.find(an.dispatch, f.attr)
                if found is not None:
                    m, c, fn = found
                    static = any(attr_chain(d) == 'staticmethod' for d in fn.decorator_list)
                    return m, fn, an.dispatch, 0 if static else 1
            elif recv is not None:
                ck = self.resolve_member(an.mod, recv)
                if ck is not None:
                    found = self.find(ck, f.attr)
                    if found is not None:
                        m, c, fn = found
                        implicit = 1 if any(attr_chain(d) == 'classmethod' for d in fn.decorator_list) else 0
                        return m, fn, ck, implicit      # Class.m(obj, ...): obj is bound explicitly to `self`
        elif isinstance(f, ast.Name) and an.mod.has_func(f.id):
            return an.mod, an.mod.func(f.id), None, 0
        return None

    @staticmethod
    def bind(fn: FuncNode, call: ast.Call, implicit: int) -> T.Optional[T.Dict[int, str]]:
        """id(argument expression) -> parameter name, by position or keyword; None when the call cannot be bound."""
        a = fn.args
        pos = [x.arg for x in a.posonlyargs + a.args][implicit:]
        names = set(pos) | {x.arg for x in a.kwonlyargs}
        out: T.Dict[int, str] = {}
        for i, arg in enumerate(call.args):
            if isinstance(arg, ast.Starred) or i >= len(pos):
                return None
            out[id(arg)] = pos[i]
        for k in call.keywords:
            if k.arg is None or k.arg not in names:
                return None
            out[id(k.value)] = k.arg
        return out

    def param_effect(self, mod: Module, fn: FuncNode, cls_key: T.Optional[str], pname: str, entry: Status) -> Status:
        """State of the list bound to parameter `pname` when `fn` returns, given its state at the call."""
        key = (id(fn), cls_key, pname, entry[0])
        if key in self._peff:
            return self._peff[key]
        if key in self._peff_busy:
            return (UNKNOWN, f'recursive call through {fn.name}')
        self._peff_busy.add(key)
        try:
            an = Analysis(self, mod, fn, fn.name, cls_key, entry={pname: entry})
            an.run()
            res = an.exit_status(pname)
        finally:
            self._peff_busy.discard(key)
        self._peff[key] = res
        return res

    def cfg(self, fn: FuncNode) -> CFG:
        c = self._cfg.get(id(fn))
        if c is None:
            c = CFG(fn)
            self._cfg[id(fn)] = c
        return c

    def cls_key(self, mod: Module, cls: ast.ClassDef) -> str:
        return f'{mod.rel}:{cls.name}'

    def member(self, key: str) -> T.Tuple[Module, ast.ClassDef]:
        for m, c in self.members:
            if self.cls_key(m, c) == key:
                return m, c
        raise Undecided(f'class {key} is not in the family')

    def find(self, cls_key: str, meth: str) -> T.Optional[T.Tuple[Module, ast.ClassDef, FuncNode]]:
        for m2, c2 in self.mro(cls_key):
            for st in c2.body:
                if isinstance(st, (ast.FunctionDef, ast.AsyncFunctionDef)) and st.name == meth:
                    if any(attr_chain(d) in ('T.overload', 'typing.overload', 'overload') for d in st.decorator_list):
                        continue
                    return m2, c2, st
        return None

    def all_methods(self, cls_key: str) -> T.List[str]:
        out: T.Dict[str, None] = {}
        for m2, c2 in self.mro(cls_key):
            for st in c2.body:
                if isinstance(st, (ast.FunctionDef, ast.AsyncFunctionDef)):
                    out.setdefault(st.name)
        return list(out)

    # -- summaries ------------------------------------------------------------
    def summary(self, cls_key: str, meth: str) -> T.Optional[Summary]:
        """Summary of calling `meth` on an object of class cls_key; None = unknown method."""
        if meth == FLUSH:
            s = (CLEAN, 'flushed')
            return Summary((s, s), ((UNKNOWN, 'None'), (UNKNOWN, 'None')))
        if self.find(cls_key, meth) is not None:
            return self.summaries.get((cls_key, meth), BOTTOM)
        if meth in ABC_MIXINS:
            cur: T.List[Status] = [(CLEAN, ''), (DIRTY, 'entry')]
            for part in ABC_MIXINS[meth]:
                s = self.summary(cls_key, part)
                if s is None:
                    return None
                cur = [s.exit_self[0 if c[0] == CLEAN else 1] if c[0] != UNKNOWN else c for c in cur]
            return Summary((cur[0], cur[1]), ((UNKNOWN, 'abc result'), (UNKNOWN, 'abc result')))
        return None

    def solve(self) -> None:
        for rnd in range(12):
            changed = False
            self._peff.clear()
            for m, c in self.members:
                ck = self.cls_key(m, c)
                for meth in self.all_methods(ck):
                    if meth == FLUSH:
                        continue
                    found = self.find(ck, meth)
                    if found is None:
                        continue
                    fm, fc, fn = found
                    ex: T.List[Status] = []
                    rt: T.List[Status] = []
                    for entry in (CLEAN, DIRTY):
                        an = Analysis(self, fm, fn, f'{fc.name}.{meth}', ck, self_entry=(entry, 'state of self at entry'))
                        an.run()
                        ex.append(an.exit_status('self'))
                        rt.append(an.ret_status)
                    new = Summary((_strip(ex[0]), _strip(ex[1])), (_strip(rt[0]), _strip(rt[1])))
                    old = self.summaries.get((ck, meth), BOTTOM)
                    if _levels(new) != _levels(old):
                        # monotone: never go down
                        merged = Summary(tuple(join(a, b) for a, b in zip(old.exit_self, new.exit_self)),  # type: ignore[arg-type]
                                         tuple(join(a, b) for a, b in zip(old.ret, new.ret)))  # type: ignore[arg-type]
                        if _levels(merged) != _levels(old):
                            self.summaries[(ck, meth)] = merged
                            changed = True
                    elif (ck, meth) not in self.summaries:
                        self.summaries[(ck, meth)] = new
            self.rounds = rnd + 1
            if not changed:
                return
        raise Undecided('method summaries of the argument-list family do not converge')

    def ctor_status(self, cls_key: str) -> Status:
        s = self.summary(cls_key, '__init__')
        if s is None:
            return (UNKNOWN, 'constructor not found')
        st = s.exit_self[0]
        return (st[0], 'constructor result' + (': ' + st[1] if st[1] else ''))


def _strip(s: Status) -> Status:
    return s


def _levels(s: Summary) -> T.Tuple[int, ...]:
    return tuple(x[0] for x in s.exit_self + s.ret)


def _uncast(e: T.Optional[ast.AST]) -> T.Optional[ast.AST]:
    """`T.cast(X, v)` / `typing.cast(X, v)` is `v` (a typing no-op at run time)."""
    while isinstance(e, ast.Call) and attr_chain(e.func) in ('T.cast', 'typing.cast', 'cast') and len(e.args) == 2 and not e.keywords:
        e = e.args[1]
    return e


class Analysis:
    """One function, one entry assumption."""

    def __init__(self, fam: Family, mod: Module, fn: FuncNode, qname: str, cls_key: T.Optional[str],
                 self_entry: T.Optional[Status] = None, entry: T.Optional[T.Dict[str, Status]] = None,
                 extra_tracked: T.Iterable[str] = ()):
        self.entry = dict(entry or {})                 # assumed state of parameters at entry (callee summaries)
        self.extra_tracked = frozenset(extra_tracked) | frozenset(self.entry)
        self.fam = fam
        self.mod = mod
        self.fn = fn
        self.qname = qname
        self.cls_key = cls_key                     # family class the function is a method of (None: free function / foreign class)
        self.dispatch = cls_key or fam.cls_key(*fam.root)
        args = fn.args
        self.params = [a.arg for a in args.posonlyargs + args.args + args.kwonlyargs] + \
            ([args.vararg.arg] if args.vararg else []) + ([args.kwarg.arg] if args.kwarg else [])
        self.is_method = cls_key is not None and bool(self.params) and self.params[0] == 'self' \
            and not any(attr_chain(d) in ('staticmethod', 'classmethod') for d in fn.decorator_list)
        self.self_entry = self_entry
        self.accesses: T.List[Access] = []
        self.ret_status: Status = (CLEAN, '')
        self._ret_seen = False
        self.call_ret: T.Dict[int, Status] = {}
        self.cfg = fam.cfg(fn)
        self.out: T.Dict[int, State] = {}
        key = (id(fn), cls_key, self.extra_tracked)
        if key not in fam._static:
            self._pairs = self._assign_pairs_raw()
            fam._static[key] = (self._pairs, self._tracked(), self._may_alias(), self._handles())
        self._pairs, self.tracked, self.alias, self.handles = fam._static[key]
        self.exempt_self = ''
        # decorators: memoisation/typing decorators do not touch the list; a guard decorator of the module that flushes `self`
        # and then calls the method makes `self` clean at entry; anything else is not understood -> state of self unknown
        if self.is_method and fn.decorator_list:
            g = self._decorator_entry()
            if g is not None:
                self.self_entry = g
        self.role = fam.roles.get(fn.name, '') if self.is_method else ''
        if self.role in ('init', 'flush'):
            self.exempt_self = self.role

    HARMLESS_DECORATORS = {'T.overload', 'typing.overload', 'overload', 'lru_cache', 'functools.lru_cache', 'functools.cache', 'cache',
                           'abc.abstractmethod', 'abstractmethod', 'property', 'functools.cached_property', 'T.final', 'typing.final', 'final'}

    def _decorator_entry(self) -> T.Optional[Status]:
        entry: T.Optional[Status] = None
        for d in self.fn.decorator_list:
            name = attr_chain(d.func if isinstance(d, ast.Call) else d) or '?'
            if name in self.HARMLESS_DECORATORS:
                continue
            unknown: Status = (UNKNOWN, f'the decorator @{name} may run code before the method body')
            if isinstance(d, ast.Call) or not self.mod.has_func(name):
                return unknown
            deco = self.mod.func(name)
            body = [x for x in deco.body if not (isinstance(x, ast.Expr) and isinstance(x.value, ast.Constant))]
            params = [a.arg for a in deco.args.args]
            if len(params) != 1 or len(body) != 2 or not isinstance(body[0], ast.FunctionDef) or not isinstance(body[1], ast.Return) \
                    or attr_chain(_uncast(body[1].value)) != body[0].name:
                return unknown
            w = body[0]
            # the wrapper itself may only carry functools.wraps(<the method>): anything else may replace it
            if any(not (isinstance(wd, ast.Call) and attr_chain(wd.func) in ('wraps', 'functools.wraps') and len(wd.args) == 1
                        and attr_chain(wd.args[0]) == params[0]) for wd in w.decorator_list):
                return unknown
            wbody = [x for x in w.body if not (isinstance(x, ast.Expr) and isinstance(x.value, ast.Constant))]
            wparams = [a.arg for a in w.args.args]
            last = wbody[-1] if wbody else None
            if not wparams or not isinstance(last, ast.Return) or not isinstance(last.value, ast.Call) or attr_chain(last.value.func) != params[0] \
                    or not last.value.args or attr_chain(last.value.args[0]) != wparams[0]:
                return unknown
            prefix = [x for x in wbody[:-1] if not isinstance(x, ast.Pass)]
            if not prefix:
                continue
            if all(isinstance(x, ast.Expr) and isinstance(x.value, ast.Call) and attr_chain(x.value.func) == f'{wparams[0]}.{FLUSH}' and not x.value.args for x in prefix):
                entry = (CLEAN, f'flushed by the guard decorator @{name}')
            else:
                return unknown
        return entry

    # -- which receivers are lazy lists in this function -------------------------
    def _tracked(self) -> T.Set[str]:
        t: T.Set[str] = set(self.extra_tracked)
        if self.is_method:
            t.add('self')
        for n in walk_no_nested(self.fn, include_root=False):
            if isinstance(n, ast.Attribute) and n.attr == STORE:
                k = attr_chain(n.value)
                if k:
                    t.add(k)
        pairs = self._assign_pairs()
        for _ in range(6):
            for a, b in pairs:
                if (b in t or b == '<ctor>') and a not in t:
                    t.add(a)
                if a in t and b is not None and b not in t and not b.startswith('<'):
                    t.add(b)
                if a in t and b is not None and b.startswith('<recv>'):
                    t.add(b[6:])
        return t

    def _assign_pairs(self) -> T.List[T.Tuple[str, T.Optional[str]]]:
        return self._pairs

    def _assign_pairs_raw(self) -> T.List[T.Tuple[str, T.Optional[str]]]:
        """(target, source) for `t = s`, s a chain / arm of a conditional expression / `<fresh>` for copy() or a constructor."""
        out: T.List[T.Tuple[str, T.Optional[str]]] = []
        for n in walk_no_nested(self.fn, include_root=False):
            if isinstance(n, ast.Assign) and len(n.targets) == 1:
                tgt, val = n.targets[0], n.value
            elif isinstance(n, ast.AnnAssign) and n.value is not None:
                tgt, val = n.target, n.value
            elif isinstance(n, ast.NamedExpr):
                tgt, val = n.target, n.value
            else:
                continue
            tk = attr_chain(tgt)
            if tk is None:
                continue
            for arm in _arms(val):
                k = attr_chain(arm)
                if k is not None:
                    out.append((tk, k))
                elif self._is_fresh(arm):
                    out.append((tk, '<fresh>'))
                    if self._ctor_of(arm) is not None:
                        out.append((tk, '<ctor>'))   # built by a constructor of the family: a lazy list by construction
                    if self._ctor_of(arm) is None:   # K.copy(): K is a lazy list whenever the target is one
                        out.append((tk, '<recv>' + attr_chain(arm.func.value)))  # type: ignore[attr-defined,operator]
        return out

    def _handles(self) -> T.Dict[str, T.Optional[str]]:
        """Locals that hold the raw list of a receiver or a bound method of it (`direct = X._container.append`,
        `items = X._container`): local name -> receiver key (None: the name is also bound to something else).
        Using such a handle later is an access to X._container at the point of use."""
        raw: T.Dict[str, T.Set[T.Optional[str]]] = {}
        binds: T.List[T.Tuple[str, ast.AST]] = []
        for n in walk_no_nested(self.fn, include_root=False):
            if isinstance(n, ast.Assign):
                for t in n.targets:
                    if isinstance(t, ast.Name):
                        binds.append((t.id, n.value))
                    else:
                        for x in ast.walk(t):
                            if isinstance(x, ast.Name) and isinstance(x.ctx, ast.Store):
                                binds.append((x.id, ast.Constant(value=None)))
            elif isinstance(n, (ast.AnnAssign, ast.NamedExpr)) and isinstance(n.target, ast.Name) and n.value is not None:
                binds.append((n.target.id, n.value))
            elif isinstance(n, (ast.For, ast.AsyncFor, ast.comprehension)):
                for x in ast.walk(n.target):
                    if isinstance(x, ast.Name):
                        binds.append((x.id, ast.Constant(value=None)))
            elif isinstance(n, ast.withitem) and n.optional_vars is not None:
                for x in ast.walk(n.optional_vars):
                    if isinstance(x, ast.Name):
                        binds.append((x.id, ast.Constant(value=None)))
        out: T.Dict[str, T.Optional[str]] = {}
        for _ in range(4):
            raw = {}
            for name, val in binds:
                owner: T.Optional[str] = None
                for arm in _arms(val):
                    c = attr_chain(arm)
                    k: T.Optional[str] = None
                    if c is not None:
                        parts = c.split('.')
                        if STORE in parts[1:]:
                            k = '.'.join(parts[:parts.index(STORE, 1)])
                        elif parts[0] in out and out[parts[0]] is not None and parts[0] != name:
                            k = out[parts[0]]
                    raw.setdefault(name, set()).add(k)
                    owner = k
                del owner
            new = {n_: (next(iter(ks)) if len(ks) == 1 else None) for n_, ks in raw.items() if any(k is not None for k in ks)}
            if new == out:
                break
            out = new
        return out

    def _is_fresh(self, e: ast.AST) -> bool:
        if not isinstance(e, ast.Call):
            return False
        if self._ctor_of(e) is not None:
            return True
        return isinstance(e.func, ast.Attribute) and e.func.attr in ('copy', '__add__', '__radd__', '__iadd__') and attr_chain(e.func.value) is not None

    def _ctor_of(self, call: ast.Call) -> T.Optional[str]:
        """Family class key when `call` constructs a family object."""
        f = call.func
        if isinstance(f, ast.Call) and isinstance(f.func, ast.Name) and f.func.id == 'type' and len(f.args) == 1:
            k = attr_chain(f.args[0])
            if k is not None and (k == 'self' and self.is_method):
                return self.dispatch
            return None
        n = attr_chain(f)
        if n is None:
            return None
        if n in ('cls', 'self.__class__') and self.cls_key is not None:
            return self.dispatch
        if isinstance(f, ast.Name) and self.is_method:
            # a local bound only to the dynamic class: k = type(self) / self.__class__
            vals = [x.value for x in walk_no_nested(self.fn, include_root=False)
                    if isinstance(x, ast.Assign) and any(isinstance(t, ast.Name) and t.id == f.id for t in x.targets)]
            if vals and all(norm(v) in ('type(self)', 'self.__class__') for v in vals) and f.id not in self.params:
                return self.dispatch
        return self.fam.resolve_member(self.mod, n)

    def _may_alias(self) -> T.Dict[str, T.Set[str]]:
        groups: T.Dict[str, T.Set[str]] = {}
        for a, b in self._assign_pairs():
            if b is None or b.startswith('<'):
                continue
            ga = groups.setdefault(a, {a})
            gb = groups.setdefault(b, {b})
            if ga is not gb:
                ga |= gb
                for x in gb:
                    groups[x] = ga
        return groups

    # -- state ------------------------------------------------------------------
    def default(self, key: str) -> Status:
        root = key.split('.')[0]
        if key in self.entry:
            return self.entry[key]
        if root == 'self' and key == 'self' and self.self_entry is not None:
            return self.self_entry
        if root in self.params:
            return (DIRTY, f'`{key}` comes in from the caller and may hold pending pre/post entries')
        return (UNKNOWN, f'`{key}` has no known origin')

    def get(self, st: State, key: str) -> Status:
        return st.get(key) or self.default(key)

    def dirty(self, st: State, key: str, why: str) -> None:
        for k in self.alias.get(key, {key}):
            if k == key or k in st or k in self.tracked:
                st[k] = (DIRTY, why)

    def exit_status(self, key: str) -> Status:
        st = self.out.get(self.cfg.exit_return.id)
        if st is None:
            return (CLEAN, 'does not return')
        return self.get(st, key)

    # -- driver -----------------------------------------------------------------
    def run(self) -> 'Analysis':
        for n in walk_no_nested(self.fn, include_root=False):
            if isinstance(n, (ast.FunctionDef, ast.AsyncFunctionDef, ast.Lambda)):
                if any(isinstance(x, ast.Attribute) and x.attr in (STORE, FLUSH) for x in ast.walk(n)):
                    raise Undecided(f'{self.qname}: nested function/lambda touches the lazy list: {short(n, 60)}')
        cfg = self.cfg
        edge: T.Dict[T.Tuple[int, int], State] = {(-1, cfg.entry.id): {}}
        preds: T.Dict[int, T.List[int]] = {cfg.entry.id: [-1]}
        self.out = {}
        work = [cfg.entry.id]
        rounds = 0
        while work:
            rounds += 1
            if rounds > 20000:
                raise Undecided(f'{self.qname}: typestate does not converge')
            nid = work.pop()
            node = cfg.nodes[nid]
            st_in, st_out = self._node(node, edge, preds, record=False)
            self.out[nid] = st_out
            for succ, lab in cfg.succ[nid]:
                src = join_states(st_in, st_out, self.default) if lab == 'exc' else st_out
                old = edge.get((nid, succ))
                new = src if old is None else join_states(old, src, self.default)
                if old is None or _lv(new) != _lv(old):
                    edge[(nid, succ)] = new
                    if nid not in preds.setdefault(succ, []):
                        preds[succ].append(nid)
                    if succ not in work:
                        work.append(succ)
        # final pass: record accesses / result status with the converged in-states
        self.accesses = []
        self.ret_status = (CLEAN, '')
        self._ret_seen_final = False
        for nid in sorted(preds):
            self._node(cfg.nodes[nid], edge, preds, record=True)
        return self

    def _join_edges(self, nid: int, ps: T.List[int], edge: T.Dict[T.Tuple[int, int], State]) -> T.Optional[State]:
        cur: T.Optional[State] = None
        for p in ps:
            s = edge[(p, nid)]
            cur = dict(s) if cur is None else join_states(cur, s, self.default)
        return cur

    def _node(self, node: Node, edge: T.Dict[T.Tuple[int, int], State], preds: T.Dict[int, T.List[int]], record: bool) -> T.Tuple[State, State]:
        ps = preds.get(node.id, [])
        if node.kind == 'iter':
            # the iterable is evaluated (and a lazy list flushed by __iter__) once, on entry from outside the loop;
            # states arriving over the back edges keep what the loop body did
            body_ids = {id(x) for s in node.ast.body for x in ast.walk(s)}  # type: ignore[union-attr]
            back = [p for p in ps if p >= 0 and id(self.cfg.nodes[p].ast) in body_ids]
            outside = [p for p in ps if p not in back]
            st_o = self._join_edges(node.id, outside, edge)
            st_b = self._join_edges(node.id, back, edge)
            st_in = dict(st_o) if st_o is not None else {}
            if st_o is not None:
                out = self.transfer(node, dict(st_o), record)
            else:
                out = None  # type: ignore[assignment]
            if st_b is not None:
                self.bind_unknown(node.ast.target, st_b)  # type: ignore[union-attr]
                out = st_b if out is None else join_states(out, st_b, self.default)
                st_in = join_states(st_in, st_b, self.default)
            return st_in, out
        st_in = self._join_edges(node.id, ps, edge) or {}
        return st_in, self.transfer(node, dict(st_in), record)

    def transfer(self, node: Node, st: State, record: bool) -> State:
        self._record = record
        self._top: ast.AST = node.ast if node.ast is not None else self.fn
        k = node.kind
        a = node.ast
        if k == 'test':
            self._top = a.test  # type: ignore[union-attr]
            self.ev(a.test, st, False)  # type: ignore[union-attr]
        elif k == 'iter':
            self._top = a.iter  # type: ignore[union-attr]
            self.ev(a.iter, st, False)  # type: ignore[union-attr]
            self.apply_dunder(a.iter, '__iter__', st, False)  # type: ignore[union-attr]
            self.bind_unknown(a.target, st)  # type: ignore[union-attr]
        elif k == 'with_enter':
            for it in a.items:  # type: ignore[union-attr]
                self.ev(it.context_expr, st, False)
                if it.optional_vars is not None:
                    self.bind_unknown(it.optional_vars, st)
        elif k == 'handler':
            if a.name:  # type: ignore[union-attr]
                st.pop(a.name, None)  # type: ignore[union-attr]
        elif k == 'stmt':
            self.stmt(a, st)  # type: ignore[arg-type]
        return st

    def bind_unknown(self, target: ast.AST, st: State) -> None:
        for n in ast.walk(target):
            kk = attr_chain(n)
            if kk is not None and isinstance(n, (ast.Name, ast.Attribute)) and isinstance(getattr(n, 'ctx', None), ast.Store):
                st[kk] = (UNKNOWN, f'`{kk}` is bound by a loop/with/unpacking target')
                st.pop(HANDLE + kk, None)
        # stores through the target (x._container[i] as loop target) are not an idiom of this code
        for n in ast.walk(target):
            if isinstance(n, ast.Attribute) and n.attr == STORE:
                raise Undecided(f'{self.qname}: {STORE} used as a binding target')

    # -- statements ---------------------------------------------------------------
    def stmt(self, s: ast.stmt, st: State) -> None:
        if isinstance(s, (ast.FunctionDef, ast.AsyncFunctionDef, ast.ClassDef)):
            return
        if isinstance(s, ast.Assign) and len(s.targets) == 1 and isinstance(s.targets[0], ast.Name) and self._bound_method(s.value) is not None:
            recv, meth = T.cast(T.Tuple[str, str], self._bound_method(s.value))
            st[BOUND + s.targets[0].id] = (CLEAN, f'{recv}|{meth}')     # A3: method selected first, called later
            return
        if isinstance(s, ast.Assign):
            for t in s.targets:
                if isinstance(t, ast.Name):
                    st.pop(BOUND + t.id, None)
            self.ev(s.value, st, False)
            res = self.expr_status(s.value, st)
            for t in s.targets:
                self.store(t, res, s.value, st)
            return
        if isinstance(s, ast.AnnAssign):
            if s.value is not None:
                self.ev(s.value, st, False)
                self.store(s.target, self.expr_status(s.value, st), s.value, st)
            return
        if isinstance(s, ast.AugAssign):
            self.ev(s.value, st, False)
            self.passed(s.value, st, 'an in-place operator')
            t = s.target
            tk = attr_chain(t)
            if isinstance(t, ast.Attribute) and t.attr == STORE:
                self.ev(t.value, st, False)
                self.access(t, st)
            elif tk is not None and tk in self.tracked:
                if isinstance(s.op, ast.Add):
                    self.method_effect(tk, '__iadd__', st, False, s)
                else:
                    st[tk] = (UNKNOWN, f'`{norm(s)}`')
            elif tk is not None and self._queue_of(t) is not None:
                self.dirty(st, self._queue_of(t), f'`{short(s, 60)}` adds to a pending queue')  # type: ignore[arg-type]
            else:
                self.ev(t, st, False)
            return
        if isinstance(s, ast.Return):
            if s.value is not None:
                self.ev(s.value, st, False)
                r = self.expr_status(s.value, st)
            else:
                r = (UNKNOWN, 'None')
            if self._record:
                self.ret_status = r if not self._ret_seen_final else join(self.ret_status, r)
                self._ret_seen_final = True
            return
        if isinstance(s, ast.Delete):
            for t in s.targets:
                self.ev(t, st, False)
                kk = attr_chain(t)
                if kk is not None:
                    st.pop(kk, None)
            return
        for ch in ast.iter_child_nodes(s):
            self.ev(ch, st, False)

    _ret_seen_final = False

    def _bound_method(self, e: ast.AST) -> T.Optional[T.Tuple[str, str]]:
        """`X.m` (not called) with X a tracked list and m a method of the family."""
        if isinstance(e, ast.Attribute) and isinstance(e.ctx, ast.Load):
            k = attr_chain(e.value)
            if k is not None and k in self.tracked and (e.attr == FLUSH or self.fam.summary(self.dispatch, e.attr) is not None):
                return k, e.attr
        return None

    def _queue_of(self, e: ast.AST) -> T.Optional[str]:
        """`X.pre` / `X.post` with X tracked -> key of X."""
        if isinstance(e, ast.Attribute) and e.attr in QUEUES:
            kk = attr_chain(e.value)
            if kk is not None and kk in self.tracked:
                return kk
        return None

    def store(self, target: ast.AST, res: Status, value: ast.AST, st: State) -> None:
        if isinstance(target, (ast.Tuple, ast.List)):
            self.bind_unknown(target, st)
            return
        if isinstance(target, ast.Attribute) and target.attr == STORE:
            self.ev(target.value, st, False)
            self.access(target, st)
            return
        q = self._queue_of(target)
        if q is not None:
            if self.exempt_self == 'flush' and q == 'self':
                return
            if _is_empty(value):
                return
            src = _queue_copy_of(value)
            sk = attr_chain(src.value) if src is not None else None
            if sk is not None and sk in self.tracked and sk != q:
                # X.pre = <copy of Y.pre>: X's queue holds what Y's held - X is at most as unflushed as Y was
                ys = self.get(st, sk)
                if ys[0] != CLEAN:
                    why = f'`{short(target)} = {short(value, 40)}` takes over the pending entries of `{sk}`'
                    if ys[0] == DIRTY:
                        self.dirty(st, q, why)
                    else:
                        st[q] = join(self.get(st, q), (UNKNOWN, why))
                return
            self.dirty(st, q, f'`{short(target)} = {short(value, 40)}` puts entries in a pending queue')
            return
        if isinstance(target, ast.Subscript):
            self.ev(target, st, False)
            return
        kk = attr_chain(target)
        if isinstance(target, ast.Name) and target.id in self.handles:
            owners: T.Set[T.Optional[str]] = set()
            for arm in _arms(value):
                c = attr_chain(arm)
                k: T.Optional[str] = None
                if c is not None:
                    parts = c.split('.')
                    if STORE in parts[1:]:
                        k = '.'.join(parts[:parts.index(STORE, 1)])
                    else:
                        h = st.get(HANDLE + parts[0], NOT_HANDLE)
                        if h == MIXED:
                            raise Undecided(f'{self.qname}: `{parts[0]}` holds a raw _container on some paths only')
                        k = h[1] or None
                if k is not None and k.split('.')[0] == target.id:
                    k = None       # `x = x._container`: the owner is no longer reachable by name, nothing here can re-queue into it
                owners.add(k)
            if owners == {None}:
                st.pop(HANDLE + target.id, None)
            elif len(owners) == 1:
                st[HANDLE + target.id] = (CLEAN, next(iter(owners)))  # type: ignore[assignment]
            else:
                st[HANDLE + target.id] = MIXED
        if kk is not None:
            if kk in self.tracked or kk in st:
                st[kk] = res
            # whatever was known about sub-chains of the rebound name is gone
            for k2 in [x for x in st if x.startswith(kk + '.')]:
                del st[k2]
            return
        self.ev(target, st, False)

    # -- expressions --------------------------------------------------------------
    def expr_status(self, e: ast.AST, st: State) -> Status:
        kk = attr_chain(e)
        if kk is not None:
            if kk in self.tracked:
                return self.get(st, kk)
            return (UNKNOWN, f'value of `{kk}`')
        if isinstance(e, ast.IfExp):
            return join(self.expr_status(e.body, st), self.expr_status(e.orelse, st))
        if isinstance(e, ast.NamedExpr):
            return self.expr_status(e.value, st)
        if isinstance(e, ast.Call):
            if id(e) in self.call_ret:
                return self.call_ret[id(e)]
            ck = self._ctor_of(e)
            if ck is not None:
                return self.fam.ctor_status(ck)
        return (UNKNOWN, f'value of `{short(e, 50)}`')

    def access(self, node: T.Any, st: State, owner: T.Optional[str] = None) -> None:
        if not self._record:
            return
        if owner is not None:      # use of a captured handle of owner._container
            s = self.get(st, owner)
            if s[0] != CLEAN:
                s = (s[0], s[1] + f'; `{node.id}` was bound to {owner}.{STORE} earlier and is used here')
            exempt = self.exempt_self if (owner == 'self' and self.exempt_self) else ''
            self.accesses.append(Access(self.qname, owner, node, s, exempt, self._top))
            return
        kk = attr_chain(node.value)
        if kk is None:
            s = self.expr_status(node.value, st)
        else:
            s = self.get(st, kk)
        exempt = self.exempt_self if (kk == 'self' and self.exempt_self) else ''
        self.accesses.append(Access(self.qname, kk or norm(node.value), node, s, exempt, self._top))

    def method_effect(self, key: str, meth: str, st: State, cond: bool, where: ast.AST) -> Status:
        """Apply the effect of calling family method `meth` on receiver `key`; returns the status of the result."""
        entry = self.get(st, key)
        if meth == FLUSH:
            if cond:
                if entry[0] == DIRTY:
                    st[key] = (UNKNOWN, f'`{key}` is flushed only conditionally inside `{short(where, 60)}`')
            else:
                st[key] = (CLEAN, 'flushed')
            return (UNKNOWN, 'None')
        summ = self.fam.summary(self.dispatch, meth)
        if summ is None:
            st[key] = join(entry, (UNKNOWN, f'`{key}.{meth}(...)` is not a method of the family, effect unknown'))
            return (UNKNOWN, f'result of {meth}')
        if entry[0] == UNKNOWN:
            ret = join(summ.ret[0], summ.ret[1])
            if summ.exit_self[0][0] == CLEAN and summ.exit_self[1][0] == CLEAN:
                new = (CLEAN, f'{meth} flushes')
            elif summ.exit_self[0][0] == DIRTY:
                new = summ.exit_self[0]
            else:
                new = (UNKNOWN, entry[1])
        else:
            i = 0 if entry[0] == CLEAN else 1
            ex, ret = summ.exit_self[i], summ.ret[i]
            new = ex
        if new[0] == DIRTY:
            why = f'`{short(where, 60)}` ({meth}) leaves entries pending in `{key}`' if entry[0] == CLEAN or not entry[1] else entry[1]
            if summ.exit_self[0][0] == DIRTY:
                why = f'`{short(where, 60)}` ({meth}) queues entries in `{key}.pre`/`{key}.post`'
            self.dirty(st, key, why)
        elif new[0] == CLEAN:
            if cond and entry[0] != CLEAN:
                st[key] = (UNKNOWN, f'`{key}` is flushed only conditionally inside `{short(where, 60)}`')
            else:
                st[key] = (CLEAN, f'{meth} flushes')
        else:
            st[key] = new
        return ret

    def apply_dunder(self, operand: ast.AST, dunder: T.Optional[str], st: State, cond: bool) -> None:
        kk = attr_chain(operand)
        if dunder is None or kk is None or kk not in self.tracked:
            return
        self.method_effect(kk, dunder, st, cond, operand)

    def passed(self, e: ast.AST, st: State, to: str) -> None:
        """A tracked list handed as a whole to something we do not model."""
        kk = attr_chain(e)
        if kk is not None and kk in self.tracked:
            cur = self.get(st, kk)
            st[kk] = join(cur, (UNKNOWN, f'`{kk}` is handed to {to}')) if cur[0] != DIRTY else cur
            if cur[0] == DIRTY:
                # it may have been flushed by the callee: cannot tell any more
                st[kk] = (UNKNOWN, f'`{kk}` (possibly unflushed) is handed to {to}')

    def ev(self, e: T.Optional[ast.AST], st: State, cond: bool) -> None:
        if e is None:
            return
        if isinstance(e, (ast.Lambda, ast.FunctionDef, ast.AsyncFunctionDef, ast.ClassDef)):
            return
        if isinstance(e, ast.Name):
            if isinstance(e.ctx, ast.Load) and e.id in self.handles:
                h = st.get(HANDLE + e.id, NOT_HANDLE)
                if h == MIXED:
                    raise Undecided(f'{self.qname}: `{e.id}` holds a raw _container (or a bound method of it) on some paths only')
                if h[1]:
                    self.access(e, st, h[1])
            return
        if isinstance(e, ast.Attribute):
            self.ev(e.value, st, cond)
            if e.attr == STORE:
                self.access(e, st)
            bm = self._bound_method(e)
            if bm is not None:
                # a method of the list escapes uncalled (stored in a container, passed on ...): whoever calls it later may
                # flush or queue -> the state of the list is not known from here on
                cur = self.get(st, bm[0])
                st[bm[0]] = (UNKNOWN, f'the bound method `{norm(e)}` is taken without being called; it may be called later')
                del cur
            return
        if isinstance(e, ast.BoolOp):
            self.ev(e.values[0], st, cond)
            for v in e.values[1:]:
                self.ev(v, st, True)
            return
        if isinstance(e, ast.IfExp):
            self.ev(e.test, st, cond)
            self.ev(e.body, st, True)
            self.ev(e.orelse, st, True)
            return
        if isinstance(e, (ast.ListComp, ast.SetComp, ast.GeneratorExp, ast.DictComp)):
            for i, g in enumerate(e.generators):
                self.ev(g.iter, st, cond or i > 0)
                self.apply_dunder(g.iter, '__iter__', st, cond or i > 0)
                for c in g.ifs:
                    self.ev(c, st, True)
            if isinstance(e, ast.DictComp):
                self.ev(e.key, st, True)
                self.ev(e.value, st, True)
            else:
                self.ev(e.elt, st, True)
            return
        if isinstance(e, ast.Call):
            self.call(e, st, cond)
            return
        if isinstance(e, ast.Subscript):
            self.ev(e.value, st, cond)
            self.ev(e.slice, st, cond)
            d = {'Load': '__getitem__', 'Store': '__setitem__', 'Del': '__delitem__'}[e.ctx.__class__.__name__]
            self.apply_dunder(e.value, d, st, cond)
            return
        if isinstance(e, ast.Compare):
            self.ev(e.left, st, cond)
            prev = e.left
            for i, (op, c) in enumerate(zip(e.ops, e.comparators)):
                cc = cond or i > 0
                self.ev(c, st, cc)
                if isinstance(op, (ast.Eq, ast.NotEq)):
                    if attr_chain(prev) in self.tracked:
                        self.apply_dunder(prev, '__eq__', st, cc)
                        self.passed(c, st, 'a comparison')
                    elif attr_chain(c) in self.tracked:
                        self.apply_dunder(c, '__eq__', st, cc)
                elif isinstance(op, (ast.In, ast.NotIn)):
                    self.apply_dunder(c, '__contains__', st, cc)
                prev = c
            return
        if isinstance(e, ast.BinOp):
            self.ev(e.left, st, cond)
            self.ev(e.right, st, cond)
            if isinstance(e.op, ast.Add):
                if attr_chain(e.left) in self.tracked:
                    self.apply_dunder(e.left, '__add__', st, cond)
                    self.passed(e.right, st, 'an addition')
                elif attr_chain(e.right) in self.tracked:
                    self.apply_dunder(e.right, '__radd__', st, cond)
            return
        if isinstance(e, ast.NamedExpr):
            self.ev(e.value, st, cond)
            self.store(e.target, self.expr_status(e.value, st), e.value, st)
            return
        if isinstance(e, ast.Starred):
            self.ev(e.value, st, cond)
            self.apply_dunder(e.value, '__iter__', st, cond)
            return
        if isinstance(e, (ast.JoinedStr,)):
            for v in e.values:
                if isinstance(v, ast.FormattedValue):
                    self.ev(v.value, st, cond)
                    self.apply_dunder(v.value, '__repr__', st, cond)
            return
        for ch in ast.iter_child_nodes(e):
            if isinstance(ch, (ast.expr, ast.keyword, ast.comprehension, ast.stmt)):
                self.ev(ch if not isinstance(ch, ast.keyword) else ch.value, st, cond)

    def call(self, e: ast.Call, st: State, cond: bool) -> None:
        f = e.func
        args = list(e.args) + [k.value for k in e.keywords]
        # receiver / callee expression first, then the arguments, then the call itself
        recv_key: T.Optional[str] = None
        meth: T.Optional[str] = None
        if isinstance(f, ast.Attribute):
            meth = f.attr
            recv_key = attr_chain(f.value)
            self.ev(f.value, st, cond)      # also sees X._container inside the receiver chain
        else:
            self.ev(f, st, cond)
        for a in args:
            self.ev(a, st, cond)
        # family method on a tracked receiver
        if recv_key is not None and recv_key in self.tracked and meth is not None and not (meth == '__class__' and self._ctor_of(e) is not None):
            self.arg_effects(e, args, st, cond, f'`{recv_key}.{meth}`')
            self.call_ret[id(e)] = self.method_effect(recv_key, meth, st, cond, e)
            return
        # mutation of a pending queue: X.pre.extendleft(...), X.post.append(...)
        if isinstance(f, ast.Attribute):
            q = self._queue_of(f.value)
            if q is not None and meth in QUEUE_MUTATORS and not (self.exempt_self == 'flush' and q == 'self'):
                self.dirty(st, q, f'`{short(e, 60)}` queues an entry in `{norm(f.value)}`')
                return
            if q is not None:
                return
        # super().m(...)
        if isinstance(f, ast.Attribute) and isinstance(f.value, ast.Call) and attr_chain(f.value.func) == 'super' and self.is_method:
            self.call_ret[id(e)] = self.method_effect('self', f.attr, st, cond, e)
            return
        if isinstance(f, ast.Name) and (BOUND + f.id) in st:
            b = st[BOUND + f.id]
            if b == MIXED:
                raise Undecided(f'{self.qname}: `{f.id}` is a bound method of a lazy list on some paths only')
            if b[1]:
                recv, meth = b[1].split('|')
                self.arg_effects(e, args, st, cond, f'`{recv}.{meth}`')
                self.call_ret[id(e)] = self.method_effect(recv, meth, st, cond, e)
                return
        name = attr_chain(f)
        if name in BUILTIN_ON_ARG:
            for a in args:
                self.apply_dunder(a, BUILTIN_ON_ARG[name], st, cond)
            return
        ck = self._ctor_of(e)
        if ck is not None:
            # the constructor flushes a family object given as source (checked on __init__ itself)
            for a in args:
                kk = attr_chain(a)
                if kk is not None and kk in self.tracked:
                    self.passed(a, st, 'a constructor of the family')
            self.call_ret[id(e)] = self.fam.ctor_status(ck)
            return
        self.arg_effects(e, args, st, cond, f'`{short(f, 40)}(...)`')

    def arg_effects(self, e: ast.Call, args: T.List[ast.AST], st: State, cond: bool, to: str) -> None:
        """Lists handed to a callee: follow a resolvable repository callee (arguments bound to its parameters by
        position or keyword) and apply what it does to that parameter; anything else makes the list `unknown`."""
        mine = [a for a in args if attr_chain(a) is not None and attr_chain(a) in self.tracked]
        if not mine:
            return
        res = self.fam.resolve_callee(self, e)
        binding = self.fam.bind(res[1], e, res[3]) if res is not None else None
        for a in mine:
            kk = T.cast(str, attr_chain(a))
            if res is None or binding is None or id(a) not in binding:
                self.passed(a, st, to)
                continue
            pname = binding[id(a)]
            cur = self.get(st, kk)
            if self._record:
                self.fam.sites.setdefault((id(res[1]), pname), []).append((cur, self.qname))
            if cur[0] == UNKNOWN:
                continue
            eff = self.fam.param_effect(res[0], res[1], res[2], pname, (cur[0], cur[1]))
            if eff[0] == CLEAN:
                st[kk] = (CLEAN, f'{res[1].name} leaves it flushed') if (cur[0] == CLEAN or not cond) else \
                    (UNKNOWN, f'`{kk}` is flushed only conditionally inside `{short(e, 60)}`')
            elif eff[0] == DIRTY:
                self.dirty(st, kk, eff[1] if cur[0] == DIRTY else f'`{short(e, 60)}`: {res[1].name} queues entries in its parameter `{pname}` ({eff[1]})')
            else:
                st[kk] = (UNKNOWN, f'`{kk}` is handed to {res[1].name}: {eff[1]}')


def _arms(e: ast.AST) -> T.List[ast.AST]:
    if isinstance(e, ast.IfExp):
        return _arms(e.body) + _arms(e.orelse)
    if isinstance(e, ast.NamedExpr):
        return _arms(e.value)
    return [e]


COPY_CALLS = {'list', 'tuple', 'collections.deque', 'deque', 'copy.copy', 'reversed', 'iter'}


def _queue_copy_of(v: ast.AST) -> T.Optional[ast.Attribute]:
    """`Y.pre` / `Y.post` behind any of the copy spellings (A5): Y.pre.copy(), list(Y.pre), deque(Y.pre), Y.pre[:], [*Y.pre],
    type(Y.pre)(Y.pre), or the queue object itself."""
    for _ in range(4):
        if isinstance(v, ast.Attribute) and v.attr in QUEUES:
            return v
        if isinstance(v, ast.Call) and isinstance(v.func, ast.Attribute) and v.func.attr == 'copy' and not v.args and not v.keywords:
            v = v.func.value
        elif isinstance(v, ast.Call) and len(v.args) == 1 and not v.keywords and not isinstance(v.args[0], ast.Starred) \
                and (attr_chain(v.func) in COPY_CALLS or (isinstance(v.func, ast.Call) and attr_chain(v.func.func) == 'type')):
            v = v.args[0]
        elif isinstance(v, ast.Subscript) and isinstance(v.slice, ast.Slice) and v.slice.lower is None and v.slice.upper is None:
            v = v.value
        elif isinstance(v, (ast.List, ast.Tuple)) and len(v.elts) == 1 and isinstance(v.elts[0], ast.Starred):
            v = v.elts[0].value
        else:
            return None
    return None


def _is_empty(v: ast.AST) -> bool:
    if isinstance(v, (ast.List, ast.Tuple, ast.Set)) and not v.elts:
        return True
    if isinstance(v, ast.Dict) and not v.keys:
        return True
    if isinstance(v, ast.Call) and attr_chain(v.func) in EMPTY_CTORS and not v.args and not v.keywords:
        return True
    return False


def _lv(st: State) -> T.Dict[str, T.Any]:
    return {k: (v if k.startswith('@') else v[0]) for k, v in st.items() if not (k.startswith('@') and v == NOT_HANDLE)}
