"""C13 helper: the pending state as one unit (R8) and the integrity of a batch (R9).

R8  who-may-write on the pending queues.  `pre`/`post` hold *classified* entries: the only statements that may put something
    into them are the classified loop of the by-design queueing method (`__iadd__` and private helpers only it calls; R3 reads
    its table: OVERRIDDEN -> needs_override_check) and the flush (which empties them).  Any other statement that puts entries
    into X.pre / X.post (a state transfer: lazy copy, constructor taking over the queues of its source ...) must, on every path,
    also set X.needs_override_check - to True, or to the flag of the object the entries were taken from.  Otherwise the
    next flush of X takes the fast path and override-type duplicates survive.
R9  a batch stays a batch.  `extend` must be defined by the family (the inherited MutableSequence.extend appends element by
    element) and must hand its argument over as ONE increment; no family method forwards the elements of an iterable one by
    one to append / += [x] / extend([x]) in a loop (each prepend-type element would become a batch of its own and the batch
    comes out reversed).
"""
from __future__ import annotations

import ast
import typing as T

from ..core import AnalysisError, Module, Undecided, attr_chain, norm, short
from ..paths import enumerate_paths
from ..report import RuleCtx
from . import c13_lazy as lazy
from . import c13_tables as tabs

FLAG = 'needs_override_check'
FILL_METHODS = {'append', 'appendleft', 'extend', 'extendleft', 'insert', '__iadd__'}


class Fill(T.NamedTuple):
    recv: str                   # receiver chain of the queue that is filled
    queue: str                  # pre | post
    src: T.Optional[str]        # receiver whose queue the entries are taken from (None: something else)
    node: ast.AST


def _fills_of(e: ast.AST) -> T.List[Fill]:
    out: T.List[Fill] = []

    def queue(x: ast.AST) -> T.Optional[T.Tuple[str, str]]:
        if isinstance(x, ast.Attribute) and x.attr in lazy.QUEUES and attr_chain(x.value) is not None:
            return T.cast(str, attr_chain(x.value)), x.attr
        return None

    def src_of(v: T.Optional[ast.AST], q: str) -> T.Optional[str]:
        a = lazy._queue_copy_of(v) if v is not None else None
        return attr_chain(a.value) if a is not None and a.attr == q else None
    if isinstance(e, (ast.Assign, ast.AnnAssign)) and getattr(e, 'value', None) is not None:
        for t in (e.targets if isinstance(e, ast.Assign) else [e.target]):
            pairs = list(zip(t.elts, e.value.elts)) if isinstance(t, (ast.Tuple, ast.List)) and isinstance(e.value, (ast.Tuple, ast.List)) \
                and len(t.elts) == len(e.value.elts) else [(t, e.value)]
            for tt, vv in pairs:
                qq = queue(tt)
                if qq is not None and not lazy._is_empty(vv):
                    out.append(Fill(qq[0], qq[1], src_of(vv, qq[1]), e))
                if isinstance(tt, ast.Subscript) and queue(tt.value) is not None:
                    qq = T.cast(T.Tuple[str, str], queue(tt.value))
                    out.append(Fill(qq[0], qq[1], None, e))
    elif isinstance(e, ast.AugAssign):
        qq = queue(e.target)
        if qq is not None:
            out.append(Fill(qq[0], qq[1], src_of(e.value, qq[1]), e))
    for c in ast.walk(e):
        if isinstance(c, ast.Call) and isinstance(c.func, ast.Attribute) and c.func.attr in FILL_METHODS:
            qq = queue(c.func.value)
            if qq is not None:
                out.append(Fill(qq[0], qq[1], src_of(c.args[-1], qq[1]) if c.args and c.func.attr in ('extend', 'extendleft', '__iadd__') else None, c))
    return out


def _flag_value(v: ast.AST) -> T.Any:
    """'true' | 'false' | frozenset(receivers whose flag is taken) | 'unknown'."""
    if isinstance(v, ast.Constant) and v.value is True:
        return 'true'
    if isinstance(v, ast.Constant) and v.value is False:
        return 'false'
    if isinstance(v, ast.Attribute) and v.attr == FLAG and attr_chain(v.value) is not None:
        return frozenset([attr_chain(v.value)])
    if isinstance(v, ast.Call) and attr_chain(v.func) == 'bool' and len(v.args) == 1 and not v.keywords:
        return _flag_value(v.args[0])
    if isinstance(v, ast.BoolOp) and isinstance(v.op, ast.Or):
        parts = [_flag_value(x) for x in v.values]
        if 'true' in parts:
            return 'true'
        if all(isinstance(p, frozenset) for p in parts):
            return frozenset().union(*parts)
    return 'unknown'


class Verdict(T.NamedTuple):
    kind: str          # ok | violation | undecided
    fill: Fill
    text: str


def judge_fills(fn: T.Any) -> T.List[Verdict]:
    """Every statement of `fn` that puts entries into a pending queue, with what the same path does to the flag of that object."""
    out: T.Dict[T.Tuple[str, str, str], Verdict] = {}
    rank = {'ok': 0, 'undecided': 1, 'violation': 2}
    for p in enumerate_paths(fn.body, unroll=1):
        if p.outcome not in ('return', 'fall'):
            continue
        fills: T.List[Fill] = []
        flags: T.Dict[str, T.Any] = {}
        private: T.Dict[str, str] = {}
        source_unflagged: T.Set[str] = set()       # objects whose flag was tested and found unset on this path
        for ev in p.events:
            e = ev.node
            if e is None:
                continue
            if ev.kind == 'cond' and isinstance(e, ast.Attribute) and e.attr == FLAG and attr_chain(e.value) is not None and ev.val is False:
                source_unflagged.add(T.cast(str, attr_chain(e.value)))
            roots = [e.iter] if ev.kind == 'iter' else [i.context_expr for i in e.items] if ev.kind == 'with' else [e]
            for r in roots:
                for c in ast.walk(r):
                    if isinstance(c, ast.Call) and isinstance(c.func, ast.Attribute) and c.func.attr.startswith('_') and not c.func.attr.endswith('__') \
                            and attr_chain(c.func.value) is not None and c.func.attr not in tabs.KEEP_CALLS:
                        private.setdefault(T.cast(str, attr_chain(c.func.value)), short(c, 50))
            if ev.kind != 'stmt':
                continue
            fills += _fills_of(e)
            if isinstance(e, (ast.Assign, ast.AnnAssign)) and getattr(e, 'value', None) is not None:
                for t in (e.targets if isinstance(e, ast.Assign) else [e.target]):
                    if isinstance(t, ast.Attribute) and t.attr == FLAG and attr_chain(t.value) is not None:
                        flags[T.cast(str, attr_chain(t.value))] = _flag_value(e.value)
            elif isinstance(e, ast.AugAssign) and isinstance(e.target, ast.Attribute) and e.target.attr == FLAG and attr_chain(e.target.value) is not None \
                    and isinstance(e.op, ast.BitOr):
                k = T.cast(str, attr_chain(e.target.value))
                fv = _flag_value(e.value)
                flags[k] = 'true' if fv == 'true' or flags.get(k) == 'true' else fv if isinstance(fv, frozenset) else 'unknown'
        for f in fills:
            fl = flags.get(f.recv)
            who = 'the object itself' if f.recv == 'self' else f'the derived object `{f.recv}`'
            where = f'on the path [{p.describe()[:140]}]'
            if fl is None and f.src is not None and f.src in source_unflagged:
                v = Verdict('ok', f, f'`{short(f.node, 60)}`: the entries come from `{f.src}`, whose flag is unset on this path')
            elif fl == 'true' or (isinstance(fl, frozenset) and f.src is not None and f.src in fl):
                v = Verdict('ok', f, f'`{short(f.node, 60)}`: the flag of {who} is set together with the entries')
            elif fl == 'unknown' or isinstance(fl, frozenset):
                v = Verdict('undecided', f, f'`{short(f.node, 60)}` fills {f.recv}.{f.queue} and the flag is set to something that is not True / the flag of the source of the entries')
            elif f.recv in private:
                v = Verdict('undecided', f, f'`{short(f.node, 60)}` fills {f.recv}.{f.queue}; `{private[f.recv]}` on the same path may set the flag')
            else:
                v = Verdict('violation', f, f'`{short(f.node, 70)}` puts entries into the pending queue `{f.queue}` of {who} {where} and '
                            f'{"resets" if fl == "false" else "never sets"} {f.recv}.{FLAG}: entries of unknown kind are pending, the next flush takes the fast path '
                            'and an override-type argument among them (-I/-L/-D/-U/-isystem) is merged without removing its duplicates')
            key = (f.recv, f.queue, norm(f.node))
            if key not in out or rank[v.kind] > rank[out[key].kind]:
                out[key] = v
    return list(out.values())


def construct_of(f: Fill) -> str:
    """Position-free and independent of local names: the roles only."""
    obj = 'self' if f.recv == 'self' else '<derived>'
    src = 'self' if f.src == 'self' else '<other>' if f.src else '<entries>'
    return f'{obj}.{f.queue} filled from {src} without {FLAG}'


EXAMPLE8 = '''
class K:
    def clone_forgets_flag(self):
        new = type(self)(self.compiler, self._container.copy())
        new.pre = self.pre.copy()
        new.post = list(self.post)
        return new

    def clone_whole_state(self):
        new = type(self)(self.compiler, self._container.copy())
        new.pre, new.post = self.pre.copy(), self.post.copy()
        new.needs_override_check = self.needs_override_check
        return new

    def take_over(self, other):
        self.post.extend(other.post)
        if other.needs_override_check:
            self.needs_override_check = True

    def take_over_resets(self, other):
        self.post += other.post
        self.needs_override_check = False
'''
EXAMPLE8_WANT = {'clone_forgets_flag': ['violation', 'violation'], 'clone_whole_state': ['ok', 'ok'], 'take_over': ['ok'], 'take_over_resets': ['violation']}


def r8(ctx: RuleCtx) -> None:
    from . import c13 as pack
    fam = pack.family(ctx.repo)
    ex = ast.parse(EXAMPLE8).body[0]
    for st in ex.body:      # type: ignore[attr-defined]
        got = sorted(v.kind for v in judge_fills(st))
        if got != sorted(EXAMPLE8_WANT[st.name]):
            raise AnalysisError(f'built-in example {st.name}: expected {EXAMPLE8_WANT[st.name]}, got {got}')
    ctx.note(f'built-in example: {len(EXAMPLE8_WANT)} synthetic state transfers judged as expected (flag forgotten / whole state / flag set when the source has it / flag reset)')
    n_classified = 0
    for m, c in fam.members:
        classified: T.List[str] = []
        quiet = 0
        undecided: T.List[str] = []
        for st in c.body:
            if not isinstance(st, (ast.FunctionDef, ast.AsyncFunctionDef)):
                if any(isinstance(n, ast.Attribute) and n.attr in lazy.QUEUES + (FLAG,) and isinstance(n.ctx, (ast.Store, ast.Del)) for n in ast.walk(st)):
                    raise Undecided(f'{c.name}: class-level statement `{short(st, 60)}` writes the pending state')
                continue
            qn = f'{c.name}.{st.name}'
            role = fam.roles.get(st.name)
            touches = any(isinstance(n, ast.Attribute) and n.attr in lazy.QUEUES for n in ast.walk(st))
            if role in ('design', 'flush'):
                if touches and role == 'design':
                    classified.append(st.name)
                continue
            fn = tabs._inline(m, c.name, st)
            if not any(isinstance(n, ast.Attribute) and n.attr in lazy.QUEUES for n in ast.walk(fn)):
                quiet += 1
                continue
            verdicts = judge_fills(fn)
            if not verdicts:
                quiet += 1
                continue
            for v in verdicts:
                if v.kind == 'violation':
                    ctx.violation(m, qn, construct_of(v.fill), f'{qn}: {v.text}', v.fill.node if hasattr(v.fill.node, 'lineno') else st)
                elif v.kind == 'undecided':
                    undecided.append(f'{qn}: {v.text}')
                else:
                    ctx.ok(f'{m.rel}: {qn}: {v.text}')
        if undecided:
            raise Undecided('; '.join(undecided[:3]))
        n_classified += len(classified)
        ctx.ok(f'{m.rel}: {c.name}: entries are queued only by the classified writer(s) {classified or "of the base class"} (table read by R3); '
               f'{quiet} other method(s) put nothing into pre/post')
    for rel, src in fam.texts.items():      # type: ignore[attr-defined]
        if FLAG in src and not any(m.rel == rel for m, _ in fam.members):
            raise Undecided(f'{rel}: {FLAG} is used outside the argument-list family')
    ctx.floor('classified writers of the pending queues', n_classified, 1)


# ---------------------------------------------------------------------------------------------------------------
# R9
# ---------------------------------------------------------------------------------------------------------------
WRAP = ('list', 'tuple')


def _unwrap(e: ast.AST) -> ast.AST:
    while isinstance(e, ast.Call) and attr_chain(e.func) in WRAP and len(e.args) == 1 and not e.keywords:
        e = e.args[0]
    return e


def _single(e: ast.AST) -> T.Optional[ast.AST]:
    """[x] / (x,) -> x"""
    if isinstance(e, (ast.List, ast.Tuple)) and len(e.elts) == 1 and not isinstance(e.elts[0], ast.Starred):
        return e.elts[0]
    return None


def _increments(fam: lazy.Family, mod: Module, stmt: ast.AST) -> T.List[T.Tuple[str, ast.AST, ast.AST]]:
    """Queueing operations on self in one statement: ('batch', iterable expr, node) | ('one', element expr, node)."""
    out: T.List[T.Tuple[str, ast.AST, ast.AST]] = []
    if isinstance(stmt, ast.AugAssign) and attr_chain(stmt.target) == 'self' and isinstance(stmt.op, ast.Add):
        one = _single(stmt.value)
        out.append(('one', one, stmt) if one is not None else ('batch', _unwrap(stmt.value), stmt))
    for c in ast.walk(stmt):
        if not (isinstance(c, ast.Call) and isinstance(c.func, ast.Attribute)) or c.keywords or any(isinstance(a, ast.Starred) for a in c.args):
            continue
        recv = attr_chain(c.func.value)
        args = list(c.args)
        if recv != 'self':
            # Class.m(self, x)
            if recv is not None and fam.resolve_member(mod, recv) is not None and args and attr_chain(args[0]) == 'self':
                args = args[1:]
            else:
                continue
        if c.func.attr in ('extend', '__iadd__') and len(args) == 1:
            one = _single(args[0])
            out.append(('one', one, c) if one is not None else ('batch', _unwrap(args[0]), c))
        elif c.func.attr == 'append' and len(args) == 1:
            out.append(('one', args[0], c))
    return out


def _class_alias(c: ast.ClassDef, name: str) -> T.Optional[str]:
    for st in c.body:
        if isinstance(st, ast.Assign) and len(st.targets) == 1 and isinstance(st.targets[0], ast.Name) and st.targets[0].id == name and isinstance(st.value, ast.Name):
            return st.value.id
    return None


def r9(ctx: RuleCtx) -> None:
    from . import c13 as pack
    fam = pack.family(ctx.repo)
    root_mod, root = fam.root
    root_key = fam.cls_key(root_mod, root)
    # (a) + (b): extend is the family's own and hands the batch over whole
    defs: T.Dict[int, T.Tuple[Module, ast.ClassDef, T.Any]] = {}
    for m, c in fam.members:
        ck = fam.cls_key(m, c)
        found = fam.find(ck, 'extend')
        alias = next((a for a in (_class_alias(c2, 'extend') for _, c2 in fam.mro(ck)) if a), None)
        if found is None and alias is not None:
            ctx.require(alias == '__iadd__', f'{c.name}.extend is the batch operation __iadd__ itself', m, c.name, 'extend alias',
                        f'{c.name}.extend is an alias of `{alias}`, not of the batch operation __iadd__', c)
            continue
        if found is None:
            if ck == root_key:
                ctx.violation(m, c.name, 'extend inherited from MutableSequence',
                              f'{c.name} does not define extend(): the inherited collections.abc.MutableSequence.extend calls append() once per element, so every '
                              'element becomes an increment of its own - the -I/-L arguments of one batch are each put in front of the previous one and come out '
                              'in reverse order (extend_preserving_lflags and every caller of extend() are affected)', c)
            continue
        defs[id(found[2])] = found
    for fm, fc, fn0 in defs.values():
        qn = f'{fc.name}.extend'
        fn = tabs._inline(fm, fc.name, fn0)
        params = [a.arg for a in fn.args.posonlyargs + fn.args.args if a.arg != 'self']
        if len(params) != 1 or fn.args.vararg or fn.args.kwarg:
            raise Undecided(f'{qn}: expected one iterable parameter')
        p_name = params[0]
        paths = [p for p in enumerate_paths(fn.body, unroll=1) if p.outcome in ('return', 'fall')]
        if not paths:
            raise Undecided(f'{qn}: no returning path')
        bad = False
        read: T.List[T.Tuple[T.Any, T.List[T.Tuple[str, ast.AST, ast.AST]], T.Set[str]]] = []
        for p in paths:
            incs: T.List[T.Tuple[str, ast.AST, ast.AST]] = []
            loop_vars: T.Set[str] = set()
            for ev in p.events:
                if ev.kind == 'iter' and ev.node is not None:
                    loop_vars |= {n.id for n in ast.walk(ev.node.target) if isinstance(n, ast.Name)}
                if ev.kind == 'stmt' and ev.node is not None:
                    incs += _increments(fam, fm, ev.node)
            read.append((p, incs, loop_vars))
        # paths that run a loop body first: a per-element increment is the finding, whatever the zero-iteration path looks like
        read.sort(key=lambda r: not any(i[0] == 'one' for i in r[1]))
        for p, incs, loop_vars in read:
            split = [i for i in incs if i[0] == 'one' and {n.id for n in ast.walk(i[1]) if isinstance(n, ast.Name)} & loop_vars]
            if split:
                ctx.violation(fm, qn, 'extend: one increment per element', f'{qn} queues the elements of its argument one by one (`{short(split[0][2], 50)}` in a loop): every '
                              'element is an increment of its own, so the -I/-L arguments of the batch come out in reverse order', split[0][2])
                bad = True
                break
            whole = [i for i in incs if i[0] == 'batch' and attr_chain(i[1]) == p_name]
            if len(whole) == 1 and len(incs) == 1:
                continue
            if not incs and not loop_vars:
                ctx.violation(fm, qn, 'extend: argument not queued', f'{qn} can return without queueing its argument (path: {p.describe()[:120]}): arguments are lost', fn0)
                bad = True
                break
            raise Undecided(f'{qn}: the argument is handed on as {[short(i[2], 40) for i in incs]}, not as one `self += {p_name}`')
        if not bad:
            ctx.ok(f'{fm.rel}: {qn}: the argument is handed to += as one batch on all {len(paths)} path(s)')
    # (a') append is the family's own and queues its argument through the classified writer as a batch of one
    app: T.Dict[int, T.Tuple[Module, ast.ClassDef, T.Any]] = {}
    for m, c in fam.members:
        ck = fam.cls_key(m, c)
        found = fam.find(ck, 'append')
        if found is None:
            if ck == root_key:
                ctx.violation(m, c.name, 'append inherited from MutableSequence',
                              f'{c.name} does not define append(): the inherited collections.abc.MutableSequence.append is insert(len(self), value) - the argument is '
                              'spliced in at the end, never put in front, never checked against the once-only / override tables', c)
            continue
        app[id(found[2])] = found
    for fm, fc, fn0 in app.values():
        qn = f'{fc.name}.append'
        fn = tabs._inline(fm, fc.name, fn0)
        params = [a.arg for a in fn.args.posonlyargs + fn.args.args if a.arg != 'self']
        if len(params) != 1 or fn.args.vararg or fn.args.kwarg:
            raise Undecided(f'{qn}: expected one parameter')
        paths = [p for p in enumerate_paths(fn.body, unroll=1) if p.outcome in ('return', 'fall')]
        if not paths:
            raise Undecided(f'{qn}: no returning path')
        verdict = 'ok'
        for p in paths:
            incs = [i for ev in p.events if ev.kind == 'stmt' and ev.node is not None for i in _increments(fam, fm, ev.node)]
            if len(incs) == 1 and incs[0][0] == 'one' and attr_chain(incs[0][1]) == params[0] and not (isinstance(incs[0][2], ast.Call) and incs[0][2].func.attr == 'append'):  # type: ignore[attr-defined]
                continue
            raw = [short(ev.node, 50) for ev in p.events if ev.kind == 'stmt' and ev.node is not None
                   for n in ast.walk(ev.node) if isinstance(n, ast.Attribute) and n.attr == lazy.STORE and attr_chain(n.value) == 'self']
            raw += [short(ev.node, 50) for ev in p.events if ev.kind == 'stmt' and ev.node is not None
                    for n in ast.walk(ev.node) if isinstance(n, ast.Call) and isinstance(n.func, ast.Attribute) and attr_chain(n.func.value) == 'self' and n.func.attr == 'insert']
            if not incs and (raw or not any(isinstance(n, ast.Call) for ev in p.events if ev.node is not None for n in ast.walk(ev.node))):
                ctx.violation(fm, qn, 'append: argument not queued through +=',
                              f'{qn} {"writes the list directly (`" + raw[0] + "`)" if raw else "returns"} without handing its argument to += on the path [{p.describe()[:100]}]: '
                              'the argument is not classified - a -I/-L is not put in front, a repeat of a once-only argument is kept, an override-type one does not override', fn0)
                verdict = 'bad'
                break
            raise Undecided(f'{qn}: the argument is handed on as {[short(i[2], 40) for i in incs] or "something else than += [x]"}')
        if verdict == 'ok':
            ctx.ok(f'{fm.rel}: {qn}: the argument goes through += as a batch of one on all {len(paths)} path(s)')
    # (c) no method forwards a batch element by element
    n_fw = 0
    for m, c in fam.members:
        for st in c.body:
            if not isinstance(st, (ast.FunctionDef, ast.AsyncFunctionDef)) or fam.roles.get(st.name) in ('design', 'flush') or id(st) in defs:
                continue
            qn = f'{c.name}.{st.name}'
            fn = tabs._inline(m, c.name, st)
            if not any(_increments(fam, m, s) for s in ast.walk(fn) if isinstance(s, ast.stmt)):
                continue
            n_fw += 1
            split_at: T.Optional[T.Tuple[ast.AST, ast.For]] = None
            guarded = 0

            def scan(stmts: T.List[ast.stmt], loops: T.List[ast.For], cond: bool) -> None:
                nonlocal split_at, guarded
                for s in stmts:
                    if isinstance(s, (ast.FunctionDef, ast.AsyncFunctionDef, ast.ClassDef)):
                        continue
                    if isinstance(s, ast.For):
                        scan(s.body, loops + [s], False)
                        scan(s.orelse, loops, cond)
                        continue
                    blocks = [getattr(s, f) for f in ('body', 'orelse', 'finalbody') if isinstance(getattr(s, f, None), list)] + [h.body for h in getattr(s, 'handlers', []) or []]
                    if blocks:
                        for b in blocks:
                            scan(b, loops, cond or isinstance(s, (ast.If, ast.While)))
                        continue
                    for kind, what, node in _increments(fam, m, s):
                        names = {n.id for n in ast.walk(what) if isinstance(n, ast.Name)}
                        for lp in loops:
                            if kind == 'one' and names & {n.id for n in ast.walk(lp.target) if isinstance(n, ast.Name)}:
                                # an `if` with `continue`/`break` earlier in the loop body guards what follows as well
                                early = any(isinstance(x, (ast.Continue, ast.Break)) for b in lp.body for x in ast.walk(b))
                                if cond or early:
                                    guarded += 1
                                elif split_at is None:
                                    split_at = (node, lp)
            scan(fn.body, [], False)
            if split_at is not None:
                node, lp = split_at
                ctx.violation(m, qn, 'batch forwarded one element per increment',
                              f'{qn} forwards the elements of `{short(lp.iter, 40)}` to the queueing operations one by one (`{short(node, 50)}` in the loop): every element '
                              'is an increment of its own, so prepend-type arguments (-I/-L) of the batch come out in reverse order', node)
            else:
                ctx.ok(f'{m.rel}: {qn}: queues what it is given as whole increments'
                       + (f' ({guarded} conditional per-element route(s) not judged: elements selected by a test, e.g. the absolute paths of the direct route)' if guarded else ''))
    ctx.floor('methods that forward arguments to the queueing operations', n_fw, 1)
