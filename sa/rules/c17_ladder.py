"""Helpers for C17.R1: the precedence ladder of `mparser.Parser` re-derived from the source
(which method builds which node class, and from which ladder level each operand of that node is parsed),
the constructor-parameter -> attribute map of the node classes, and the table of `precedence_level`.

Nothing is matched by method *name*: the ladder order is the delegation chain
statement -> e1 -> ... (the method whose result a method returns when it consumes no operator).
"""
from __future__ import annotations

import ast
import typing as T

from ..core import Module, Repo, Undecided, attr_chain, norm, short, walk_no_nested
from ..consteval import fold_expr
from .. import tables

MPARSER = 'mesonbuild/mparser.py'

# A concrete kind of expression node: (class name, discriminating value or None), e.g. ('ArithmeticNode', '+')
Kind = T.Tuple[str, T.Optional[str]]


class Construction(T.NamedTuple):
    cls: str
    level: int
    method: str
    slots: T.Dict[str, T.FrozenSet[T.Tuple[str, T.Any]]]     # attribute -> origins
    consts: T.Dict[str, T.FrozenSet[T.Any]]                  # attribute -> constant values it can take (when foldable)
    node: ast.Call


class Ladder:
    def __init__(self) -> None:
        self.order: T.List[str] = []                 # ladder methods, loosest binding first
        self.level: T.Dict[str, int] = {}            # Parser method -> level (1..n); 'statement' -> 1
        self.constructions: T.List[Construction] = []
        self.kinds: T.Dict[Kind, int] = {}           # concrete kind -> ladder level
        self.need: T.Dict[T.Tuple[Kind, str], int] = {}   # (kind, operand attribute) -> least level the operand text must have
        self.discr: T.Dict[str, str] = {}            # class -> discriminating attribute (ArithmeticNode -> operation)

    def top(self) -> int:
        return len(self.order)


def node_classes(mod: Module) -> T.Dict[str, T.List[str]]:
    """Every class of mparser deriving from BaseNode -> names of its ancestors inside the module (itself first)."""
    out: T.Dict[str, T.List[str]] = {}
    for name, c in mod.classes().items():
        if '.' in name or '#' in name:
            continue
        anc = [x[1].name for x in mod.repo.mro(mod, c)]
        if 'BaseNode' in anc:
            out[name] = anc
    return out


def init_map(repo: Repo, mod: Module, cls: str, _depth: int = 0) -> T.Tuple[T.List[str], T.Dict[str, str]]:
    """(positional parameter names of cls.__init__, parameter -> attribute it is stored in)."""
    if _depth > 6:
        raise Undecided(f'{cls}.__init__: super() chain too deep')
    c = mod.cls(cls)
    found = None
    for st in c.body:
        if isinstance(st, ast.FunctionDef) and st.name == '__init__':
            found = st
    if found is None:
        for b in c.bases:
            n = attr_chain(b.value if isinstance(b, ast.Subscript) else b)
            if n and mod.has_cls(n):
                return init_map(repo, mod, n, _depth + 1)
        raise Undecided(f'{cls}: no __init__ found in mparser')
    params = [a.arg for a in found.args.posonlyargs + found.args.args][1:]
    amap: T.Dict[str, str] = {}
    for n in walk_no_nested(found):
        if isinstance(n, ast.Assign) and len(n.targets) == 1 and isinstance(n.targets[0], ast.Attribute) \
                and isinstance(n.targets[0].value, ast.Name) and n.targets[0].value.id == 'self' \
                and isinstance(n.value, ast.Name) and n.value.id in params:
            amap.setdefault(n.value.id, n.targets[0].attr)
        if isinstance(n, ast.Call) and isinstance(n.func, ast.Attribute) and n.func.attr == '__init__' \
                and isinstance(n.func.value, ast.Call) and norm(n.func.value.func) == 'super':
            base = None
            for b in c.bases:
                bn = attr_chain(b.value if isinstance(b, ast.Subscript) else b)
                if bn and mod.has_cls(bn) and bn != 'Generic':
                    base = bn
                    break
            if base is None:
                continue
            bparams, bmap = init_map(repo, mod, base, _depth + 1)
            for i, a in enumerate(n.args):
                if isinstance(a, ast.Name) and a.id in params and i < len(bparams) and bparams[i] in bmap:
                    amap.setdefault(a.id, bmap[bparams[i]])
            for k in n.keywords:
                if k.arg and isinstance(k.value, ast.Name) and k.value.id in params and k.arg in bmap:
                    amap.setdefault(k.value.id, bmap[k.arg])
    return params, amap


def _self_call(e: ast.AST) -> T.Optional[str]:
    if isinstance(e, ast.Call) and isinstance(e.func, ast.Attribute) and isinstance(e.func.value, ast.Name) and e.func.value.id == 'self':
        return e.func.attr
    return None


def _defs(fn: ast.AST) -> T.Dict[str, T.List[ast.AST]]:
    out: T.Dict[str, T.List[ast.AST]] = {}
    for n in walk_no_nested(fn):
        if isinstance(n, ast.Assign):
            for t in n.targets:
                if isinstance(t, ast.Name):
                    out.setdefault(t.id, []).append(n.value)
        elif isinstance(n, ast.AnnAssign) and isinstance(n.target, ast.Name) and n.value is not None:
            out.setdefault(n.target.id, []).append(n.value)
    return out


def _is_result(fn: ast.AST, call: ast.Call) -> bool:
    """The constructed node is what the method returns: `return <call>` or `n = <call>` with some `return n`."""
    returned: T.Set[str] = set()
    for n in walk_no_nested(fn):
        if isinstance(n, ast.Return) and n.value is not None:
            if n.value is call:
                return True
            if isinstance(n.value, ast.Name):
                returned.add(n.value.id)
    for n in walk_no_nested(fn):
        if isinstance(n, ast.Assign) and n.value is call:
            return any(isinstance(t, ast.Name) and t.id in returned for t in n.targets)
    return False


def _delegate(methods: T.Dict[str, ast.FunctionDef], m: str) -> T.Optional[str]:
    """The method whose (unwrapped) result `m` returns when it consumes no operator itself."""
    fn = methods[m]
    defs = _defs(fn)
    cands: T.Set[str] = set()
    for n in walk_no_nested(fn):
        if not isinstance(n, ast.Return) or n.value is None:
            continue
        exprs = defs.get(n.value.id, []) if isinstance(n.value, ast.Name) else [n.value]
        for e in exprs:
            c = _self_call(e)
            if c and c in methods and c != m and not e.args and not e.keywords:  # type: ignore[attr-defined]
                cands.add(c)
    if len(cands) > 1:
        raise Undecided(f'Parser.{m}: more than one delegate {sorted(cands)}')
    return next(iter(cands)) if cands else None


def extract_ladder(repo: Repo) -> Ladder:
    mod = repo.module(MPARSER)
    methods = T.cast(T.Dict[str, ast.FunctionDef], mod.methods('Parser'))
    classes = node_classes(mod)
    lad = Ladder()
    if 'statement' not in methods:
        raise Undecided('Parser.statement not found')
    cur = _delegate(methods, 'statement')
    seen: T.Set[str] = {'statement'}
    while cur is not None:
        if cur in seen:
            raise Undecided(f'Parser ladder: delegation cycle at {cur}')
        seen.add(cur)
        lad.order.append(cur)
        lad.level[cur] = len(lad.order)
        cur = _delegate(methods, cur)
    if not lad.order:
        raise Undecided('Parser.statement delegates to nothing')
    lad.level['statement'] = 1

    def ret_class(name: str) -> T.Optional[str]:
        r = methods[name].returns
        return attr_chain(r) if r is not None else None

    inits: T.Dict[str, T.Tuple[T.List[str], T.Dict[str, str]]] = {}

    def origins(e: ast.AST, fn: ast.FunctionDef, level: int, env: T.Dict[str, T.FrozenSet[T.Tuple[str, T.Any]]],
                defs: T.Dict[str, T.List[ast.AST]], busy: T.FrozenSet[str]) -> T.FrozenSet[T.Tuple[str, T.Any]]:
        if isinstance(e, ast.Name):
            if e.id in env:
                return env[e.id]
            if e.id in busy or e.id not in defs:
                return frozenset({('other', e.id)})
            out: T.Set[T.Tuple[str, T.Any]] = set()
            for d in defs[e.id]:
                out |= origins(d, fn, level, env, defs, busy | {e.id})
            return frozenset(out)
        c = _self_call(e)
        if c is not None and isinstance(e, ast.Call):
            if c in lad.level and not e.args:
                return frozenset({('level', lad.level[c])})
            if c == 'create_node' and e.args:
                cn = attr_chain(e.args[0]) or ''
                if cn == 'SymbolNode':
                    return frozenset({('sym', None)})
                return frozenset({('level', level)})
            if c in methods:
                rc = ret_class(c)
                if rc == 'ArgumentNode' or rc == 'CodeBlockNode':
                    return frozenset({('delim', rc)})
                if rc == 'SymbolNode':
                    return frozenset({('sym', None)})       # a helper that consumes a token and returns its symbol
                if e.args:           # helper building a node at this level (method_call, index_call)
                    return frozenset({('level', level)})
            return frozenset({('other', short(e, 40))})
        if isinstance(e, ast.Call) and attr_chain(e.func) in classes:
            cn = attr_chain(e.func) or ''
            return frozenset({('sym', None)}) if cn == 'SymbolNode' else frozenset({('level', level)})
        return frozenset({('other', short(e, 40))})

    def collect(mname: str, level: int, env: T.Dict[str, T.FrozenSet[T.Tuple[str, T.Any]]], stack: T.Tuple[str, ...]) -> None:
        fn = methods[mname]
        defs = _defs(fn)
        for call in walk_no_nested(fn):
            if not isinstance(call, ast.Call):
                continue
            c = _self_call(call)
            cls: T.Optional[str] = None
            cargs: T.List[ast.expr] = []
            if c == 'create_node' and call.args:
                cls = attr_chain(call.args[0])
                cargs = list(call.args[1:])
            elif attr_chain(call.func) in classes:
                cls = attr_chain(call.func)
                cargs = list(call.args)
            elif c is not None and c in methods and c not in lad.level and call.args and c not in stack and c != 'create_node':
                # helper taking operands (method_call(left), index_call(left)): same ladder level, parameters bound
                h = methods[c]
                hp = [a.arg for a in h.args.args][1:]
                henv = {p: origins(a, fn, level, env, defs, frozenset()) for p, a in zip(hp, call.args)}
                collect(c, level, henv, stack + (mname,))
                continue
            if cls is not None and cls not in classes and '.' not in cls:
                # the class comes out of a constant table: `for tid, node_type in TABLE: ... create_node(node_type, ...)`
                for tcls in _classes_from_table(repo, mod, fn, call, cls, classes):
                    if _is_result(fn, call):
                        if tcls not in inits:
                            inits[tcls] = init_map(repo, mod, tcls)
                        params, amap = inits[tcls]
                        tslots = {amap[p_]: origins(a_, fn, level, env, defs, frozenset()) for p_, a_ in zip(params, cargs) if p_ in amap}
                        lad.constructions.append(Construction(tcls, level, mname, tslots, {}, call))
                continue
            if cls is None or cls not in classes:
                continue
            if not _is_result(fn, call):
                continue      # a scratch node (never the value the method returns) is not part of the grammar
            if cls not in inits:
                inits[cls] = init_map(repo, mod, cls)
            params, amap = inits[cls]
            slots: T.Dict[str, T.FrozenSet[T.Tuple[str, T.Any]]] = {}
            consts: T.Dict[str, T.FrozenSet[T.Any]] = {}
            bound: T.List[T.Tuple[str, ast.expr]] = [(params[i], a) for i, a in enumerate(cargs) if i < len(params)]
            bound += [(k.arg, k.value) for k in call.keywords if k.arg]
            for p, a in bound:
                attr = amap.get(p)
                if attr is None:
                    continue
                slots[attr] = origins(a, fn, level, env, defs, frozenset())
                vals = _const_values(repo, mod, a)
                if vals is not None:
                    consts[attr] = vals
            lad.constructions.append(Construction(cls, level, mname, slots, consts, call))

    for m in lad.order:
        collect(m, lad.level[m], {}, ())

    # kinds: a class built on one level is one kind; a class built on several levels needs a constant
    # attribute whose value sets are disjoint between the levels (ArithmeticNode.operation)
    by_cls: T.Dict[str, T.List[Construction]] = {}
    for con in lad.constructions:
        by_cls.setdefault(con.cls, []).append(con)
    for cls, cons in by_cls.items():
        if cls in ('SymbolNode', 'ArgumentNode', 'WhitespaceNode'):
            continue
        levels = {c.level for c in cons}
        if len(levels) == 1:
            kinds_of = {id(c): [(cls, None)] for c in cons}
        else:
            cand = None
            for attr in cons[0].consts:
                if all(attr in c.consts for c in cons):
                    per_level: T.Dict[int, T.Set[T.Any]] = {}
                    for c in cons:
                        per_level.setdefault(c.level, set()).update(c.consts[attr])
                    vs = list(per_level.values())
                    if all(not (vs[i] & vs[j]) for i in range(len(vs)) for j in range(i + 1, len(vs))):
                        cand = attr
                        break
            if cand is None:
                raise Undecided(f'{cls} is built on ladder levels {sorted(levels)} without a constant discriminating attribute')
            lad.discr[cls] = cand
            kinds_of = {id(c): [(cls, str(v)) for v in sorted(c.consts[cand], key=str)] for c in cons}
        for c in cons:
            for k in kinds_of[id(c)]:
                if lad.kinds.setdefault(k, c.level) != c.level:
                    raise Undecided(f'{k} is built on two ladder levels')
                for attr, org in c.slots.items():
                    lv = [x[1] for x in org if x[0] == 'level']
                    if not lv:
                        continue
                    r = min(lv)
                    key = (k, attr)
                    lad.need[key] = min(lad.need.get(key, r), r)
    return lad


def _classes_from_table(repo: Repo, mod: Module, fn: ast.AST, call: ast.Call, var: str, classes: T.Dict[str, T.List[str]]) -> T.List[str]:
    from ..consteval import Opaque
    out: T.List[str] = []
    for loop in ast.walk(fn):
        if not (isinstance(loop, ast.For) and any(x is call for x in ast.walk(loop))):
            continue
        tg = loop.target
        names = [norm(e) for e in tg.elts] if isinstance(tg, (ast.Tuple, ast.List)) else [norm(tg)]
        if var not in names:
            continue
        try:
            tab = fold_expr(repo, mod, loop.iter)
        except Undecided:
            raise Undecided(f'Parser: node class {var} is taken from {short(loop.iter)}, which does not fold')
        if isinstance(tab, dict):
            tab = list(tab.items())
        for row in tab:
            item = row[names.index(var)] if isinstance(tg, (ast.Tuple, ast.List)) else row
            if isinstance(item, Opaque) and item.kind == 'class' and item.name in classes:
                out.append(item.name)
            else:
                raise Undecided(f'Parser: entry {item!r} of {short(loop.iter)} is not a node class')
    return out


def _const_values(repo: Repo, mod: Module, e: ast.AST) -> T.Optional[T.FrozenSet[T.Any]]:
    """Constant values an argument can take: a literal, or CONST_MAP[<anything>] -> the values of the folded map."""
    if isinstance(e, ast.Constant) and isinstance(e.value, str):
        return frozenset({e.value})
    if isinstance(e, ast.Subscript) and isinstance(e.value, ast.Name) and mod.has_assign(e.value.id):
        try:
            d = fold_expr(repo, mod, e.value)
        except Undecided:
            return None
        if isinstance(d, dict) and all(isinstance(v, str) for v in d.values()):
            return frozenset(d.values())
    return None


# ---------------------------------------------------------------------------
# precedence_level table

class PrecTable:
    """value(kind) -> int | 'inner:<attr>' (delegates to the level of node.<attr>) | None (raises / returns nothing)."""

    def __init__(self, table: tables.Table, classes: T.Dict[str, T.List[str]], discr: T.Dict[str, str], fname: str, mod: T.Optional[Module] = None):
        self.mod = mod
        self.table = table
        self.classes = classes
        self.discr = discr
        self.fname = fname

    def value(self, kind: Kind) -> T.Any:
        cls, dv = kind
        fired = []
        for r in self.table.rows:
            ok = True
            for a, v in r.conds.items():
                ok = ok and (self._atom(a, cls, dv) == v)
            if ok:
                fired.append(r)
        if len(fired) != 1:
            raise Undecided(f'{self.fname}: {len(fired)} rows fire for {kind}')
        oc = fired[0].outcome
        if oc[0] == 'return':
            e = ast.parse(oc[1], mode='eval').body
            if isinstance(e, ast.Name) and fired[0].path is not None and not e.id.startswith('ARG'):
                from .c17_splice import sym_exec       # single exit: `level = 3 ... return level`
                env = sym_exec(fired[0].path)
                if e.id in env:
                    e = env[e.id]
            e = self._fold(e, cls, dv)
            if isinstance(e, ast.Constant) and isinstance(e.value, int) and not isinstance(e.value, bool):
                return e.value
            if isinstance(e, ast.Constant) and e.value is None:
                return None
            if isinstance(e, ast.Call) and norm(e.func) == self.fname and len(e.args) == 1:
                c = attr_chain(e.args[0]) or ''
                if c.startswith('ARG1.') and c.count('.') == 1:
                    return 'inner:' + c.split('.')[1]
            raise Undecided(f'{self.fname}: result {oc[1]} for {kind} is not a constant level')
        if oc[0] in ('raise', 'fall'):
            return None
        raise Undecided(f'{self.fname}: outcome {oc} for {kind}')

    def _fold(self, e: ast.AST, cls: str, dv: T.Optional[str]) -> ast.AST:
        """CONST_TABLE.get(ARG1.<discr>) / CONST_TABLE[ARG1.<discr>] for a concrete kind: a lookup in a folded constant table."""
        attr = self.discr.get(cls)
        key: T.Optional[ast.AST] = None
        default: T.Any = None
        if isinstance(e, ast.Call) and isinstance(e.func, ast.Attribute) and e.func.attr == 'get' and isinstance(e.func.value, ast.Name) and 1 <= len(e.args) <= 2:
            tabn, key = e.func.value.id, e.args[0]
            if len(e.args) == 2:
                if not isinstance(e.args[1], ast.Constant):
                    return e
                default = e.args[1].value
        elif isinstance(e, ast.Subscript) and isinstance(e.value, ast.Name):
            tabn, key = e.value.id, e.slice
        else:
            return e
        if norm(key) == 'type(ARG1)' and self.mod is not None and self.mod.has_assign(tabn):
            by_cls = self._class_table(tabn)
            if by_cls is None:
                return e
            return ast.Constant(value=by_cls.get(cls, default))
        if attr is None or norm(key) != f'ARG1.{attr}' or self.mod is None or not self.mod.has_assign(tabn):
            return e
        try:
            d = fold_expr(self.mod.repo, self.mod, self.mod.assign_value(tabn))
        except Undecided:
            return e
        if not isinstance(d, dict):
            return e
        return ast.Constant(value=d.get(dv, default))

    def _class_table(self, tabn: str) -> T.Optional[T.Dict[str, T.Any]]:
        from ..consteval import Opaque
        try:
            d = fold_expr(self.mod.repo, self.mod, self.mod.assign_value(tabn))  # type: ignore[union-attr]
        except Undecided:
            return None
        if not isinstance(d, dict) or not all(isinstance(k, Opaque) and k.kind == 'class' for k in d):
            return None
        return {k.name: v for k, v in d.items()}

    def _atom(self, a: tables.Atom, cls: str, dv: T.Optional[str]) -> bool:
        if a.kind == 'in' and a.args[0] == 'type(ARG1)' and self.mod is not None and self.mod.has_assign(a.args[1]):
            by_cls = self._class_table(a.args[1])
            if by_cls is not None:
                return cls in by_cls          # type(x) is exact: no subclass match
        if a.kind == 'is' and a.args[1] == 'None':
            f = self._fold(ast.parse(a.args[0], mode='eval').body, cls, dv)
            if isinstance(f, ast.Constant):
                return f.value is None
        if a.kind == 'isinstance' and a.args[0] == 'ARG1':
            names = {n.split('.')[-1] for n in a.args[1]}
            for n in names:
                if n not in self.classes:
                    raise Undecided(f'{self.fname}: isinstance against {n}, not a node class of mparser')
            return bool(names & set(self.classes[cls]))
        attr = self.discr.get(cls)
        if a.kind == 'in' and attr is not None and a.args[0] == f'ARG1.{attr}':
            try:
                coll = ast.literal_eval(a.args[1])
            except (ValueError, SyntaxError):
                raise Undecided(f'{self.fname}: cannot evaluate membership in {a.args[1]}')
            return dv in coll
        if a.kind == 'cmp' and a.args[0] == 'eq' and attr is not None and f'ARG1.{attr}' in a.args[1:]:
            other = a.args[2] if a.args[1] == f'ARG1.{attr}' else a.args[1]
            try:
                return bool(dv == ast.literal_eval(other))
            except (ValueError, SyntaxError):
                raise Undecided(f'{self.fname}: cannot evaluate {a!r}')
        raise Undecided(f'{self.fname}: atom {a!r} is outside the vocabulary (isinstance on the node, tests on its discriminating attribute)')


class _Sub(ast.NodeTransformer):
    def __init__(self, env: T.Dict[str, ast.AST]):
        self.env = env

    def visit_Name(self, n: ast.Name) -> ast.AST:
        if isinstance(n.ctx, ast.Load) and n.id in self.env:
            import copy
            return copy.deepcopy(self.env[n.id])
        return n


def _const_truth(e: ast.AST) -> T.Optional[bool]:
    """Truth of a comparison between constants (what is left of `level is None` once the table row is substituted)."""
    if isinstance(e, ast.Constant):
        return bool(e.value)
    if isinstance(e, ast.Compare) and len(e.ops) == 1 and isinstance(e.left, ast.Constant) and isinstance(e.comparators[0], ast.Constant):
        a, b, op = e.left.value, e.comparators[0].value, e.ops[0]
        if isinstance(op, ast.Is):
            return a is b
        if isinstance(op, ast.IsNot):
            return a is not b
        if isinstance(op, ast.Eq):
            return bool(a == b)
        if isinstance(op, ast.NotEq):
            return bool(a != b)
    return None


def _unrolled_rows(mod: Module, fn: ast.FunctionDef) -> T.List[tables.Row]:
    """Decision table of a function that walks a *constant* tuple of rows (`for a, b in TABLE: ...`): the loop is unrolled
    over the table's own AST (source-to-source), every body path is replayed with the row substituted (copy propagation, constant
    comparisons folded), `continue` goes to the next row, `break` to the code after the loop."""
    import copy
    from ..paths import enumerate_paths
    params = [a.arg for a in fn.args.args]
    ren: T.Dict[str, ast.AST] = {p: ast.Name(id=f'ARG{i + 1}', ctx=ast.Load()) for i, p in enumerate(x for x in params if x not in ('self', 'cls'))}
    out: T.List[tables.Row] = []

    def replay(path: T.Any, env: T.Dict[str, ast.AST], conds: T.List[T.Tuple[ast.AST, bool]]) -> T.Optional[T.Tuple[T.Dict[str, ast.AST], T.List[T.Tuple[ast.AST, bool]], T.Optional[ast.AST]]]:
        env = dict(env)
        conds = list(conds)
        for ev in path.events:
            if ev.kind == 'cond':
                e = _Sub(env).visit(copy.deepcopy(ev.node))
                ct = _const_truth(e)
                if ct is not None:
                    if ct != ev.val:
                        return None
                    continue
                conds.append((e, ev.val))
            elif ev.kind == 'stmt' and isinstance(ev.node, ast.Assign) and len(ev.node.targets) == 1 and isinstance(ev.node.targets[0], ast.Name):
                env[ev.node.targets[0].id] = _Sub(env).visit(copy.deepcopy(ev.node.value))
            elif ev.kind == 'stmt' and isinstance(ev.node, (ast.Return, ast.Raise, ast.Pass, ast.Expr)):
                pass
            elif ev.kind == 'stmt':
                raise Undecided(f'{fn.name}: statement {short(ev.node)} inside the table walk')
            else:
                raise Undecided(f'{fn.name}: {ev.kind} inside the table walk')
        val = _Sub(env).visit(copy.deepcopy(path.value)) if path.value is not None else None
        return env, conds, val

    def emit(conds: T.List[T.Tuple[ast.AST, bool]], outcome: str, val: T.Optional[ast.AST], path: T.Any) -> None:
        cd: T.Dict[tables.Atom, bool] = {}
        for e, v in conds:
            a, pol = tables.canon(_Sub(ren).visit(copy.deepcopy(e)), v)
            if cd.get(a, pol) != pol:
                return
            cd[a] = pol
        if outcome == 'return':
            oc: T.Tuple[T.Any, ...] = ('return', norm(_Sub(ren).visit(copy.deepcopy(val))) if val is not None else 'None')
        elif outcome == 'raise':
            oc = ('raise', norm(val.func if isinstance(val, ast.Call) else val) if val is not None else '<reraise>')
        else:
            oc = (outcome,)
        out.append(tables.Row(cd, oc, (), path))

    def block(stmts: T.List[ast.stmt], env: T.Dict[str, ast.AST], conds: T.List[T.Tuple[ast.AST, bool]]) -> None:
        for i, st in enumerate(stmts):
            if isinstance(st, ast.For) and not st.orelse:
                tab = st.iter
                if isinstance(tab, ast.Name) and mod.has_assign(tab.id):
                    tab = mod.assign_value(tab.id)
                if not isinstance(tab, (ast.Tuple, ast.List)):
                    raise Undecided(f'{fn.name}: loop over {short(st.iter)}, not a constant tuple')
                tnames = [norm(e) for e in st.target.elts] if isinstance(st.target, (ast.Tuple, ast.List)) else [norm(st.target)]
                body_paths = enumerate_paths(st.body, unroll=0)

                def rows(k: int, env: T.Dict[str, ast.AST], conds: T.List[T.Tuple[ast.AST, bool]]) -> None:
                    if k == len(tab.elts):  # type: ignore[union-attr]
                        block(stmts[i + 1:], env, conds)
                        return
                    row = tab.elts[k]  # type: ignore[union-attr]
                    vals = list(row.elts) if isinstance(st.target, (ast.Tuple, ast.List)) and isinstance(row, (ast.Tuple, ast.List)) else [row]
                    if len(vals) != len(tnames):
                        raise Undecided(f'{fn.name}: table row {short(row)} does not match the loop target')
                    env_k = {**env, **dict(zip(tnames, vals))}
                    for p in body_paths:
                        r = replay(p, env_k, conds)
                        if r is None:
                            continue
                        env2, conds2, val = r
                        if p.outcome in ('fall', 'continue'):
                            rows(k + 1, env2, conds2)
                        elif p.outcome == 'break':
                            block(stmts[i + 1:], env2, conds2)
                        else:
                            emit(conds2, p.outcome, val, p)
                rows(0, env, conds)
                return
            sub_paths = enumerate_paths([st], unroll=0)
            if any(isinstance(x, (ast.For, ast.While)) for x in ast.walk(st)):
                raise Undecided(f'{fn.name}: nested loop')
            nxt: T.List[T.Tuple[T.Dict[str, ast.AST], T.List[T.Tuple[ast.AST, bool]]]] = []
            for p in sub_paths:
                r = replay(p, env, conds)
                if r is None:
                    continue
                env2, conds2, val = r
                if p.outcome == 'fall':
                    nxt.append((env2, conds2))
                else:
                    emit(conds2, p.outcome, val, p)
            if len(nxt) > 1:
                for env2, conds2 in nxt:
                    block(stmts[i + 1:], env2, conds2)
                return
            if not nxt:
                return
            env, conds = nxt[0]
        emit(conds, 'fall', None, None)
    block(fn.body, {}, [])
    return out


def prec_table(mod: Module, classes: T.Dict[str, T.List[str]], discr: T.Dict[str, str], fname: str = 'precedence_level') -> PrecTable:
    fn = T.cast(ast.FunctionDef, mod.func(fname))
    if any(isinstance(n, ast.For) for n in ast.walk(fn)):
        tab = tables.Table(_unrolled_rows(mod, fn), fname)       # table-driven: unrolled over the constant table
    else:
        tab = tables.extract(fn, name=fname, inline=True)
    return PrecTable(tab, classes, discr, fname, mod)
