"""C09 — a killed command never bricks the build directory (DESIGN §2 C09, Appendix A.10)."""
from __future__ import annotations

import ast
import typing as T

from ..core import (AnalysisError, Module, Repo, Undecided, attr_chain, call_method, call_name, chains_in, kwarg, norm, short,
                    walk_no_nested)
from ..cfg import CFG, Node
from ..paths import enumerate_paths
from ..report import Rule, RuleCtx
from .. import tables
from ..tables import Atom
from . import c09_pathsym as P
from .c09_pathsym import FuncRef, PathSym, Term, Terms

CMDLINE = 'mesonbuild/cmdline.py'
COREDATA = 'mesonbuild/coredata.py'
MSETUP = 'mesonbuild/msetup.py'
ENVIRONMENT = 'mesonbuild/environment.py'
UNIVERSAL = 'mesonbuild/utils/universal.py'
PLATFORM = 'mesonbuild/utils/platform.py'

EXPLANATION = (
    'Decides structural necessary conditions of C09 (crash points themselves are not enumerated): '
    'R1 the state files a follow-up `meson setup` reads from meson-private (coredata.dat, cmd_line.txt; cross-checked against the readers '
    'reachable from the recovery entry points) are never opened for writing under their own name anywhere in mesonbuild/; every '
    'os.replace/os.rename onto them takes a different sibling name whose writer has been closed on every path and overwrites a leftover '
    'temporary (mode w, never x/a, unless removed first); they are never the *source* of a rename/move and are unlinked only as a rollback: '
    'inside an exception handler after which every path re-raises, or in a helper all of whose call sites are (file names folded '
    'symbolically through locals, string templates, helpers and callers); '
    'R2a what a truncated pickle raises (UnpicklingError, EOFError) meets, on its way out of pickle_load, a handler that raises '
    'MesonException on every path; R2b every handler of coredata.load in environment.py that creates a new coredata (missing or '
    'unreadable coredata.dat) first replays meson-private/cmd_line.txt with read_cmd_line_file, and refuses only when that file is absent; '
    'R2c the readers of cmd_line.txt never index a section of the parsed file without a presence guard; '
    'R3 the decision table of MesonApp.validate_dirs equals the reference (meson-private without coredata.dat is accepted, '
    '--wipe refused only without meson-private; statement-level helpers of the same module - a block moved into a method or function, '
    'NoReturn or with early returns - are spliced in before the table is read); R4a every call in msetup that publishes that state runs while `with DirectoryLock(...)` '
    'is held (here or at every call site); R4b every DirectoryLock implementation (its __enter__ together with the self-helpers it calls) '
    'acquires through a kernel primitive on the open descriptor (flock/locking) whose flag expression requests an exclusive lock in every '
    'alternative (locals, conditional rebinding, `|=`, helper returns, every value of a constant lookup table at class/module level), '
    'failure to acquire being decided by that primitive only; '
    'R5 the namespace that read_cmd_line_file filled is the one the Interpreter is built from, and the replay dominates the construction; '
    'R6 wherever msetup copies or opens a recovery-critical file by name (the backup before a wipe), its absence in a partial build '
    'directory is survivable: a FileNotFoundError handler encloses the call or an existence test of that very name dominates it; and '
    'wherever msetup hands control to a repository function that (within 4 calls, arguments bound, constructors followed) reads a '
    'constant-named file of meson-private and refuses when it is absent (every handler the FileNotFoundError meets on its way out raises '
    'or re-raises, no existence test of that name dominates any frame, nor any call site of the msetup function inside msetup), the files '
    'whose existence IS tested before the hand-off must not all be published before that file is written (CFG order of the writers in '
    'msetup) - otherwise a kill in between leaves exactly the state in which the re-run of the same plain `meson setup -D...` fails '
    '(validate_dirs -> mconf.run_impl -> build.load behind a test of coredata.dat only; reported at the entry-most function reached through '
    'single call sites, construct = resolved callee + file, free of local names); '
    'R7 a file that a configuration-time function reads back with pickle/json.load and itself rewrites in place under the same symbolic '
    'name is read tolerantly (handler for what a torn file raises); in R2b the presence test of cmd_line.txt must name the very file the '
    'replay reads; R8 set_from_configure_command in msetup runs only behind a test that first_invocation is false (never on the fresh '
    'CoreData of a recovery run); R9 every sub-directory of the build directory that Environment.__init__ creates (meson-private, '
    'meson-logs, meson-info: the *_dir names class Environment declares) is created on every normal path that has a build directory - '
    'only "no build directory" and "it exists already" may lead around the creation (a wipe killed in its deletion loop leaves a '
    'configured directory without meson-logs/meson-info); R10 in OptionStore.set_option a rejection that depends on `.readonly` is '
    'reachable only behind a test that the stored and the new value differ (the options of the interrupted command can be re-stated); '
    'R11 in the ninja backend every open that keeps the contents of the temporary of a temp + os.replace publication (build.ninja~: mode a / r+ / x, '
    'here or in the helper that receives the name) is reached only after a truncating open or a removal of that name on every path, so a '
    'leftover of a killed run is never extended and published. '
    'Reading notes: in R1 a destination chosen among alternatives inside the function (conditional expression, local bound in several places) is '
    'read alternative by alternative with reaching definitions - one that names the protected file alone and reaches the sink is an in-place '
    'open; in R2b a handler shared by several classes is judged per class, the atoms `isinstance(<caught>, C)` being decided by the class lattice. '
    'A violation is reported only where every call/condition of the judged region was classified; otherwise the verdict is Undecided. '
    'R3 note: where validate_dirs also tests build.dat, the reference treats coredata.dat without build.dat as a partial build (never SystemExit). '
    'NOT decided: recoverability at each individual crash point; a *torn* build.dat (build.save writes it in place; the hand-off clause of R6 decides '
    'absence only, and build.dat is outside R1 because no recovery entry point reads it once validate_dirs tests its existence); `meson configure` '
    'as a follow-up command (the property names `meson setup` only: configure on a directory lacking cmd_line.txt dies with AttributeError cross_file); whether write_cmd_line_file records every [properties] key that '
    'read_cmd_line_file replays (cross_file/native_file: writer/reader agreement is C08.R4c, not repeated here); which values '
    'set_option/validate_value accept beyond the read-only test (C07); fsync/durability; torn *text* in cmd_line.txt (configparser.Error / '
    'literal_eval on a half-written line; unreachable once R1 holds); the order of publication between coredata.dat and cmd_line.txt (a '
    'first setup killed in between leaves a valid coredata.dat without cmd_line.txt: values survive, a later --wipe loses them); the '
    '--wipe deletion loop, which removes cmd_line.txt and the machine files by directory listing while their only copy is in a '
    'TemporaryDirectory (names come from os.listdir, not from constants, so R1 cannot see them); option-order and whitespace fidelity of '
    'cmd_line.txt (C07/C08 matters); which *values* update_cmd_line_file records or drops (an empty string treated like None/unset makes '
    'cmd_line.txt disagree with coredata.dat: value-level writer/recorder agreement, C08); robustness of the recursive delete helpers (windows_proof_rmtree / _make_tree_writable) against '
    'directory contents such as dangling symlinks in a half-wiped tree (depends on run-time directory contents).')
ASSUMPTIONS = [
    'os.replace/os.rename within one directory is atomic; a killed process loses no page cache (fsync not required)',
    'a strict prefix of a pickle stream makes pickle.load raise UnpicklingError or EOFError (probed once on every prefix of a sample)',
    'fcntl.flock / msvcrt.locking locks die with the descriptor, i.e. with the process',
    'file names that are not built from constants (directory listings, user input) cannot name the protected files',
    'quick tier, R6 hand-offs: a callee that receives no constant file name is entered only if its module spells meson-private; the thorough tier enters every callee',
    'R6 hand-offs: an unresolved `x.dump_coredata()` publishes coredata.dat (public API by role, as in R4a)',
    'quick tier, R1 scope: a file of mesonbuild/ is parsed only if its text spells a protected base name or the identifier of a '
    'function/constant found to yield one (iterated to a fixpoint); the thorough tier parses every file',
]
TECHNIQUE = ('who-may-write/rename/unlink over file names folded by flow-insensitive def-use (constants, join/+/format templates, callee return and '
             'argument-binding summaries, caller contexts; nothing is executed) + CFG must-pass / edge-labelled reachability (with-exit before '
             'replace, presence-test edges, exception edges of the lock primitive, opt-out edges with helper return summaries) + path enumeration '
             'of handler bodies with helper expansion + decision table over canonical atoms with world enumeration (validate_dirs) + alias '
             'identity and dominance (replayed namespace -> Interpreter) + E1 normal form (statement-level helpers spliced into the caller '
             'before CFG/table extraction) + exception-escape walk over the frames of a call chain (handler path outcomes, existence-test edge cuts per frame) '
             'with writer-order dominance as the witness condition (R6 hand-offs) + alternative sets of or-ed flag constants through locals and constant lookup tables')

REFERENCE_PROTECTED = ('coredata.dat', 'cmd_line.txt')    # A.10; cross-checked against the derived reader set on every run
PRIVATE_DIR = 'meson-private'

OPEN_FUNCS = {'open', 'io.open', 'codecs.open'}
COPY_FUNCS = {'shutil.copy', 'shutil.copyfile', 'shutil.copy2'}
RENAME_FUNCS = {'os.replace', 'os.rename', 'shutil.move'}


# ---------------------------------------------------------------------------
# sinks

class Sink(T.NamedTuple):
    kind: str                 # 'write' | 'read' | 'copy' | 'rename' | 'remove'
    call: ast.Call
    path: T.Optional[ast.AST]     # destination / opened path
    src: T.Optional[ast.AST]      # rename/copy source
    mode: T.Optional[str]         # for write/read; None = not a constant


def _mode_of(call: ast.Call, pos: int) -> T.Tuple[bool, T.Optional[str]]:
    m = call.args[pos] if len(call.args) > pos else kwarg(call, 'mode')
    if m is None:
        return True, 'r'
    if isinstance(m, ast.Constant) and isinstance(m.value, str):
        return True, m.value
    return False, None


def _arg(call: ast.Call, pos: int, *names: str) -> T.Optional[ast.AST]:
    """Argument of a standard-library call bound by signature: positional index or keyword name."""
    if len(call.args) > pos and not any(isinstance(a, ast.Starred) for a in call.args[:pos + 1]):
        return call.args[pos]
    for nm in names:
        v = kwarg(call, nm)
        if v is not None:
            return v
    return None


def _sinks(fn: ast.AST, parser_names: T.Set[str]) -> T.List[Sink]:
    out: T.List[Sink] = []
    for n in walk_no_nested(fn):
        if not isinstance(n, ast.Call):
            continue
        cn = call_name(n)
        meth = call_method(n)
        if cn in OPEN_FUNCS:
            p = n.args[0] if n.args else kwarg(n, 'file')
            ok, mode = _mode_of(n, 1)
            kind = 'read' if (ok and mode is not None and not set(mode) & set('wax+')) else 'write'
            out.append(Sink(kind, n, p, None, mode if ok else None))
        elif cn == 'os.open':
            flags = n.args[1] if len(n.args) > 1 else None
            w = flags is not None and any(c.split('.')[-1] in ('O_WRONLY', 'O_RDWR', 'O_CREAT', 'O_TRUNC', 'O_APPEND') for c in chains_in(flags))
            excl = flags is not None and any(c.split('.')[-1] == 'O_EXCL' for c in chains_in(flags))
            trunc = flags is not None and any(c.split('.')[-1] == 'O_TRUNC' for c in chains_in(flags))
            out.append(Sink('write' if w else 'read', n, n.args[0] if n.args else None, None, ('x' if excl else 'w' if trunc else 'r+') if w else 'r'))
        elif cn in COPY_FUNCS:
            if _arg(n, 1, 'dst') is not None and _arg(n, 0, 'src') is not None:
                out.append(Sink('copy', n, _arg(n, 1, 'dst'), _arg(n, 0, 'src'), None))
        elif cn in RENAME_FUNCS:
            if _arg(n, 1, 'dst') is not None and _arg(n, 0, 'src') is not None:
                out.append(Sink('rename', n, _arg(n, 1, 'dst'), _arg(n, 0, 'src'), None))
        elif cn in ('os.unlink', 'os.remove'):
            if _arg(n, 0, 'path') is not None:
                out.append(Sink('remove', n, _arg(n, 0, 'path'), None, None))
        elif isinstance(n.func, ast.Attribute):
            recv = n.func.value
            if meth == 'open' and cn not in ('os.open',) and not (isinstance(recv, ast.Name) and recv.id in ('os', 'gzip', 'bz2', 'lzma', 'tarfile', 'zipfile', 'webbrowser', 'codecs', 'io')):
                ok, mode = _mode_of(n, 0)
                kind = 'read' if (ok and mode is not None and not set(mode) & set('wax+')) else 'write'
                out.append(Sink(kind, n, recv, None, mode if ok else None))
            elif meth in ('write_text', 'write_bytes'):
                out.append(Sink('write', n, recv, None, 'w'))
            elif meth in ('read_text', 'read_bytes') and not n.args:
                out.append(Sink('read', n, recv, None, 'r'))
            elif meth in ('replace', 'rename') and len(n.args) == 1 and not n.keywords:
                out.append(Sink('rename', n, n.args[0], recv, None))
            elif meth == 'unlink' and not n.args:
                out.append(Sink('remove', n, recv, None, None))
            elif meth == 'read' and isinstance(recv, ast.Name) and recv.id in parser_names and n.args:
                out.append(Sink('read', n, n.args[0], None, 'r'))
    return out


def _parser_class(ps: PathSym, mod: Module, cn: str) -> T.Optional[T.Tuple[bool, T.Optional[T.Tuple[Module, ast.ClassDef]]]]:
    """(is a configparser class, the repository class if it is one) for a dotted class name."""
    if cn.split('.')[-1].endswith('ConfigParser'):
        return True, None
    rc = ps.resolve_class(mod, cn)
    if rc is not None:
        for m2, c2 in ps.mro(rc[0], rc[1]):
            if any((attr_chain(b) or '').split('.')[-1].endswith('ConfigParser') for b in c2.bases):
                return True, rc
    return None


PARSER_CLASS: T.Dict[T.Tuple[int, str], T.Tuple[Module, ast.ClassDef]] = {}     # (id(fn), local) -> repository parser class
PARSER_FILLED: T.Set[T.Tuple[int, str]] = set()                                  # locals a factory has already filled from a file


def _parser_locals(ps: PathSym, mod: Module, fn: ast.AST) -> T.Set[str]:
    """Locals bound to a configparser object: `x = C()` with C (a subclass of) configparser.*ConfigParser, or `x = C.make(...)`
    with `make` a classmethod/staticmethod of such a repository class every return of which is a local bound to `cls()` / `C()`
    (a factory; when it calls .read*/read_file on that local the parser comes back filled from a file)."""
    out: T.Set[str] = set()
    for n in walk_no_nested(fn):
        if isinstance(n, (ast.Assign, ast.AnnAssign)) and isinstance(n.value, ast.Call):
            cn = attr_chain(n.value.func)
            if not cn:
                continue
            got = _parser_class(ps, mod, cn)
            filled = False
            if got is None and '.' in cn:
                head, _, meth = cn.rpartition('.')
                g2 = _parser_class(ps, mod, head)
                if g2 is not None and g2[1] is not None:
                    fac = ps._method(g2[1][0], g2[1][1], meth)
                    if fac is not None and set(decorator_names_of(fac.node)) & {'classmethod', 'staticmethod'}:
                        fd = ps.local_defs(fac.node)
                        rets = [r.value for r in walk_no_nested(fac.node) if isinstance(r, ast.Return)]
                        made = {r.id for r in rets if isinstance(r, ast.Name)}
                        if rets and len(made) == 1 and all(isinstance(r, ast.Name) for r in rets):
                            loc = next(iter(made))
                            d = fd.get(loc, [])
                            if len(d) == 1 and isinstance(d[0], ast.Call) and (attr_chain(d[0].func) in ('cls', head.split('.')[-1]) or _parser_class(ps, fac.mod, attr_chain(d[0].func) or '') is not None):
                                got = g2
                                filled = any(isinstance(c, ast.Call) and call_method(c) in ('read', 'read_file', 'read_string') and isinstance(c.func, ast.Attribute)
                                             and norm(c.func.value) == loc for c in walk_no_nested(fac.node))
            if got is not None:
                tg = n.targets if isinstance(n, ast.Assign) else [n.target]
                for t in tg:
                    if isinstance(t, ast.Name):
                        out.add(t.id)
                        if got[1] is not None:
                            PARSER_CLASS[(id(fn), t.id)] = got[1]
                        if filled:
                            PARSER_FILLED.add((id(fn), t.id))
    return out


def _prot_base(t: Term, prot: T.Iterable[str]) -> T.Optional[str]:
    b = P.basename(t)
    return b if b in set(prot) else None


def _mentions(t: Term, prot: T.Iterable[str]) -> bool:
    ps = set(prot)
    return any(c.rsplit('/', 1)[-1] in ps for c in P.consts_in(t))


# ---------------------------------------------------------------------------
# R1 machinery

class Rec(T.NamedTuple):
    kind: str            # 'inplace' | 'publish-ok' | 'publish-bad' | 'remove'
    ref: FuncRef
    node: ast.AST
    base: str
    text: str


class Scan:
    """Forward propagation of protected file names: functions that build such a name (a literal, a helper returning one, a
    parameter bound to one by a caller) are analysed; every write/rename sink in them is classified."""

    def __init__(self, repo: Repo, scope: T.List[str], prot: T.Sequence[str], exact: bool = True):
        self.repo = repo
        self.exact = exact
        self.carriers: T.Set[str] = set()
        self.parsed: T.List[str] = []
        self.ps = PathSym(repo)
        self.scope = scope
        self.prot = tuple(prot)
        self.recs: T.List[Rec] = []
        self.undecided: T.List[str] = []
        self.analysed: T.List[str] = []
        self._seen: T.Set[T.Any] = set()
        self._recorded: T.Set[T.Tuple[str, int, str, str]] = set()
        self.functions = 0
        self.texts: T.Dict[str, str] = {}
        self.loaded: T.Dict[str, T.List[T.Tuple[FuncRef, T.Set[str], T.Set[str]]]] = {}

    def _module_facts(self, rel: str) -> T.List[T.Tuple[FuncRef, T.Set[str], T.Set[str]]]:
        facts = []
        mod = self.repo.module(rel)
        for qn, fn in mod.funcs().items():
            lits: T.Set[str] = set()
            names: T.Set[str] = set()
            for n in walk_no_nested(fn):
                if isinstance(n, ast.Constant) and isinstance(n.value, str):
                    if len(n.value) < 200:
                        lits.add(n.value.rsplit('/', 1)[-1])
                elif isinstance(n, ast.Name):
                    names.add(n.id)
                elif isinstance(n, ast.Attribute):
                    names.add(n.attr)
            facts.append((FuncRef(mod, qn), lits, names))
            self.functions += 1
        # module-level constants holding a protected name
        prot = set(self.prot)
        for st in mod.tree.body:
            if isinstance(st, (ast.Assign, ast.AnnAssign)) and st.value is not None:
                if any(isinstance(c, ast.Constant) and isinstance(c.value, str) and c.value.rsplit('/', 1)[-1] in prot for c in ast.walk(st.value)):
                    for t in (st.targets if isinstance(st, ast.Assign) else [st.target]):
                        if isinstance(t, ast.Name):
                            self.carriers.add(t.id)
        return facts

    def run(self) -> None:
        """`exact`: every file of the scope is parsed.  Otherwise (quick tier) a file is parsed only if its text contains a
        protected base name or the identifier of a carrier (a function / constant yielding such a name) - a function that
        names a protected file must spell one of these - iterated until no new carrier appears."""
        prot = set(self.prot)
        texts = self.texts = {rel: self.repo.read(rel) for rel in self.scope}
        loaded = self.loaded = {}
        interesting: T.Dict[str, FuncRef] = {}
        for _ in range(8):
            toks = prot | self.carriers
            for rel in self.scope:
                if rel not in loaded and (self.exact or any(t in texts[rel] for t in toks)):
                    loaded[rel] = self._module_facts(rel)
            before = len(self.carriers)
            changed = True
            while changed:
                changed = False
                for facts in loaded.values():
                    for ref, lits, names in facts:
                        key = repr(ref)
                        if key in interesting:
                            continue
                        if lits & prot or names & self.carriers:
                            interesting[key] = ref
                            changed = True
                            rets = self.ps.returns(ref, {}, 2)
                            if any(_mentions(t, prot) for t in rets):
                                self.carriers.add(ref.qn.rsplit('.', 1)[-1])
            if len(self.carriers) == before and (self.exact or all(rel in loaded or not any(t in texts[rel] for t in self.carriers) for rel in self.scope)):
                break
        self.parsed = sorted(loaded)
        for ref in interesting.values():
            self.analyse(ref, {}, 3)

    # ------------------------------------------------------------------
    def _handler_ctx(self, ref: FuncRef, cfg: CFG, node: ast.AST) -> T.Tuple[bool, bool, bool]:
        """(inside an except handler, no normal return reachable afterwards, inside a finally body) for a call of ref."""
        pm = ref.mod.parent_map()
        fn = ref.node
        child: ast.AST = node
        cur = pm.get(node)
        in_handler = in_finally = False
        while cur is not None and child is not fn:
            if isinstance(cur, ast.ExceptHandler):
                in_handler = True
            if isinstance(cur, ast.Try) and any(child is st for st in cur.finalbody):
                in_finally = True
            child = cur
            cur = pm.get(cur)
        at = cfg.node_containing(node)
        reraises = bool(at) and all(not cfg.can_reach(n, cfg.exit_return) for n in at)
        return in_handler, reraises, in_finally

    def _call_sites(self, ref: FuncRef) -> T.Tuple[T.List[T.Tuple[FuncRef, ast.Call]], int]:
        """(resolved call sites of ref, number of same-named calls that could not be resolved) over the whole scope."""
        bare = ref.qn.rsplit('.', 1)[-1]
        for rel in self.scope:
            if rel not in self.loaded and bare in self.texts.get(rel, ''):
                self.loaded[rel] = self._module_facts(rel)
        sites: T.List[T.Tuple[FuncRef, ast.Call]] = []
        unresolved = 0
        for facts in list(self.loaded.values()):
            for ref2, lits, names in facts:
                if bare not in names:
                    continue
                for n in walk_no_nested(ref2.node):
                    if isinstance(n, ast.Call) and call_method(n) == bare:
                        r = self.ps.resolve_callee(ref2, n)
                        if r is None:
                            unresolved += 1
                        elif r.mod.rel == ref.mod.rel and r.qn == ref.qn:
                            sites.append((ref2, n))
        return sites, unresolved

    def _only_called_as_rollback(self, ref: FuncRef, depth: int = 2) -> T.Optional[bool]:
        """True: every call site is inside a re-raising handler (or in a function only called so); False: some resolved call
        site is on a normal path; None: the callers cannot be enumerated."""
        sites, unresolved = self._call_sites(ref)
        verdicts: T.List[T.Optional[bool]] = []
        for ref2, call in sites:
            cfg2 = CFG(ref2.node)
            in_h, rer, in_f = self._handler_ctx(ref2, cfg2, call)
            if in_h and rer:
                verdicts.append(True)
            elif in_f:
                verdicts.append(None)
            elif depth > 0 and not (ref2.mod.rel == ref.mod.rel and ref2.qn == ref.qn):
                # a call on a normal path is positive evidence unless the calling function is itself provably rollback-only
                verdicts.append(self._only_called_as_rollback(ref2, depth - 1) is True)
            else:
                verdicts.append(False)
        if any(v is False for v in verdicts):
            return False
        if not sites:
            return False if unresolved == 0 else None
        if unresolved or any(v is None for v in verdicts):
            return None
        return True

    def analyse(self, ref: FuncRef, env: T.Dict[str, Terms], depth: int, rollback: bool = False) -> None:
        key = (repr(ref), tuple(sorted(env.items(), key=lambda kv: kv[0])), rollback)
        if key in self._seen:
            return
        self._seen.add(key)
        self.analysed.append(repr(ref) + (f' [{", ".join(k + "=" + P.show_all(v) for k, v in env.items())}]' if env else '') + (' (rollback context)' if rollback else ''))
        fn = ref.node
        ps = self.ps
        sinks = _sinks(fn, set())
        cfg: T.Optional[CFG] = None
        writes: T.List[T.Tuple[Sink, Terms]] = []
        for s in sinks:
            if s.kind == 'write' and s.path is not None:
                writes.append((s, ps.resolve(ref, s.path, env)))
        for s in sinks:
            # a protected file must never be moved away: between that rename and the next publication it does not exist
            if s.kind == 'rename' and s.src is not None:
                srcs = ps.resolve(ref, s.src, env)
                moved = sorted({b for b in (_prot_base(t, self.prot) for t in srcs) if b})
                if moved:
                    if len(moved) > 1 or any(_prot_base(t, self.prot) is None for t in srcs):
                        self.undecided.append(f'{ref.mod.rel}:{ref.qn}: source of `{short(s.call)}` may or may not name {moved}: {P.show_all(srcs)}')
                    else:
                        self._rec('moved-away', ref, s.call, moved[0],
                                  f'renames {P.show_all(srcs)} away: until it is published again {moved[0]} does not exist, a kill in that window '
                                  f'leaves the build directory without it (back it up by copying instead)')
        for s in sinks:
            if s.path is None:
                continue
            dst = ps.resolve(ref, s.path, env)
            hit = sorted({b for b in (_prot_base(t, self.prot) for t in dst) if b})
            if not hit:
                continue
            where = f'{ref.mod.rel}:{ref.qn}'
            chosen = ''
            if len(hit) > 1 or (len(dst) > 1 and s.kind in ('write', 'copy', 'rename') and any(_prot_base(t, self.prot) is None for t in dst)):
                # the union may come from alternatives chosen inside this very function (`a if c else b`, a local bound in
                # both arms of an if): read them one by one - an alternative that names the protected file alone and reaches
                # the sink is a path on which the file is opened under its own name
                alt = self._protected_alternative(ref, s, env) if s.kind in ('write', 'copy') and len(hit) == 1 else None
                if alt is None:
                    self.undecided.append(f'{where}: `{short(s.call)}` may or may not name {hit}: {P.show_all(dst)}')
                    continue
                if not alt[0]:
                    continue            # every alternative that reaches the sink names another file
                dst, chosen = alt
            base = hit[0]
            if s.kind == 'read':
                continue
            if s.kind == 'remove':
                # allowed only as a rollback: inside an exception handler after which every path re-raises - here, or at
                # every call site of this function (a rollback helper called from the handler)
                cfg = cfg or CFG(fn)
                if not cfg.node_containing(s.call):
                    self.undecided.append(f'{where}: `{short(s.call)}` is not in the CFG')
                    continue
                in_handler, reraises, in_finally = self._handler_ctx(ref, cfg, s.call)
                if in_handler and reraises:
                    self._rec('remove-ok', ref, s.call, base, f'removes {P.show_all(dst)} only as a rollback: inside an exception handler, every path after it re-raises')
                    continue
                if rollback:
                    self._rec('remove-ok', ref, s.call, base, f'removes {P.show_all(dst)} only as a rollback: this function is entered from an exception handler that re-raises')
                    continue
                called = None if env else self._only_called_as_rollback(ref)
                if called is True:
                    self._rec('remove-ok', ref, s.call, base, f'removes {P.show_all(dst)} only as a rollback: every call site of {ref.qn} is inside an exception handler that re-raises')
                    continue
                if in_finally or (not env and called is None):
                    self.undecided.append(f'{where}: `{short(s.call)}` removes {base} in a finally block / in a helper whose callers cannot be enumerated')
                    continue
                why = 'outside an exception handler' if not in_handler else 'in a handler that can return normally'
                self._rec('remove-bad', ref, s.call, base, f'removes {P.show_all(dst)} {why}: until it is published again {base} does not exist, '
                          f'a kill in that window leaves the build directory without it')
                continue
            if s.kind == 'write':
                if s.mode is None:
                    self.undecided.append(f'{where}: `{short(s.call)}` opens {base} with a non-constant mode')
                    continue
                self._rec('inplace', ref, s.call, base,
                          f'opens {P.show_all(dst)}{chosen} with mode {s.mode!r}: {base} is truncated/modified under its own name; '
                          f'a kill between this open and the end of the write leaves it empty or partial')
                continue
            if s.kind == 'copy':
                self._rec('inplace', ref, s.call, base, f'copies onto {P.show_all(dst)}{chosen} in place (not atomic)')
                continue
            # rename: publication
            assert s.src is not None
            src = ps.resolve(ref, s.src, env)
            if len(src) != 1 or len(dst) != 1:
                self.undecided.append(f'{where}: `{short(s.call)}`: source/destination are not single names: {P.show_all(src)} -> {P.show_all(dst)}')
                continue
            (st,), (dt,) = tuple(src), tuple(dst)
            if st == dt or P.basename(st) == base and P.dirname(st) == P.dirname(dt):
                self._rec('publish-bad', ref, s.call, base, f'renames {P.show(st)} onto itself')
                continue
            sd, dd = P.dirname(st), P.dirname(dt)
            if sd is None or dd is None:
                self.undecided.append(f'{where}: `{short(s.call)}`: cannot decide whether {P.show(st)} is a sibling of {P.show(dt)}')
                continue
            if sd != dd:
                # positive evidence only: a temporary under tempfile.*; two different spellings of a directory may still be equal
                if 'tempfile.' in P.show(sd):
                    self._rec('publish-bad', ref, s.call, base,
                              f'the temporary {P.show(st)} is not in the directory of {P.show(dt)}: the rename is not an atomic same-directory publication')
                else:
                    self.undecided.append(f'{where}: `{short(s.call)}`: cannot decide whether {P.show(sd)} and {P.show(dd)} are the same directory')
                continue
            # the writer of the temporary must be closed on every path to the rename
            mine = [w for w, terms in writes if st in terms]
            problems: T.List[str] = []
            if mine:
                cfg = cfg or CFG(fn)
                pn = cfg.node_containing(s.call)
                if len(pn) != 1:
                    self.undecided.append(f'{where}: `{short(s.call)}` is not a single CFG node')
                    continue
                for w in mine:
                    problems += self._closed_before(ref, cfg, w, pn[0])
                    self._temp_mode(ref, cfg, w, st, base, env, sinks)
            if problems:
                self._rec('publish-bad', ref, s.call, base, '; '.join(problems))
            else:
                how = f'{len(mine)} writer(s) of the temporary closed on every path before it' if mine else 'source written elsewhere (complete file)'
                self._rec('publish-ok', ref, s.call, base, f'{P.show(st)} -> {P.show(dt)}: sibling name, {how}')
        # propagate protected names into repository callees
        if depth <= 0:
            return
        for n in walk_no_nested(fn):
            if not isinstance(n, ast.Call) or not (n.args or n.keywords):
                continue
            # cheap pre-test: some argument must be able to carry a protected name
            argsets = [ps.resolve(ref, a, env) for a in n.args if not isinstance(a, ast.Starred)] + \
                      [ps.resolve(ref, k.value, env) for k in n.keywords if k.arg]
            if not any(_mentions(t, self.prot) for ts in argsets for t in ts):
                continue
            callee = ps.resolve_callee(ref, n)
            if callee is None:
                continue
            env2 = ps.bind_args(callee, n, ref, env, 2, frozenset())
            env2 = {k: v for k, v in env2.items() if any(_mentions(t, self.prot) for t in v)}
            if env2:
                cfg = cfg or CFG(fn)
                in_h, rer, _ = self._handler_ctx(ref, cfg, n)
                self.analyse(callee, env2, depth - 1, rollback or (in_h and rer))

    def _protected_alternative(self, ref: FuncRef, s: Sink, env: T.Dict[str, Terms]) -> T.Optional[T.Tuple[Terms, str]]:
        """The destination expression of sink `s` folds to protected and unprotected names.  When the alternatives are chosen
        inside this function - a conditional expression with a non-constant test, or a local (not a parameter) every binding of
        which is a plain assignment - each is folded on its own.  Returns (names, ' (note)') of the alternatives that name a
        protected file alone and whose binding reaches the sink without being overwritten; (empty, '') when every reaching
        alternative names other files only; None when some alternative is itself mixed / not readable this way."""
        fn = ref.node
        params = set(P.params_of(fn)) | {a.arg for a in fn.args.kwonlyargs}
        cfg = CFG(fn)
        at = cfg.node_containing(s.call)
        if not at:
            return None
        leaves: T.List[T.Tuple[ast.AST, str]] = []
        dropped: T.List[ast.AST] = []

        def split(e: ast.AST, how: str, seen: T.FrozenSet[str]) -> bool:
            if isinstance(e, ast.IfExp):
                if isinstance(e.test, ast.Constant):
                    return False
                return split(e.body, how + f' when `{short(e.test)}` holds', seen) and split(e.orelse, how + f' when `{short(e.test)}` does not hold', seen)
            if isinstance(e, ast.Name) and e.id not in params and e.id not in seen:
                defs = self.ps.local_defs(fn).get(e.id, [])
                if not defs or any(d is None for d in defs):
                    leaves.append((e, how))
                    return True
                dn: T.List[T.Tuple[ast.AST, T.List[Node]]] = [(d, cfg.node_containing(d)) for d in defs if d is not None]
                if any(not ns for d, ns in dn):
                    return False
                for d, ns in dn:
                    if len(dn) > 1:
                        others = [n for d2, ns2 in dn if d2 is not d for n in ns2]
                        if not any(cfg.can_reach(n, a, avoid=others) for n in ns for a in at):
                            dropped.append(d)
                            continue        # overwritten before the sink on every path
                    if not split(d, how + (f' through `{e.id} = {short(d)}`' if len(dn) > 1 else ''), seen | {e.id}):
                        return False
                return True
            leaves.append((e, how))
            return True
        assert s.path is not None
        if not split(s.path, '', frozenset()) or len(leaves) + len(dropped) < 2:
            return None
        names: T.Set[Term] = set()
        notes: T.List[str] = []
        for e, how in leaves:
            ts = self.ps.resolve(ref, e, env)
            prot = [t for t in ts if _prot_base(t, self.prot)]
            if not prot:
                continue
            if len(prot) != len(ts):
                return None
            names |= set(ts)
            notes.append(how.strip() or f'as `{short(e)}`')
        if not names:
            return frozenset(), ''
        return frozenset(names), ' (' + '; '.join(notes) + ')'

    def _rec(self, kind: str, ref: FuncRef, node: ast.AST, base: str, text: str) -> None:
        k = (repr(ref), id(node), kind, base)
        if k in self._recorded:
            return
        self._recorded.add(k)
        self.recs.append(Rec(kind, ref, node, base, text))

    def _temp_mode(self, ref: FuncRef, cfg: CFG, w: Sink, st: Term, base: str, env: T.Dict[str, Terms], sinks: T.List[Sink]) -> None:
        """The temporary may be a leftover of a killed run: its writer must replace it ('w'), not require its absence ('x'),
        not extend it ('a', 'r+') - unless the leftover is removed on every path to the open."""
        where = f'{ref.mod.rel}:{ref.qn}'
        if w.mode is None:
            self.undecided.append(f'{where}: `{short(w.call)}` opens the temporary of {base} with a non-constant mode')
            return
        if 'w' in w.mode:
            self._rec('temp-mode-ok', ref, w.call, base, f'opens the temporary {P.show(st)} with mode {w.mode!r}: a leftover of a killed run is overwritten')
            return
        at = cfg.node_containing(w.call)
        removes = [n for r in sinks if r.kind == 'remove' and r.path is not None and self.ps.resolve(ref, r.path, env) == frozenset([st])
                   for n in cfg.node_containing(r.call)]

        def edge_ok(a: Node, b: Node, lab: T.Any) -> bool:
            # `if os.path.exists(tmp):` false edge: there is no leftover
            if a.kind == 'test' and lab is False and isinstance(a.ast.test, ast.Call) and call_name(a.ast.test) in ('os.path.exists', 'os.path.isfile', 'os.path.lexists') \
                    and a.ast.test.args and self.ps.resolve(ref, a.ast.test.args[0], env) == frozenset([st]):   # type: ignore[union-attr]
                return False
            return True
        reach = cfg.reachable([cfg.entry], avoid=removes, edge_ok=edge_ok)
        if removes and at and not any(n.id in reach for n in at):
            self._rec('temp-mode-ok', ref, w.call, base, f'opens the temporary {P.show(st)} with mode {w.mode!r} after removing a leftover on every path')
            return
        for c in walk_no_nested(ref.node):
            if isinstance(c, ast.Call) and c is not w.call and not any(c is r.call for r in sinks) and call_name(c) not in ('os.path.exists', 'os.path.isfile', 'os.path.lexists') \
                    and any(self.ps.resolve(ref, a, env) == frozenset([st]) for a in c.args if not isinstance(a, ast.Starred)):
                self.undecided.append(f'{where}: `{short(c)}` receives the temporary of {base}; cannot tell whether it removes a leftover before `{short(w.call)}`')
                return
        effect = 'fails with FileExistsError' if 'x' in w.mode else ('appends to the leftover, which is then published' if 'a' in w.mode else 'does not create/replace it')
        self._rec('temp-mode-bad', ref, w.call, base,
                  f'opens the temporary {P.show(st)} with mode {w.mode!r}: when a killed run left that file behind this {effect}, '
                  f'so every later write of {base} is wrong or impossible until the leftover is deleted by hand (open it with \'w\', or remove it first)')

    def _closed_before(self, ref: FuncRef, cfg: CFG, w: Sink, pub: Node) -> T.List[str]:
        """Every path from the open of the temporary to the rename passes the close of the file."""
        owner = None
        for n in walk_no_nested(ref.node):
            if isinstance(n, (ast.With, ast.AsyncWith)) and any(any(x is w.call for x in ast.walk(i.context_expr)) for i in n.items):
                owner = n
        if owner is not None:
            enters = [n for n in cfg.nodes if n.kind == 'with_enter' and n.ast is owner]
            exits = [n for n in cfg.nodes if n.kind == 'with_exit' and n.ast is owner]
            if not enters:
                raise Undecided(f'{ref}: with-statement of `{short(w.call)}` not in the CFG')
            bad = []
            if any(cfg.can_reach(e, pub, avoid=exits) for e in enters):
                bad.append(f'`{short(pub.ast)}` is reachable while `{short(w.call)}` is still open (rename inside the with-block: '
                           f'a partial, unflushed file is published)')
            elif not any(cfg.can_reach(x, pub) for x in exits) and any(cfg.can_reach(pub, e) for e in enters):
                bad.append(f'`{short(pub.ast)}` is not reached after `{short(w.call)}` is closed (published before written)')
            return bad
        # f = open(...); ...; f.close()
        opens = cfg.node_containing(w.call)
        if len(opens) != 1 or not isinstance(opens[0].ast, ast.Assign) or not isinstance(opens[0].ast.targets[0], ast.Name):
            raise Undecided(f'{ref}: `{short(w.call)}` is neither a with-item nor bound to a local')
        name = opens[0].ast.targets[0].id
        closes = cfg.nodes_with_call(lambda c: call_method(c) == 'close' and isinstance(c.func, ast.Attribute) and norm(c.func.value) == name)
        if cfg.can_reach(opens[0], pub, avoid=closes):
            return [f'`{short(pub.ast)}` is reachable from `{short(w.call)}` without {name}.close()']
        return []


def _derive_protected(ctx: RuleCtx, ps: PathSym) -> T.Dict[str, T.List[str]]:
    """Constant-named files under meson-private that the recovery entry points read (depth <= 2 through repository callees)."""
    roots = [(ENVIRONMENT, 'Environment.__init__'), (MSETUP, 'MesonApp.__init__'), (MSETUP, 'MesonApp._generate')]
    found: T.Dict[str, T.List[str]] = {}
    seen: T.Set[T.Tuple[str, T.Tuple[T.Any, ...]]] = set()

    def visit(ref: FuncRef, env: T.Dict[str, Terms], depth: int, via: str) -> None:
        key = (repr(ref), tuple(sorted(env.items(), key=lambda kv: kv[0])))
        if key in seen:
            return
        seen.add(key)
        fn = ref.node
        for s in _sinks(fn, _parser_locals(ps, ref.mod, fn)):
            if s.kind != 'read' or s.path is None:
                continue
            for t in ps.resolve(ref, s.path, env, depth=2):
                if t[0] == 'join' and len(t[1]) >= 2 and t[1][-2] == P.const(PRIVATE_DIR) and t[1][-1][0] == 'const':
                    found.setdefault(t[1][-1][1], []).append(f'{via}{ref.qn}: {short(s.call)}')
        if depth <= 0:
            return
        for n in walk_no_nested(fn):
            if isinstance(n, ast.Call):
                callee = ps.resolve_callee(ref, n)
                if callee is not None and callee.mod.rel.startswith('mesonbuild/') and callee.qn != ref.qn:
                    env2 = ps.bind_args(callee, n, ref, env, 2, frozenset())
                    env2 = {k: v for k, v in env2.items() if any(c for t in v for c in P.consts_in(t))}
                    visit(callee, env2, depth - 1, f'{via}{ref.qn} -> ')
    # anchors by role: besides the constructors, every function of msetup that replays the recorded command line
    ms = ctx.repo.module(MSETUP)
    for q, f in ms.funcs().items():
        if any(isinstance(c, ast.Call) and call_method(c) == 'read_cmd_line_file' for c in walk_no_nested(f)) and (MSETUP, q) not in roots:
            roots.append((MSETUP, q))
    for rel, qn in roots:
        if ctx.repo.module(rel).has_func(qn):
            visit(FuncRef(ctx.repo.module(rel), qn), {}, 3, '')
    return found


_EXAMPLE_REL = 'mesonbuild/__c09_selfexample__.py'
_EXAMPLE = '''
import os, shutil

def _name(build_dir):
    return os.path.join(build_dir, 'meson-private', 'cmd_line.txt')

def inplace(build_dir, text):
    filename = _name(build_dir)
    with open(filename, 'w', encoding='utf-8') as f:
        f.write(text)

def _emit(filename, text):
    with open(filename, 'a') as f:
        f.write(text)

def inplace_via_helper(build_dir, text):
    _emit(_name(build_dir), text)

def early(build_dir, text):
    filename = _name(build_dir)
    tmp = filename + '~'
    with open(tmp, 'w') as f:
        f.write(text)
        os.replace(tmp, filename)

def good(build_dir, text):
    filename = _name(build_dir)
    tmp = filename + '~'
    with open(tmp, 'w') as f:
        f.write(text)
    os.replace(tmp, filename)

def exclusive_temp(build_dir, text):
    filename = _name(build_dir)
    tmp = filename + '~'
    with open(tmp, 'x') as f:
        f.write(text)
    os.replace(tmp, filename)

def backup_by_rename(build_dir):
    filename = _name(build_dir)
    os.rename(filename, filename + '.prev')

def unlink_first(build_dir):
    os.unlink(_name(build_dir))

def rollback(build_dir, work):
    try:
        work()
    except Exception:
        os.unlink(_name(build_dir))
        raise
'''


def _self_example(ctx: RuleCtx) -> None:
    """Expected-zero clauses carry a built-in positive example that must match on every run."""
    repo = Repo(ctx.repo.root, {_EXAMPLE_REL: _EXAMPLE})
    sc = Scan(repo, [_EXAMPLE_REL], REFERENCE_PROTECTED)
    sc.run()
    got = sorted((r.kind, r.ref.qn) for r in sc.recs)
    want = sorted([('inplace', 'inplace'), ('inplace', '_emit'), ('publish-bad', 'early'), ('publish-ok', 'good'),
                   ('temp-mode-ok', 'good'), ('temp-mode-ok', 'early'), ('publish-ok', 'exclusive_temp'), ('temp-mode-bad', 'exclusive_temp'),
                   ('moved-away', 'backup_by_rename'), ('remove-bad', 'unlink_first'), ('remove-ok', 'rollback')])
    if got != want or sc.undecided:
        raise AnalysisError(f'C09.R1 built-in example not classified as expected: {got} {sc.undecided}')
    ctx.note('built-in example: in-place open (direct and through a helper parameter), rename inside the with-block, a correct temp+replace, '
             'backup by rename, unlink outside a handler and a re-raising rollback are classified as expected')


def _scope(ctx: RuleCtx) -> T.List[str]:
    return [f for f in ctx.repo.py_files('mesonbuild') if f != _EXAMPLE_REL]


def r1(ctx: RuleCtx) -> None:
    _self_example(ctx)
    ps = PathSym(ctx.repo)
    derived = _derive_protected(ctx, ps)
    for b in REFERENCE_PROTECTED:
        if b not in derived:
            ctx.note(f'meson-private/{b}: no reader found within 3 calls of the recovery entry points; taken from the reference set (A.10)')
            derived[b] = ['reference set']
    prot = sorted(derived)
    for b in prot:
        ctx.note(f'recovery-critical: meson-private/{b} (read by {"; ".join(sorted(set(derived[b]))[:3])})')
    sc = Scan(ctx.repo, _scope(ctx), prot, exact=ctx.thorough)
    sc.run()
    ctx.note(f'scope {len(sc.scope)} files; parsed {len(sc.parsed)} ({"all" if sc.exact else "those whose text spells a protected name or a carrier: " + ", ".join(sorted(sc.carriers))}), '
             f'{sc.functions} functions; analysed {len(sc.analysed)} (function, binding) pairs that can name a protected file: '
             + '; '.join(sc.analysed))
    if sc.undecided:
        raise Undecided('; '.join(sc.undecided))
    per: T.Dict[str, int] = {b: 0 for b in prot}
    n = 0
    for r in sc.recs:
        where = f'{r.ref.mod.rel}:{r.ref.qn}'
        n += 1
        if r.kind == 'remove-ok':
            ctx.ok(f'{where}: `{short(r.node)}` {r.text} (the directory becomes a partial build, see R3)')
            continue
        if r.kind == 'temp-mode-ok':
            ctx.ok(f'{where}: `{short(r.node)}` {r.text}')
            continue
        if r.kind in ('remove-bad', 'moved-away', 'temp-mode-bad'):
            ctx.violation(r.ref.mod, r.ref.qn, r.node, f'{r.base} is recovery-critical but `{short(r.node)}` {r.text}', r.node)
            continue
        per[r.base] += 1
        if r.kind == 'publish-ok':
            ctx.ok(f'{where}: `{short(r.node)}` publishes {r.base} atomically: {r.text}')
        elif r.kind == 'inplace':
            ctx.violation(r.ref.mod, r.ref.qn, r.node, f'{r.base} is recovery-critical but `{short(r.node)}` {r.text}', r.node)
        else:
            ctx.violation(r.ref.mod, r.ref.qn, r.node, f'publication of {r.base} is not atomic: {r.text}', r.node)
    for b, k in per.items():
        if k == 0:
            raise Undecided(f'no writer of meson-private/{b} found in scope: the rule would pass vacuously')
    ctx.floor('writers/publishers of recovery-critical files', n, 2)


# ---------------------------------------------------------------------------
# R2

EXC_PARENT = {
    'KeyError': 'LookupError', 'IndexError': 'LookupError', 'LookupError': 'Exception', 'EOFError': 'Exception',
    'UnpicklingError': 'PickleError', 'PickleError': 'Exception', 'OSError': 'Exception', 'IOError': 'Exception',
    'BrokenPipeError': 'ConnectionError', 'ConnectionError': 'OSError',
    'FileNotFoundError': 'OSError', 'PermissionError': 'OSError', 'BlockingIOError': 'OSError', 'IsADirectoryError': 'OSError',
    'ValueError': 'Exception', 'TypeError': 'Exception', 'AttributeError': 'Exception', 'ImportError': 'Exception',
    'ModuleNotFoundError': 'ImportError', 'RuntimeError': 'Exception', 'Exception': 'BaseException',
    'NoSectionError': 'Error', 'Error': 'Exception',
}


_EXTRA_EXC_MODULES: T.List[str] = []      # modules of the frames R6 walks through (their own exception classes)


def _repo_parents(repo: Repo, bare: str) -> T.List[str]:
    for rel in (COREDATA, 'mesonbuild/utils/core.py', UNIVERSAL, ENVIRONMENT) + tuple(_EXTRA_EXC_MODULES):
        m = repo.module(rel)
        if m.has_cls(bare):
            return [(attr_chain(b) or '').split('.')[-1] for b in m.cls(bare).bases]
    return []


def _ancestors(repo: Repo, bare: str) -> T.List[str]:
    out = [bare]
    todo = [bare]
    while todo:
        c = todo.pop()
        ps = _repo_parents(repo, c) or ([EXC_PARENT[c]] if c in EXC_PARENT else [])
        for p in ps:
            if p and p not in out:
                out.append(p)
                todo.append(p)
    return out


def _type_elements(t: ast.AST, mod: T.Optional[Module], scope_fn: T.Optional[ast.AST], depth: int = 0) -> T.List[ast.AST]:
    """Exception classes named by a handler type expression: a class, a tuple display, `A + B`, or a constant tuple bound to a
    module-level / local name (folded, family policy (a))."""
    if isinstance(t, ast.Tuple):
        return [x for e in t.elts for x in _type_elements(e, mod, scope_fn, depth)]
    if isinstance(t, ast.BinOp) and isinstance(t.op, ast.Add):
        return _type_elements(t.left, mod, scope_fn, depth) + _type_elements(t.right, mod, scope_fn, depth)
    if isinstance(t, ast.Name) and depth < 4 and t.id not in EXC_PARENT and t.id not in ('BaseException', 'MesonException'):
        val: T.Optional[ast.AST] = None
        if scope_fn is not None:
            defs = [n.value for n in walk_no_nested(scope_fn) if isinstance(n, ast.Assign) and any(isinstance(x, ast.Name) and x.id == t.id for x in n.targets)]
            if len(defs) == 1:
                val = defs[0]
        if val is None and mod is not None and mod.has_assign(t.id):
            val = mod.assign_value(t.id)
        if val is not None and isinstance(val, (ast.Tuple, ast.BinOp, ast.Name)):
            return _type_elements(val, mod, scope_fn, depth + 1)
    return [t]


def _handler_types(h: ast.ExceptHandler, mod: T.Optional[Module] = None, scope_fn: T.Optional[ast.AST] = None) -> T.List[str]:
    if h.type is None:
        return ['BaseException']
    out = []
    for t in _type_elements(h.type, mod, scope_fn):
        c = attr_chain(t)
        if c is None:
            raise Undecided(f'exception handler type `{short(t)}` is not a name')
        out.append(c.split('.')[-1])
    return out


def _first_handler(repo: Repo, tr: ast.Try, exc: str, mod: T.Optional[Module] = None, scope_fn: T.Optional[ast.AST] = None) -> T.Optional[ast.ExceptHandler]:
    anc = _ancestors(repo, exc)
    unread: T.List[str] = []
    for h in tr.handlers:
        types = _handler_types(h, mod, scope_fn)
        if any(t in anc for t in types):
            return h
        unread += [t for t in types if not _known_exc(repo, t)]
    if unread:
        # closed world: a handler whose classes could not be read may well be the one that catches it
        raise Undecided(f'handler type(s) {sorted(set(unread))} could not be resolved to exception classes')
    return None


def _tries_with_call(fn: ast.AST, pred: T.Callable[[ast.Call], bool]) -> T.List[T.Tuple[ast.Try, ast.Call]]:
    out = []
    for n in walk_no_nested(fn):
        if isinstance(n, ast.Try):
            for st in n.body:
                for c in walk_no_nested(st):
                    if isinstance(c, ast.Call) and pred(c):
                        out.append((n, c))
    # innermost try only
    inner = []
    for tr, c in out:
        if not any(tr2 is not tr and any(x is tr2 for x in ast.walk(tr)) for tr2, c2 in out if c2 is c):
            inner.append((tr, c))
    return inner


def _raised_class(v: T.Optional[ast.AST]) -> T.Optional[str]:
    if v is None:
        return None
    if isinstance(v, ast.Call):
        v = v.func
    c = attr_chain(v)
    return c.split('.')[-1] if c else None


def _known_exc(repo: Repo, bare: str) -> bool:
    return bare in EXC_PARENT or bare in ('BaseException',) or bool(_repo_parents(repo, bare)) or bare == 'MesonException'


HANDLER_INERT_PREFIXES = ('mlog.', 'os.path.', 'T.cast')
HANDLER_INERT = {'str', 'repr', 'int', 'bool', 'len', 'isinstance', 'format', 'print', 'getattr', 'type'}


def _path_raise(ctx: RuleCtx, ps: PathSym, ref: FuncRef, p: T.Any, depth: int = 2) -> str:
    """How a handler path ends: 'meson' (raises a MesonException subclass), 'other' (raises a known different class),
    'reraise' (bare raise), 'falls' (understood, does not raise), 'unknown' (something on it is not understood)."""
    if p.outcome == 'raise':
        v = p.value
        if v is None:
            return 'reraise'
        if isinstance(v, ast.Name):
            d = ps.local_defs(ref.node).get(v.id, [])
            if len(d) == 1 and d[0] is not None:
                v = d[0]
        cls = _raised_class(v)
        if (cls is None or not _known_exc(ctx.repo, cls)) and isinstance(v, ast.Call) and depth > 0:
            # raise factory(): the classes of what the (repository / nested) factory function returns
            fac = ps.resolve_callee(ref, v)
            if fac is not None:
                kinds = set()
                for r in walk_no_nested(fac.node):
                    if isinstance(r, ast.Return):
                        rv: T.Optional[ast.AST] = r.value
                        if isinstance(rv, ast.Name):
                            d = ps.local_defs(fac.node).get(rv.id, [])
                            rv = d[0] if len(d) == 1 and d[0] is not None else rv
                        c2 = _raised_class(rv) if isinstance(rv, ast.Call) else None
                        if c2 is None or not _known_exc(ctx.repo, c2):
                            kinds.add('unknown')
                        else:
                            kinds.add('meson' if 'MesonException' in _ancestors(ctx.repo, c2) else 'other')
                if len(kinds) == 1:
                    return kinds.pop()
            return 'unknown'
        if cls is None or not _known_exc(ctx.repo, cls):
            return 'unknown'
        return 'meson' if 'MesonException' in _ancestors(ctx.repo, cls) else 'other'
    understood = True
    for c in p.calls():
        cn = call_name(c) or ''
        if cn in HANDLER_INERT or cn.startswith(HANDLER_INERT_PREFIXES):
            continue
        callee = ps.resolve_callee(ref, c)
        if callee is not None and depth > 0:
            sub = [_path_raise(ctx, ps, callee, q, depth - 1) for q in enumerate_paths(callee.node.body)]
            if sub and all(x == 'meson' for x in sub):
                return 'meson'          # a helper that always raises the guided error
        elif callee is None and not (cn in HANDLER_INERT or cn.startswith(HANDLER_INERT_PREFIXES) or cn.split('.')[-1] in ('format', 'join', 'append')):
            understood = False
    if p.outcome != 'fall' and p.outcome != 'return':
        return 'unknown'
    return 'falls' if understood else 'unknown'


def _enclosing_tries(mod: Module, fn: ast.AST, node: ast.AST) -> T.Tuple[T.List[ast.Try], bool]:
    """Try statements whose *body* contains node, innermost first; and whether a with-statement other than open() encloses it."""
    pm = mod.parent_map()
    out: T.List[ast.Try] = []
    odd_with = False
    child = node
    cur = pm.get(node)
    while cur is not None and child is not fn:
        if isinstance(cur, ast.Try) and any(child is st for st in cur.body):
            out.append(cur)
        if isinstance(cur, (ast.With, ast.AsyncWith)) and any(child is st for st in cur.body):
            for i in cur.items:
                if not (isinstance(i.context_expr, ast.Call) and (call_name(i.context_expr) in OPEN_FUNCS or call_method(i.context_expr) == 'open')):
                    odd_with = True
        child = cur
        cur = pm.get(cur)
    return out, odd_with


TRUNCATED_PICKLE_RAISES = ('UnpicklingError', 'EOFError')


def _is_pickle_load(mod: Module, c: ast.Call) -> bool:
    cn = call_name(c)
    imps = mod.imports()
    return cn in ('pickle.load', 'pickle.loads') or (cn in ('load', 'loads') and imps.get(cn, '').startswith('pickle'))


def r2_pickle(ctx: RuleCtx) -> None:
    mod = ctx.repo.module(UNIVERSAL)
    ps = PathSym(ctx.repo)
    top = FuncRef(mod, 'pickle_load')
    top.node
    # the unpickling site: in pickle_load itself or in a helper it calls (followed one level, then back out to the call site)
    sites: T.List[T.List[T.Tuple[FuncRef, ast.Call]]] = []     # chains innermost -> outermost
    for c in walk_no_nested(top.node):
        if not isinstance(c, ast.Call):
            continue
        if _is_pickle_load(mod, c):
            sites.append([(top, c)])
            continue
        h = ps.resolve_callee(top, c)
        if h is not None and h.qn != top.qn:
            for c2 in walk_no_nested(h.node):
                if isinstance(c2, ast.Call) and _is_pickle_load(h.mod, c2):
                    sites.append([(h, c2), (top, c)])
    if not sites:
        raise Undecided('pickle_load: no pickle.load call found in it or in the helpers it calls')
    for chain in sites:
        inner = chain[0][1]
        for exc in TRUNCATED_PICKLE_RAISES:
            handler: T.Optional[T.Tuple[FuncRef, ast.ExceptHandler]] = None
            odd = False
            for ref, call in chain:
                tries, odd_with = _enclosing_tries(ref.mod, ref.node, call)
                odd = odd or odd_with
                for tr in tries:
                    h2 = _first_handler(ctx.repo, tr, exc, ref.mod, ref.node)
                    if h2 is not None:
                        handler = (ref, h2)
                        break
                if handler:
                    break
            if handler is None:
                if odd:
                    raise Undecided(f'pickle_load: `{short(inner)}` is inside a context manager the rule does not understand')
                ctx.violation(mod, 'pickle_load', inner, f'{exc} raised by `{short(inner)}` on a truncated file is not caught on its way out of pickle_load: it escapes as '
                              f'{exc} instead of the MesonException that Environment.__init__ answers by regenerating', inner)
                continue
            href, h = handler
            paths = enumerate_paths(h.body)
            ends = [(_path_raise(ctx, ps, href, p), p) for p in paths]
            if any(e == 'unknown' for e, p in ends):
                raise Undecided(f'{href.qn}: the handler for {exc} does something the rule does not understand: {[p.describe() for e, p in ends if e == "unknown"]}')
            bad = [f'{p.describe()} [{e}]' for e, p in ends if e != 'meson']
            ctx.require(not bad, f'pickle_load: {exc} from `{short(inner)}` -> handler `except {short(h.type)}` in {href.qn} raises MesonException on all {len(paths)} path(s)',
                        href.mod, href.qn, h, f'the handler for {exc} does not end in `raise MesonException(...)` on: {bad}', h)


def _is_regenerate(ps: PathSym, ref: FuncRef, c: ast.Call) -> bool:
    """A call that builds a fresh CoreData (directly or in the callee)."""
    cn = call_name(c) or ''
    if cn.split('.')[-1] == 'CoreData':
        return True
    callee = ps.resolve_callee(ref, c)
    if callee is None:
        return False
    return any(isinstance(x, ast.Call) and (call_name(x) or '').split('.')[-1] == 'CoreData' for x in walk_no_nested(callee.node))


def _is_replay(ps: PathSym, ref: FuncRef, c: ast.Call) -> bool:
    callee = ps.resolve_callee(ref, c)
    return callee is not None and callee.mod.rel == CMDLINE and callee.qn == 'read_cmd_line_file'


def _opaque_leaves(ts: T.Iterable[Term]) -> T.FrozenSet[str]:
    out: T.Set[str] = set()

    def rec(t: Term) -> None:
        if t[0] == 'opaque':
            out.add(str(t[1]))
        elif t[0] == 'join':
            for x in t[1]:
                rec(x)
        elif t[0] == 'cat':
            rec(t[1])
            rec(t[2])
    for t in ts:
        rec(t)
    return frozenset(out)


def _differ_under_same_root(a: Terms, b: Terms) -> bool:
    """Positive evidence that two folded name sets denote different files: for some set of opaque roots both sides have
    names built on exactly those roots, and none coincides (flow-insensitive unions make other groups incomparable)."""
    groups = {_opaque_leaves([t]) for t in a} & {_opaque_leaves([t]) for t in b}
    for g in groups:
        if not g:
            continue
        ga = {t for t in a if _opaque_leaves([t]) == g}
        gb = {t for t in b if _opaque_leaves([t]) == g}
        if ga and gb and not (ga & gb):
            return True
    return False


def _replay_file(ps: PathSym, ref: FuncRef, call: ast.Call) -> Terms:
    """The file name(s) that this call of read_cmd_line_file hands to the parser, with the call's arguments bound."""
    callee = ps.resolve_callee(ref, call)
    if callee is None:
        return frozenset()
    env = ps.bind_args(callee, call, ref, {}, 2, frozenset())
    out: T.Set[Term] = set()
    for s in _sinks(callee.node, _parser_locals(ps, callee.mod, callee.node)):
        if s.kind == 'read' and s.path is not None and call_method(s.call) in ('read', 'read_file'):
            out |= ps.resolve(callee, s.path, env)
    return frozenset(out)


def _recovery_events(ps: PathSym, ref: FuncRef, calls: T.List[ast.Call], depth: int = 2) -> T.Tuple[T.List[str], bool]:
    """'replay' / 'regenerate' events in order, helpers expanded; and whether every call was understood."""
    ev: T.List[str] = []
    understood = True
    for c in calls:
        cn = call_name(c) or ''
        if cn in HANDLER_INERT or cn.startswith(HANDLER_INERT_PREFIXES):
            continue
        if _is_replay(ps, ref, c):
            ev.append('replay')
        elif _is_regenerate(ps, ref, c):
            ev.append('regenerate')
        else:
            callee = ps.resolve_callee(ref, c)
            if callee is not None and depth > 0:
                inner = sorted((x for x in walk_no_nested(callee.node) if isinstance(x, ast.Call)), key=lambda x: (x.end_lineno or 0, x.end_col_offset or 0))
                e2, u2 = _recovery_events(ps, callee, inner, depth - 1)
                ev += e2
                understood = understood and u2
            elif callee is None and not (cn in HANDLER_INERT or cn in ('MesonException',) or cn.startswith(HANDLER_INERT_PREFIXES)
                                         or cn.split('.')[-1] in ('format', 'join')):
                understood = False
    return ev, understood


def _exc_type_test(repo: Repo, node: ast.AST, bound: T.Optional[str], exc: str, mod: T.Optional[Module], scope_fn: T.Optional[ast.AST]) -> T.Optional[bool]:
    """Truth value of the atom `isinstance(<the caught exception>, C)` in the world "an exception of class `exc` (or a subclass)
    was caught" (family policy (b): a type world).  True when C is `exc` or an ancestor of it, False when C is a known class
    unrelated to `exc` (neither ancestor nor descendant), None (both values possible / not such an atom) otherwise."""
    if not (bound and isinstance(node, ast.Call) and call_name(node) == 'isinstance' and len(node.args) == 2 and not node.keywords
            and isinstance(node.args[0], ast.Name) and node.args[0].id == bound):
        return None
    anc = _ancestors(repo, exc)
    vals: T.List[T.Optional[bool]] = []
    for t in _type_elements(node.args[1], mod, scope_fn):
        c = attr_chain(t)
        bare = c.split('.')[-1] if c else None
        if bare is None or not _known_exc(repo, bare):
            vals.append(None)
        elif bare in anc:
            vals.append(True)
        elif exc in _ancestors(repo, bare):
            vals.append(None)          # a subclass of the judged class: both answers are possible
        else:
            vals.append(False)
    if any(v is True for v in vals):
        return True
    if vals and all(v is False for v in vals):
        return False
    return None


def r2_environment(ctx: RuleCtx) -> None:
    mod = ctx.repo.module(ENVIRONMENT)
    ps = PathSym(ctx.repo)
    # anchor by role: the try statement(s) of this module whose body calls coredata.load
    found: T.List[T.Tuple[FuncRef, ast.Try, ast.Call]] = []
    bare: T.List[str] = []
    for qn0, fn0 in mod.funcs().items():
        ref0 = FuncRef(mod, qn0)
        for c in walk_no_nested(fn0):
            if isinstance(c, ast.Call) and call_method(c) == 'load':
                r = ps.resolve_callee(ref0, c)
                if r is not None and r.mod.rel == COREDATA and r.qn == 'load':
                    tries, _ = _enclosing_tries(mod, fn0, c)
                    if tries:
                        found.append((ref0, tries[0], c))
                    else:
                        bare.append(qn0)
    if not found:
        raise Undecided(f'{ENVIRONMENT}: no `try:` around a call of coredata.load (calls outside a try in: {bare})')
    for ref, tr, call in found:
        qn = ref.qn
        for exc, what in (('FileNotFoundError', 'missing coredata.dat'), ('MesonException', 'unreadable coredata.dat')):
            h = _first_handler(ctx.repo, tr, exc, mod, ref.node)
            if h is None:
                outer, _ = _enclosing_tries(mod, ref.node, tr)
                if outer:
                    raise Undecided(f'{qn}: {exc} from coredata.load is handled by an outer try; not followed')
                ctx.violation(mod, qn, call, f'{exc} from coredata.load ({what}) is not handled: the build directory stays unusable', call)
                continue
            if exc == 'MesonException' and 'MesonException' not in _handler_types(h, mod, ref.node) and not set(_handler_types(h, mod, ref.node)) & {'Exception', 'BaseException'}:
                raise Undecided(f'handler chosen for MesonException is `{short(h.type)}`')
            paths = enumerate_paths(h.body, pure={'isfile', 'exists', 'get_cmd_line_file', 'join'})
            n_regen = 0
            n_pruned = 0
            reported: T.Set[int] = set()
            for p in paths:
                tested: T.Optional[T.Tuple[ast.AST, Terms]] = None
                present: T.Optional[bool] = None
                nconds = 0
                impossible = False
                for ev in p.events:
                    if ev.kind != 'cond':
                        continue
                    nconds += 1
                    node = ev.node
                    if isinstance(node, ast.Name):          # condition named first
                        d = ps.local_defs(ref.node).get(node.id, [])
                        if len(d) == 1 and d[0] is not None:
                            node = d[0]
                    # a handler shared by several classes that dispatches on `isinstance(e, C)`: only the paths consistent
                    # with the class being judged belong to this case
                    tv = _exc_type_test(ctx.repo, node, h.name, exc, mod, ref.node)
                    if tv is not None:
                        nconds -= 1
                        if tv != bool(ev.val):
                            impossible = True
                            break
                        continue
                    if isinstance(node, ast.Call) and call_name(node) in ('os.path.isfile', 'os.path.exists') and node.args:
                        ts = ps.resolve(ref, node.args[0])
                        if ts and all(P.basename(t) == 'cmd_line.txt' for t in ts):
                            present = ev.val
                            nconds -= 1
                            tested = (node, ts)
                if impossible:
                    n_pruned += 1
                    continue
                events, understood = _recovery_events(ps, ref, p.calls())
                # the file whose presence is tested must be the file the replay reads (same folded name)
                if tested is not None and present:
                    for c in p.calls():
                        if _is_replay(ps, ref, c):
                            rt = _replay_file(ps, ref, c)
                            tt = tested[1]
                            if _differ_under_same_root(rt, tt) and id(tested[0]) not in reported:
                                reported.add(id(tested[0]))
                                ctx.violation(mod, qn, tested[0], f'{what}: the presence test `{short(tested[0])}` looks at {P.show_all(tt)} but `{short(c)}` '
                                              f'replays {P.show_all(rt)}: the test never sees the recorded command line, so recovery is always refused', tested[0])
                end = _path_raise(ctx, ps, ref, p)
                if end == 'unknown' and p.outcome == 'raise':
                    raise Undecided(f'{qn}: the {exc} handler path `{p.describe()}` raises something the rule does not understand')
                if end in ('falls', 'unknown'):
                    ok = 'regenerate' in events and 'replay' in events and events.index('replay') < events.index('regenerate') and present is not False
                    n_regen += 1
                    if not ok and (end == 'unknown' or not understood):
                        raise Undecided(f'{qn}: the {exc} handler path `{p.describe()}` contains calls the rule does not understand')
                    ctx.require(ok, f'{qn}: {what} -> recorded command line replayed (read_cmd_line_file) before a new coredata is created ({p.describe()})',
                                mod, qn, h, f'{what}: recovery path `{p.describe()}` creates a new coredata without first replaying meson-private/cmd_line.txt '
                                f'(events: {events or "none"}): the -D options and machine files recorded there are silently dropped and cmd_line.txt is rewritten without them', h)
                elif end in ('meson', 'reraise'):
                    ok = exc == 'MesonException' and present is False
                    if not ok and present is None and nconds:
                        raise Undecided(f'{qn}: the {exc} handler raises on `{p.describe()}`, a condition the rule does not understand')
                    ctx.require(ok, f'{qn}: {what} and no cmd_line.txt -> guided MesonException', mod, qn, h,
                                f'{what}: path `{p.describe()}` raises although cmd_line.txt may be present: recovery is refused', h)
                else:
                    ctx.violation(mod, qn, h, f'{what}: path `{p.describe()}` raises a non-Meson exception', h)
            if n_regen == 0:
                ctx.violation(mod, qn, h, f'{what}: no path of the handler regenerates the configuration', h)


SECTION_READERS = {'items', 'options', 'get', 'getint', 'getfloat', 'getboolean'}


_DEFS: T.Dict[str, T.List[T.Optional[ast.AST]]] = {}     # local definitions of the function being judged (set by r2_cmdline)


def _presence(test: ast.AST, label: bool, parser: str, key: str, seen: T.FrozenSet[str] = frozenset()) -> bool:
    """Does `test` evaluating to `label` imply that section `key` exists in `parser`?"""
    if isinstance(test, ast.UnaryOp) and isinstance(test.op, ast.Not):
        return _presence(test.operand, not label, parser, key, seen)
    if isinstance(test, ast.BoolOp):
        if isinstance(test.op, ast.And) and label:
            return any(_presence(v, True, parser, key, seen) for v in test.values)
        if isinstance(test.op, ast.Or) and not label:
            return any(_presence(v, False, parser, key, seen) for v in test.values)
        return False
    if isinstance(test, ast.Name) and test.id not in seen:      # condition named first: `has = 'options' in config; if has:`
        d = _DEFS.get(test.id, [])
        if len(d) == 1 and d[0] is not None:
            return _presence(d[0], label, parser, key, seen | {test.id})
        return False
    if isinstance(test, ast.Compare) and len(test.ops) == 1 and isinstance(test.left, ast.Constant) and test.left.value == key:
        c = test.comparators[0]
        holder = norm(c) == parser or (isinstance(c, ast.Call) and not c.args and call_name(c) in (f'{parser}.sections', f'{parser}.keys')) \
            or (isinstance(c, ast.Call) and call_name(c) in ('list', 'set', 'tuple', 'frozenset') and len(c.args) == 1 and norm(c.args[0]) == parser)
        if holder:
            if isinstance(test.ops[0], ast.In):
                return label
            if isinstance(test.ops[0], ast.NotIn):
                return not label
    if isinstance(test, ast.Call) and call_name(test) == f'{parser}.has_section' and len(test.args) == 1 \
            and isinstance(test.args[0], ast.Constant) and test.args[0].value == key:
        return label
    return False


def _suppressed(mod: Module, fn: ast.AST, node: ast.AST, anc: T.List[str]) -> bool:
    """node lies in the body of `with contextlib.suppress(E, ...)` with E covering the exception."""
    pm = mod.parent_map()
    cur = pm.get(node)
    while cur is not None and cur is not fn:
        if isinstance(cur, (ast.With, ast.AsyncWith)):
            for i in cur.items:
                c = i.context_expr
                if isinstance(c, ast.Call) and (call_name(c) or '').split('.')[-1] == 'suppress':
                    if any((attr_chain(a) or '').split('.')[-1] in anc for a in c.args):
                        return True
        cur = pm.get(cur)
    return False


KNOWN_PARSER_ATTRS = {'read', 'read_file', 'read_string', 'read_dict', 'write', 'has_section', 'add_section', 'sections', 'has_option', 'keys',
                      'items', 'options', 'get', 'getint', 'getfloat', 'getboolean', 'set', 'optionxform'}


def _unknown_parser_uses(mod: Module, fn: ast.AST, parser: str) -> T.List[ast.AST]:
    """Loads of the parser object in a context the rule does not classify (handed to a helper, iterated, copied, returned)."""
    pm = mod.parent_map()
    out: T.List[ast.AST] = []
    for n in walk_no_nested(fn):
        if not (isinstance(n, ast.Name) and n.id == parser and isinstance(n.ctx, ast.Load)):
            continue
        par = pm.get(n)
        if isinstance(par, ast.Attribute) and par.attr in KNOWN_PARSER_ATTRS:
            continue
        if isinstance(par, ast.Attribute) and (id(fn), parser) in PARSER_CLASS and isinstance(pm.get(par), ast.Call) and pm.get(par).func is par \
                and any(isinstance(st, (ast.FunctionDef, ast.AsyncFunctionDef)) and st.name == par.attr for st in PARSER_CLASS[(id(fn), parser)][1].body):   # type: ignore[union-attr]
            continue        # a method the repository parser class defines: read by _accessor_accesses
        if isinstance(par, ast.Subscript) and par.value is n:
            continue
        if isinstance(par, ast.Compare) and any(c is n for c in par.comparators) and all(isinstance(o, (ast.In, ast.NotIn)) for o in par.ops):
            continue
        if isinstance(par, ast.Call) and call_name(par) in ('list', 'set', 'tuple', 'frozenset') and isinstance(pm.get(par), ast.Compare):
            continue
        out.append(par if par is not None else n)
    return out


def _expr_guarded(mod: Module, fn: ast.AST, node: ast.AST, parser: str, key: str) -> bool:
    pm = mod.parent_map()
    child = node
    cur = pm.get(node)
    while cur is not None and cur is not fn and not isinstance(cur, ast.stmt):
        if isinstance(cur, ast.IfExp):
            if child is cur.body and _presence(cur.test, True, parser, key):
                return True
            if child is cur.orelse and _presence(cur.test, False, parser, key):
                return True
        elif isinstance(cur, ast.BoolOp):
            i = [k for k, v in enumerate(cur.values) if v is child]
            if i:
                want = isinstance(cur.op, ast.And)
                if any(_presence(v, want, parser, key) for v in cur.values[:i[0]]):
                    return True
        child = cur
        cur = pm.get(cur)
    # comprehension `if` clauses / statement-level tests are handled by the CFG part
    return False


def _accessor_accesses(ps: PathSym, cls: T.Tuple[Module, ast.ClassDef], call: ast.Call, qn: str) -> T.Optional[T.Tuple[int, T.Optional[T.Tuple[str, str]]]]:
    """`parser.m('sec', ...)` with m defined by the repository parser class: (number of section accesses in m that a presence test
    of the same expression guards, the (section, error) of an access that nothing in m guards - the caller must guard the call
    then - or None).  None when m is not a method of that class (configparser API).  Undecided when m is not straight-line."""
    import copy
    meth = None
    for st in cls[1].body:
        if isinstance(st, (ast.FunctionDef, ast.AsyncFunctionDef)) and st.name == call.func.attr:      # type: ignore[attr-defined]
            meth = st
    if meth is None:
        return None
    params = [a.arg for a in meth.args.posonlyargs + meth.args.args][1:]
    if call.keywords or len(call.args) > len(params) or meth.args.vararg or meth.args.kwarg:
        bound: T.Dict[str, ast.AST] = {}
    else:
        bound = {p: a for p, a in zip(params, call.args) if isinstance(a, ast.Constant)}     # other arguments stay names: a key built from one ends Undecided below
    selfname = (meth.args.posonlyargs + meth.args.args)[0].arg
    body = [st for st in meth.body if not (isinstance(st, ast.Expr) and isinstance(st.value, ast.Constant))]
    m2 = copy.deepcopy(ast.Module(body=body, type_ignores=[]))
    m2 = _Rename({}, bound).visit(m2)
    pm: T.Dict[int, ast.AST] = {}
    for parent in ast.walk(m2):
        for ch in ast.iter_child_nodes(parent):
            pm[id(ch)] = parent
    guarded = 0
    raw: T.Optional[T.Tuple[str, str]] = None
    for x in ast.walk(m2):
        key = what = None
        if isinstance(x, ast.Subscript) and isinstance(x.value, ast.Name) and x.value.id == selfname and isinstance(x.ctx, ast.Load):
            if not (isinstance(x.slice, ast.Constant) and isinstance(x.slice.value, str)):
                raise Undecided(f'{qn}: `{short(call)}`: {cls[1].name}.{meth.name} indexes the parser with a key that is not an argument constant')
            key, what = x.slice.value, 'KeyError'
        elif isinstance(x, ast.Call) and isinstance(x.func, ast.Attribute) and isinstance(x.func.value, ast.Name) and x.func.value.id == selfname \
                and x.func.attr in SECTION_READERS and x.args and kwarg(x, 'fallback') is None:
            if not (isinstance(x.args[0], ast.Constant) and isinstance(x.args[0].value, str)):
                raise Undecided(f'{qn}: `{short(call)}`: {cls[1].name}.{meth.name} reads a section that is not an argument constant')
            key, what = x.args[0].value, 'configparser.NoSectionError'
        if key is None or what is None:
            continue
        # guard inside the same expression (conditional expression / and-or chain)?
        ok = False
        child: ast.AST = x
        cur = pm.get(id(x))
        while cur is not None and not isinstance(cur, ast.stmt):
            if isinstance(cur, ast.IfExp):
                ok = ok or (child is cur.body and _presence(cur.test, True, selfname, key)) or (child is cur.orelse and _presence(cur.test, False, selfname, key))
            elif isinstance(cur, ast.BoolOp):
                i = [k for k, v in enumerate(cur.values) if v is child]
                if i and any(_presence(v, isinstance(cur.op, ast.And), selfname, key) for v in cur.values[:i[0]]):
                    ok = True
            child = cur
            cur = pm.get(id(cur))
        if ok:
            guarded += 1
        elif len(body) == 1 and isinstance(body[0], ast.Return) and raw is None:
            raw = (key, what)
        else:
            raise Undecided(f'{qn}: `{short(call)}`: {cls[1].name}.{meth.name} reads section {key!r} behind statement-level logic the rule does not follow')
    if not guarded and raw is None:
        return None
    return guarded, raw


def r2_cmdline(ctx: RuleCtx) -> None:
    mod = ctx.repo.module(CMDLINE)
    ps = PathSym(ctx.repo)
    readers = 0
    accesses = 0
    for qn, fn in mod.funcs().items():
        parsers = _parser_locals(ps, mod, fn)
        if not parsers:
            continue
        reads = [c for c in walk_no_nested(fn) if isinstance(c, ast.Call) and call_method(c) in ('read', 'read_file', 'read_string')
                 and isinstance(c.func, ast.Attribute) and norm(c.func.value) in parsers]
        if not reads and not any((id(fn), x) in PARSER_FILLED for x in parsers):
            continue   # a parser that is only filled by this function has every section it stores
        readers += 1
        cfg = CFG(fn)
        _DEFS.clear()
        _DEFS.update(ps.local_defs(fn))
        for c in walk_no_nested(fn):
            if isinstance(c, ast.Call) and isinstance(c.func, ast.Attribute) and norm(c.func.value) in parsers \
                    and c.func.attr in ('remove_section', 'clear', 'pop', 'popitem'):
                raise Undecided(f'{qn}: `{short(c)}` removes sections; presence guards are not tracked across it')
        for n in walk_no_nested(fn):
            parser = key = None
            what = ''
            if isinstance(n, ast.Subscript) and isinstance(n.value, ast.Name) and n.value.id in parsers and isinstance(n.ctx, ast.Load):
                if not (isinstance(n.slice, ast.Constant) and isinstance(n.slice.value, str)):
                    raise Undecided(f'{qn}: section key of `{short(n)}` is not a constant')
                parser, key, what = n.value.id, n.slice.value, 'KeyError'
            elif isinstance(n, ast.Call) and isinstance(n.func, ast.Attribute) and isinstance(n.func.value, ast.Name) and n.func.value.id in parsers \
                    and n.func.attr in SECTION_READERS and n.args and kwarg(n, 'fallback') is None:
                if not (isinstance(n.args[0], ast.Constant) and isinstance(n.args[0].value, str)):
                    raise Undecided(f'{qn}: section argument of `{short(n)}` is not a constant')
                parser, key, what = n.func.value.id, n.args[0].value, 'configparser.NoSectionError'
            elif isinstance(n, ast.Call) and isinstance(n.func, ast.Attribute) and isinstance(n.func.value, ast.Name) and (id(fn), n.func.value.id) in PARSER_CLASS:
                # an accessor method the repository parser class defines: read its body with the call's constant arguments bound
                acc = _accessor_accesses(ps, PARSER_CLASS[(id(fn), n.func.value.id)], n, qn)
                if acc is None:
                    continue
                n_guarded, raw = acc
                accesses += n_guarded
                if n_guarded:
                    ctx.ok(f'{qn}: `{short(n)}`: {n_guarded} section access(es) inside the accessor method are guarded by a presence test in the same expression')
                if raw is None:
                    continue
                parser, key, what = n.func.value.id, raw[0], raw[1]      # the call is as good as the bare access it returns
            if parser is None or key is None:
                continue
            accesses += 1
            label = f'{qn}: `{short(n)}` (section {key!r} of the parsed cmd_line.txt)'
            if _expr_guarded(mod, fn, n, parser, key):
                ctx.ok(label + ' is guarded by a presence test in the same expression')
                continue
            at = cfg.node_containing(n)
            if not at:
                raise Undecided(f'{qn}: `{short(n)}` is not in the CFG (comprehension scope?)')
            unguarded = []
            for node in at:
                # caught locally?
                caught = False
                for b, lab in cfg.succ[node.id]:
                    hn = cfg.nodes[b]
                    if lab == 'exc' and hn.kind == 'handler':
                        anc = _ancestors(ctx.repo, 'KeyError' if what == 'KeyError' else 'NoSectionError')
                        if any(t in anc for t in _handler_types(hn.ast, mod, fn)):  # type: ignore[arg-type]
                            caught = True
                if caught or _suppressed(mod, fn, n, _ancestors(ctx.repo, 'KeyError' if what == 'KeyError' else 'NoSectionError')):
                    continue
                # established on every path: a presence test edge, or a store `parser[key] = ...` / add_section(key)
                stores = [m for m in cfg.nodes if m.kind == 'stmt' and (
                    (isinstance(m.ast, ast.Assign) and any(isinstance(t, ast.Subscript) and norm(t.value) == parser and isinstance(t.slice, ast.Constant)
                                                           and t.slice.value == key for t in m.ast.targets)) or
                    any(isinstance(c, ast.Call) and call_name(c) == f'{parser}.add_section' and c.args and isinstance(c.args[0], ast.Constant)
                        and c.args[0].value == key for c in walk_no_nested(m.ast)))]

                def edge_ok(a: Node, b: Node, lab: T.Any) -> bool:
                    if a.kind == 'test' and lab in (True, False) and _presence(a.ast.test, lab, parser, key):  # type: ignore[union-attr,arg-type]
                        return False
                    return True
                reach = cfg.reachable([cfg.entry], avoid=stores, edge_ok=edge_ok)
                if node.id in reach:
                    unguarded.append(node)
            if unguarded:
                # closed world: a use of the parser the rule does not classify, able to run before the access, may be the guard
                for u in _unknown_parser_uses(mod, fn, parser):
                    un = cfg.node_containing(u)
                    if not un or any(cfg.can_reach(x, y) or x is y for x in un for y in unguarded):
                        raise Undecided(f'{qn}: `{short(n)}` has no presence guard the rule recognises, but `{short(u)}` uses the parser in a way it does not follow')
                where = unguarded[0].expr() if unguarded[0].kind != 'with_enter' else n
                ctx.violation(mod, qn, where if where is not None else n, f'`{short(n)}` raises {what} when cmd_line.txt is present but has no [{key}] section (empty or short file after an '
                              f'interrupted write): no presence test (`{key!r} in {parser}` / has_section) dominates it and no handler converts it', n)
            else:
                ctx.ok(label + ' is dominated by a presence test / store of the section, or its error is handled')
    ctx.floor('functions that parse cmd_line.txt', readers, 1)
    ctx.floor('section accesses on a parsed cmd_line.txt', accesses, 1)


# ---------------------------------------------------------------------------
# R3

def _fs_test(ps: PathSym, ref: FuncRef, e: ast.AST, env: T.Dict[str, Terms], depth: int = 2) -> T.Optional[str]:
    """Classify a file-system test on the build directory: which reference variable it reads."""
    for _ in range(3):
        if isinstance(e, ast.Name):
            d = ps.local_defs(ref.node).get(e.id, [])
            if len(d) == 1 and d[0] is not None:
                e = d[0]
                continue
        break
    if not isinstance(e, ast.Call):
        return None
    cn = call_name(e) or ''
    if cn == 'os.listdir' or (isinstance(e.func, ast.Attribute) and e.func.attr == 'iterdir' and not e.args):
        return 'nonempty'
    if cn in ('any', 'list', 'tuple', 'bool', 'len') and len(e.args) == 1:
        return _fs_test(ps, ref, e.args[0], env, depth) if cn != 'len' else None
    arg: T.Optional[ast.AST] = e.args[0] if e.args else None
    last = call_method(e) or ''
    if last in ('is_dir', 'is_file', 'exists') and not e.args and isinstance(e.func, ast.Attribute):
        arg, cn = e.func.value, 'os.path.' + {'is_dir': 'isdir', 'is_file': 'isfile', 'exists': 'exists'}[last]
    if cn in ('os.path.exists', 'os.path.isfile', 'os.path.isdir', 'os.path.lexists') and arg is not None:
        ts = ps.resolve(ref, arg, env)
        kind = cn.split('.')[-1]
        if ts and all(t[0] == 'join' and len(t[1]) >= 2 and t[1][-2:] == (P.const(PRIVATE_DIR), P.const('coredata.dat')) for t in ts):
            return 'valid' if kind in ('exists', 'isfile', 'lexists') else 'coredata-is-a-directory'
        if ts and all(t[0] == 'join' and len(t[1]) >= 2 and t[1][-2:] == (P.const(PRIVATE_DIR), P.const('build.dat')) for t in ts):
            return 'build-data' if kind in ('exists', 'isfile', 'lexists') else None
        if ts and all(t[0] == 'join' and t[1][-1] == P.const(PRIVATE_DIR) for t in ts):
            return 'partial' if kind in ('exists', 'isdir', 'lexists') else 'private-is-a-file'
        return None
    # a helper whose single return expression is such a test
    if depth > 0:
        callee = ps.resolve_callee(ref, e)
        if callee is not None:
            rets = [n for n in walk_no_nested(callee.node) if isinstance(n, ast.Return)]
            if len(rets) == 1 and rets[0].value is not None:
                env2 = ps.bind_args(callee, e, ref, env, 2, frozenset())
                return _fs_test(ps, callee, rets[0].value, env2, depth - 1)
    return None


class _InlinedRef(FuncRef):
    """A FuncRef whose body is the normal form built by _inline_helpers (locals of the inlined helpers included)."""

    @property
    def node(self) -> T.Any:
        return self.__dict__['synth']


class _Rename(ast.NodeTransformer):
    def __init__(self, names: T.Dict[str, str], subst: T.Dict[str, ast.AST]):
        self.names, self.subst = names, subst

    def visit_Name(self, n: ast.Name) -> ast.AST:
        if n.id in self.subst and isinstance(n.ctx, ast.Load):
            import copy
            return ast.copy_location(copy.deepcopy(self.subst[n.id]), n)
        if n.id in self.names:
            return ast.copy_location(ast.Name(id=self.names[n.id], ctx=n.ctx), n)
        return n

    def visit_alias(self, a: ast.alias) -> ast.AST:
        bound = a.asname or a.name.split('.')[0]
        if bound in self.names:
            return ast.alias(name=a.name, asname=self.names[bound])
        return a

    def visit_ExceptHandler(self, h: ast.ExceptHandler) -> ast.AST:
        self.generic_visit(h)
        if h.name in self.names:
            h.name = self.names[h.name]
        return h


def _bind_call(callee: FuncRef, call: ast.Call, caller_cls: T.Optional[ast.ClassDef]) -> T.Optional[T.Dict[str, ast.AST]]:
    """Parameter -> argument expression of a call to a repository function (defaults filled in); None when not spelled out."""
    fn = callee.node
    if fn.args.vararg or fn.args.kwarg or any(isinstance(a, ast.Starred) for a in call.args) or any(k.arg is None for k in call.keywords):
        return None
    params = [a.arg for a in fn.args.posonlyargs + fn.args.args]
    out: T.Dict[str, ast.AST] = {}
    decos = set(decorator_names_of(fn))
    f = call.func
    in_class = '.' in callee.qn and callee.mod.has_cls(callee.qn.rsplit('.', 1)[0])
    if in_class and 'staticmethod' not in decos and params:
        recv = f.value if isinstance(f, ast.Attribute) else None
        if isinstance(recv, ast.Name) and recv.id in ('self', 'cls'):
            out[params[0]] = recv
            params = params[1:]
        elif isinstance(recv, ast.Call) and call_name(recv) == 'super' or recv is None:
            return None
        # Class.m(obj, ...): the receiver is the first positional argument
    if len(call.args) > len(params):
        return None
    for prm, a in zip(params, call.args):
        out[prm] = a
    for k in call.keywords:
        if k.arg in out or k.arg not in params + [a.arg for a in fn.args.kwonlyargs]:
            return None
        out[k.arg] = k.value     # type: ignore[index]
    pos = fn.args.posonlyargs + fn.args.args
    for a, d in zip(pos[len(pos) - len(fn.args.defaults):], fn.args.defaults):
        out.setdefault(a.arg, d)
    for a, d in zip(fn.args.kwonlyargs, fn.args.kw_defaults):
        if d is not None:
            out.setdefault(a.arg, d)
    if any(a.arg not in out for a in pos + fn.args.kwonlyargs):
        return None
    return out


def decorator_names_of(fn: ast.AST) -> T.List[str]:
    return [(attr_chain(d.func if isinstance(d, ast.Call) else d) or '').split('.')[-1] for d in getattr(fn, 'decorator_list', [])]


def _without_returns(stmts: T.List[ast.stmt]) -> T.Optional[T.List[ast.stmt]]:
    """The body of a helper called for effect, with its early `return`s turned into if/else structure
    (`if c: return` + rest  ==  `if c: pass` / `else: rest`); None when a return sits in a loop/try/with or carries a computed value."""
    import copy
    for i, st in enumerate(stmts):
        if isinstance(st, ast.Return):
            if st.value is not None and not isinstance(st.value, ast.Constant):
                return None
            return list(stmts[:i])
        if not any(isinstance(n, ast.Return) for n in walk_no_nested(st)):
            continue
        if not isinstance(st, ast.If):
            return None
        rest = list(stmts[i + 1:])
        yes = _without_returns(list(st.body) + rest)
        no = _without_returns(list(st.orelse) + rest)
        if yes is None or no is None:
            return None
        new = copy.copy(st)
        new.body = yes or [ast.copy_location(ast.Pass(), st)]
        new.orelse = no
        return list(stmts[:i]) + [new]
    return list(stmts)


def _inline_helpers(ps: PathSym, ref: FuncRef, body: T.List[ast.stmt], depth: int = 2, stack: T.Tuple[str, ...] = (),
                    counter: T.Optional[T.List[int]] = None, notes: T.Optional[T.List[str]] = None, strict: bool = True,
                    only: T.Optional[T.Callable[[FuncRef], bool]] = None) -> T.List[ast.stmt]:
    """Normal form for E1/E5 (a block moved into a helper of the same module): a statement `helper(...)` whose helper has no
    `return` (or only early `return`s in if-structure, which are rewritten to if/else), and a statement `return helper(...)`, are replaced by the helper's body (parameters replaced by the argument
    expressions, helper locals renamed apart).  A statement-level helper that both returns early and raises cannot be spliced
    textually (a return inside a loop/try, a computed return value): Undecided.  Calls inside expressions are left alone (value helpers are read where their value is tested)."""
    import copy
    counter = [0] if counter is None else counter
    notes = [] if notes is None else notes
    cls = ps._class_of(ref)
    out: T.List[ast.stmt] = []
    for st in body:
        call: T.Optional[ast.Call] = None
        if isinstance(st, ast.Expr) and isinstance(st.value, ast.Call):
            call = st.value
        elif isinstance(st, ast.Return) and isinstance(st.value, ast.Call):
            call = st.value
        callee = ps.resolve_callee(ref, call) if call is not None else None
        if callee is not None and callee.mod.rel == ref.mod.rel and isinstance(callee.node, ast.FunctionDef) and (only is None or only(callee)):
            h = callee.node
            inner = list(walk_no_nested(h))
            has_ret = any(isinstance(n, ast.Return) for n in inner)
            has_raise = any(isinstance(n, ast.Raise) for n in inner) or any(
                isinstance(n, ast.Call) and (call_name(n) or '') in ('sys.exit', 'exit', 'os._exit') for n in inner)
            odd = any(isinstance(n, (ast.Yield, ast.YieldFrom, ast.Await, ast.Global, ast.Nonlocal)) for n in inner) or \
                any(isinstance(n, (ast.FunctionDef, ast.AsyncFunctionDef, ast.ClassDef)) for b in h.body for n in ast.walk(b))
            binding = _bind_call(callee, call, cls) if call is not None else None
            key = repr(callee)
            hbody: T.Optional[T.List[ast.stmt]] = list(h.body)
            if has_ret and isinstance(st, ast.Expr):
                hbody = _without_returns(hbody)          # type: ignore[arg-type]
            splice = not odd and binding is not None and depth > 0 and key not in stack and hbody is not None
            if not splice:
                if has_raise and isinstance(st, ast.Expr) and strict:
                    raise Undecided(f'{ref.qn}: the statement `{short(st)}` calls a helper that can raise but cannot be inlined '
                                    f'({"recursion/depth" if key in stack or depth <= 0 else "early returns, nested definitions or an unreadable argument list"})')
                out.append(st)
                continue
            counter[0] += 1
            pre = f'_h{counter[0]}_'
            stored = {n.id for n in inner if isinstance(n, ast.Name) and isinstance(n.ctx, (ast.Store, ast.Del))}
            for n in inner:
                if isinstance(n, (ast.Import, ast.ImportFrom)):
                    stored |= {a.asname or a.name.split('.')[0] for a in n.names}
                elif isinstance(n, ast.ExceptHandler) and n.name:
                    stored.add(n.name)
            prologue: T.List[ast.stmt] = []
            subst: T.Dict[str, ast.AST] = {}
            names = {x: pre + x for x in stored}
            for prm, arg in binding.items():
                simple = isinstance(arg, ast.Constant) or attr_chain(arg) is not None
                if simple and prm not in stored:
                    subst[prm] = arg
                else:
                    names[prm] = pre + prm
                    prologue.append(ast.copy_location(ast.Assign(targets=[ast.Name(id=pre + prm, ctx=ast.Store())], value=copy.deepcopy(arg), lineno=st.lineno), st))
            rn = _Rename(names, subst)
            spliced = [rn.visit(copy.deepcopy(b)) for b in (hbody or [])
                       if not (isinstance(b, ast.Expr) and isinstance(b.value, ast.Constant) and isinstance(b.value.value, str))]
            spliced = _inline_helpers(ps, callee, spliced, depth - 1, stack + (key,), counter, notes, strict, only)
            notes.append(f'{short(st)} -> body of {callee.qn}')
            out += prologue + spliced
            if isinstance(st, ast.Return):
                out.append(ast.copy_location(ast.Return(value=ast.Constant(value=None)), st))
            continue
        new = st
        for field in ('body', 'orelse', 'finalbody'):
            sub = getattr(st, field, None)
            if isinstance(sub, list) and sub and isinstance(sub[0], ast.stmt):
                if new is st:
                    new = copy.copy(st)
                setattr(new, field, _inline_helpers(ps, ref, sub, depth, stack, counter, notes, strict, only))
        if getattr(st, 'handlers', None):
            if new is st:
                new = copy.copy(st)
            hs = []
            for hd in st.handlers:
                h2 = copy.copy(hd)
                h2.body = _inline_helpers(ps, ref, hd.body, depth, stack, counter, notes, strict, only)
                hs.append(h2)
            new.handlers = hs          # type: ignore[attr-defined]
        out.append(new)
    return out


def _normal_form(ps: PathSym, mod: Module, qn: str, strict: bool = True,
                 only: T.Optional[T.Callable[[FuncRef], bool]] = None) -> T.Tuple[FuncRef, T.Any, T.List[str]]:
    """(ref, function, notes): the function with its statement-level helpers of the same module spliced in (E1/E5 normal form);
    ref.node is that function, so PathSym reads the locals of the spliced helpers too."""
    import copy
    fn0 = mod.func(qn)
    notes: T.List[str] = []
    fn = copy.copy(fn0)
    base = FuncRef(mod, qn)
    fn.body = _inline_helpers(ps, base, fn0.body, stack=(repr(base),), notes=notes, strict=strict, only=only)
    ref: FuncRef = _InlinedRef(mod, qn)
    ref.__dict__['synth'] = fn
    return ref, fn, notes


def _eliminate_classifiers(ps: PathSym, ref: FuncRef, fn: T.Any, notes: T.List[str]) -> T.Any:
    """Normal form for `state = Cls.classify(args)` + tests `state is Cls.MEMBER`: when the classifier is a repository function made
    of local assignments, ifs and `return <Cls>.MEMBER` only, every test of the local against a member is replaced by the
    disjunction of the classifier's path conditions that return that member (its locals and parameters substituted), so the
    decision table is read over the original file-system atoms.  Anything else is left as it is (and ends Undecided later)."""
    import copy
    fn = copy.deepcopy(fn)
    synth = _InlinedRef(ref.mod, ref.qn)
    synth.__dict__['synth'] = fn
    for st in list(walk_no_nested(fn)):
        if not (isinstance(st, ast.Assign) and len(st.targets) == 1 and isinstance(st.targets[0], ast.Name) and isinstance(st.value, ast.Call)):
            continue
        name = st.targets[0].id
        if len(ps.local_defs(fn).get(name, [])) != 1 or name in P.params_of(fn):
            continue
        clf = ps.resolve_callee(synth, st.value)
        if clf is None and isinstance(st.value.func, ast.Attribute):       # Cls.classify(...)
            rc = ps.resolve_class(ref.mod, attr_chain(st.value.func.value) or '')
            if rc is not None:
                clf = ps._method(rc[0], rc[1], st.value.func.attr)
        if clf is None or '.' not in clf.qn:
            continue
        owner = clf.qn.rsplit('.', 1)[0]
        cnode = clf.node
        if not all(isinstance(x, (ast.Assign, ast.If, ast.Return)) or (isinstance(x, ast.Expr) and isinstance(x.value, ast.Constant))
                   for x in walk_no_nested(cnode) if isinstance(x, ast.stmt) and x is not cnode):
            continue
        bind = _bind_call(clf, st.value, None)
        if bind is None:
            # Cls.classify(args): the receiver is the class itself
            f = st.value.func
            params = [a.arg for a in cnode.args.posonlyargs + cnode.args.args]
            if 'classmethod' in decorator_names_of(cnode) and isinstance(f, ast.Attribute) and params and len(st.value.args) == len(params) - 1 and not st.value.keywords:
                bind = dict(zip(params[1:], st.value.args))
                bind[params[0]] = f.value
            else:
                continue
        # every use of the local is a comparison with a member of the owner class
        uses = [n for n in ast.walk(fn) if isinstance(n, ast.Name) and n.id == name and isinstance(n.ctx, ast.Load)]
        cmps = [n for n in ast.walk(fn) if isinstance(n, ast.Compare) and isinstance(n.left, ast.Name) and n.left.id == name and len(n.ops) == 1
                and isinstance(n.ops[0], (ast.Is, ast.IsNot, ast.Eq, ast.NotEq)) and (attr_chain(n.comparators[0]) or '').split('.')[-2:-1] == [owner.rsplit('.', 1)[-1]]]
        if not uses or len(uses) != len(cmps):
            continue
        # substitution for the classifier's names: parameters -> arguments, single-definition locals -> their (substituted) values
        subst: T.Dict[str, ast.AST] = dict(bind)
        cdefs = ps.local_defs(cnode)
        ok = True
        for x in walk_no_nested(cnode):
            if isinstance(x, ast.Assign):
                if not (len(x.targets) == 1 and isinstance(x.targets[0], ast.Name) and len(cdefs.get(x.targets[0].id, [])) == 1 and x.targets[0].id not in bind):
                    ok = False
                    break
                subst[x.targets[0].id] = _Rename({}, dict(subst)).visit(copy.deepcopy(x.value))
        if not ok:
            continue
        by_member: T.Dict[str, T.List[ast.AST]] = {}
        for p in enumerate_paths(cnode.body, pure={'exists', 'isdir', 'isfile', 'join', 'listdir'}):
            if p.outcome != 'return' or p.value is None:
                ok = False
                break
            base_lits: T.List[ast.AST] = []
            for ev in p.events:
                if ev.kind == 'cond':
                    e = _Rename({}, subst).visit(copy.deepcopy(ev.node))
                    base_lits.append(e if ev.val else ast.UnaryOp(op=ast.Not(), operand=e))
            # `return A if c else B`: one alternative per arm
            todo: T.List[T.Tuple[ast.AST, T.List[ast.AST]]] = [(p.value, base_lits)]
            while todo:
                v, lits = todo.pop()
                if isinstance(v, ast.IfExp):
                    t = _Rename({}, subst).visit(copy.deepcopy(v.test))
                    todo.append((v.body, lits + [t]))
                    todo.append((v.orelse, lits + [ast.UnaryOp(op=ast.Not(), operand=copy.deepcopy(t))]))
                    continue
                chain = attr_chain(v)
                if chain is None or chain.split('.')[0] not in ('cls', owner.rsplit('.', 1)[-1]) or len(chain.split('.')) != 2:
                    ok = False
                    break
                by_member.setdefault(chain.split('.')[1], []).append(lits[0] if len(lits) == 1 else ast.BoolOp(op=ast.And(), values=list(lits)) if lits else ast.Constant(value=True))
            if not ok:
                break
        if not ok:
            continue
        repl: T.Dict[int, ast.AST] = {}
        for c in cmps:
            alts = by_member.get((attr_chain(c.comparators[0]) or '').split('.')[-1], [])
            e2: ast.AST = ast.Constant(value=False) if not alts else alts[0] if len(alts) == 1 else ast.BoolOp(op=ast.Or(), values=[copy.deepcopy(a) for a in alts])
            if isinstance(c.ops[0], (ast.IsNot, ast.NotEq)):
                e2 = ast.UnaryOp(op=ast.Not(), operand=e2)
            repl[id(c)] = e2

        class _Sub(ast.NodeTransformer):
            def visit_Compare(self, n: ast.Compare) -> ast.AST:
                if id(n) in repl:
                    return ast.copy_location(copy.deepcopy(repl[id(n)]), n)
                return self.generic_visit(n)

            def visit_Assign(self, n: ast.Assign) -> ast.AST:
                return ast.copy_location(ast.Pass(), n) if n is st else n
        fn = ast.fix_missing_locations(_Sub().visit(fn))
        synth.__dict__['synth'] = fn
        notes.append(f'`{name} = {short(st.value)}` eliminated: tests of `{name}` against {owner} members replaced by the path conditions of {clf.qn} '
                     f'({", ".join(f"{m}: {len(v)} path(s)" for m, v in sorted(by_member.items()))})')
    return fn


def r3(ctx: RuleCtx) -> None:
    mod = ctx.repo.module(MSETUP)
    qn = 'MesonApp.validate_dirs'
    mod.func(qn)
    ps = PathSym(ctx.repo)
    ref, fn, inlined = _normal_form(ps, mod, qn)       # E1/E5 normal form: statement-level helpers spliced in
    fn = _eliminate_classifiers(ps, ref, fn, inlined)  # `state = Cls.of(dir)` + `state is Cls.M`: read over the classifier's own atoms
    ref.__dict__['synth'] = fn
    pure = {'exists', 'isdir', 'isfile', 'join', 'listdir', 'Path', 'is_dir', 'is_file', 'iterdir', 'any', 'list'}
    tab = tables.extract(fn, pure=pure, name=qn)
    if inlined:
        ctx.note(f'{qn}: read with these helper statements inlined: {"; ".join(inlined)}')

    def classify(a: Atom) -> T.Optional[T.Tuple[str, bool]]:
        """(reference variable, atom is its negation)"""
        if a.kind == 'in':
            l, r = a.args
            if l.startswith('Path(') and r.startswith('Path(') and r.endswith('.parents'):
                return 'parent', False
            return None
        text = None
        neg = False
        if a.kind == 'truth':
            text = a.args[0]
        elif a.kind == 'cmp' and a.args[0] == 'eq' and a.args[2] == '0' and a.args[1].startswith('len('):
            text, neg = a.args[1][4:-1], True            # len(X) == 0
        elif a.kind == 'cmp' and a.args[0] == 'lt' and a.args[1] == '0' and a.args[2].startswith('len('):
            text = a.args[2][4:-1]                       # 0 < len(X)
        elif a.kind in ('is', 'cmp') and a.args[-1] in ('True', 'False') and (a.kind == 'is' or a.args[0] == 'eq'):
            text, neg = a.args[-2], a.args[-1] == 'False'
        if text is None:
            return None
        try:
            e = ast.parse(text, mode='eval').body
        except SyntaxError:
            return None
        c = attr_chain(e)
        if c is not None and c.startswith('self.options.') and c.split('.')[-1] in ('reconfigure', 'wipe', 'cmd_line_options'):
            return c.split('.')[-1], neg
        k = _fs_test(ps, ref, e, {})
        return (k, neg) if k else None

    sem: T.Dict[Atom, T.Tuple[str, bool]] = {}
    for a in tab.atoms():
        k = classify(a)
        if k is None:
            raise Undecided(f'{qn}: atom `{a!r}` is outside the reference vocabulary')
        sem[a] = k
    names = {k for k, _ in sem.values()}
    # a reference variable the code never tests is enumerated all the same: the code then gives one answer for both of
    # its values and the comparison shows for which of them that answer is wrong
    missing = [k for k in ('valid', 'partial', 'wipe', 'reconfigure') if k not in names]
    if 'valid' in missing:
        raise Undecided(f'{qn}: no test recognised as "coredata.dat exists" (atoms: {sorted(names)})')

    def ref_outcome(v: T.Dict[str, bool]) -> str:
        if v.get('parent'):
            return 'raise MesonException'
        if 'nonempty' in v and not v['nonempty']:
            return 'return'
        # build.dat is written after coredata.dat: where the code tests it too, coredata.dat alone is an interrupted setup (a partial build)
        if v['valid'] and v.get('build-data', True):
            return 'return' if (v['reconfigure'] or v['wipe']) else 'raise SystemExit'
        if not v['partial'] and v['wipe']:
            return 'raise MesonException'
        return 'return'        # partial build (meson-private without coredata.dat) or a foreign non-empty directory: accepted

    n = 0
    bad: T.Dict[str, T.Tuple[tables.Row, str, str, T.Dict[str, bool]]] = {}
    import itertools
    for w, extra in itertools.product(list(tab.worlds()), list(itertools.product((False, True), repeat=len(missing)))):
        v: T.Dict[str, bool] = {}
        consistent = True
        for a, x in w.items():
            name, neg = sem[a]
            val = (not x) if neg else x
            if v.get(name, val) != val:
                consistent = False
            v[name] = val
        if not consistent:
            continue
        v.update(dict(zip(missing, extra)))
        # the file system: coredata.dat lives inside meson-private; a path is a file or a directory, not both
        if (v.get('valid') or v.get('build-data')) and not v.get('partial'):
            continue
        if (v.get('private-is-a-file') and v.get('partial')) or (v.get('coredata-is-a-directory') and v.get('valid')):
            continue
        if v.get('private-is-a-file') or v.get('coredata-is-a-directory'):
            continue       # outside the reference (a damaged layout the property does not speak about)
        if (v.get('valid') or v.get('partial') or v.get('build-data')) and v.get('nonempty') is False:
            continue
        rows = tab.fire(w)
        if len(rows) != 1:
            raise Undecided(f'{qn}: {len(rows)} rows fire in world {v}')
        r = rows[0]
        got = 'return' if r.outcome[0] == 'return' else ' '.join(str(x) for x in r.outcome)
        if any((call_name(c) or '') in ('sys.exit', 'exit', 'os._exit') for c in r.path.calls()):
            got = 'raise SystemExit'
        want = ref_outcome(v)
        n += 1
        if got != want:
            bad.setdefault(repr(r), (r, got, want, v))
    for key, (r, got, want, v) in bad.items():
        node = r.path.events[-1].node if r.path.events else fn
        ctx.violation(mod, qn, key, f'row `{key}` gives `{got}`; the reference (partial build directories are accepted; --wipe is refused only '
                      f'without meson-private) requires `{want}`, e.g. for {v}', node)
    if not bad:
        ctx.ok(f'{qn}: {len(tab.rows)} rows agree with the reference on {n} worlds (meson-private without coredata.dat is accepted)')
    ctx.floor('rows of validate_dirs', len(tab.rows), 4)
    ctx.note(f'{qn}: table {tab.dump()}')


# ---------------------------------------------------------------------------
# R4

LOCK_PRIMS = {'fcntl.flock': ('LOCK_EX',), 'fcntl.lockf': ('LOCK_EX',), 'msvcrt.locking': ('LK_LOCK', 'LK_NBLCK')}
UNLOCK_FLAGS = ('LOCK_UN', 'LK_UNLCK')


STATE_WRITER_NAMES = {'dump_coredata', 'write_cmd_line_file', 'update_cmd_line_file'}    # public API that publishes recovery-critical state


def r4_generate(ctx: RuleCtx) -> None:
    """Every call in msetup that publishes recovery-critical state runs while the DirectoryLock is held: lexically inside
    `with DirectoryLock(...)`, or in a function all of whose call sites are (two levels)."""
    mod = ctx.repo.module(MSETUP)
    ps = PathSym(ctx.repo)
    cfgs: T.Dict[str, CFG] = {}

    def cfg_of(ref: FuncRef) -> CFG:
        if ref.qn not in cfgs:
            cfgs[ref.qn] = CFG(ref.node)
        return cfgs[ref.qn]

    def is_lock(ref: FuncRef, e: ast.AST, depth: int = 2) -> bool:
        if isinstance(e, ast.Name):      # lock = DirectoryLock(...); with lock:
            d = ps.local_defs(ref.node).get(e.id, [])
            return len(d) == 1 and d[0] is not None and is_lock(ref, d[0], depth)
        if not isinstance(e, ast.Call):
            return False
        if (call_method(e) or '') == 'DirectoryLock':
            return True
        rc = ps.resolve_class(ref.mod, attr_chain(e.func) or '')
        if rc is not None:              # a subclass of DirectoryLock that keeps its __enter__
            chain = ps.mro(rc[0], rc[1])
            names = [c.name for m, c in chain]
            if 'DirectoryLock' in names:
                own = [c.name for m, c in chain[:names.index('DirectoryLock')] if any(isinstance(st, ast.FunctionDef) and st.name == '__enter__' for st in c.body)]
                return not own
            return False
        if depth > 0:
            callee = ps.resolve_callee(ref, e)
            if callee is not None:
                rets = [n for n in walk_no_nested(callee.node) if isinstance(n, ast.Return) and n.value is not None]
                return len(rets) == 1 and is_lock(callee, rets[0].value, depth - 1)
        return False

    def not_a_lock(ref: FuncRef, e: ast.AST) -> bool:
        """Closed-world reading of a with-item: an instance of a repository class every base of which is read, that is not (a
        subclass of) DirectoryLock and whose __init__/__enter__ enter no other context manager - it cannot be the lock."""
        if isinstance(e, ast.Name):
            d = ps.local_defs(ref.node).get(e.id, [])
            return len(d) == 1 and d[0] is not None and not isinstance(d[0], ast.Name) and not_a_lock(ref, d[0])
        if not isinstance(e, ast.Call):
            return False
        rc = ps.resolve_class(ref.mod, attr_chain(e.func) or '')
        if rc is None:
            return False
        for m, c in ps.mro(rc[0], rc[1]):
            if 'Lock' in c.name:
                return False
            for b in c.bases:
                n = attr_chain(b.value if isinstance(b, ast.Subscript) else b)
                if n is None or (n.split('.')[-1] not in ('object', 'Generic', 'Protocol') and ps.resolve_class(m, n) is None):
                    return False        # a base class that is not read (contextlib.ExitStack, ...) may take the lock
            for st in c.body:
                if isinstance(st, (ast.FunctionDef, ast.AsyncFunctionDef)) and st.name in ('__init__', '__enter__', '__new__'):
                    for x in walk_no_nested(st):
                        if isinstance(x, (ast.With, ast.AsyncWith)):
                            return False
                        if isinstance(x, ast.Call) and ((call_method(x) or '') in ('enter_context', '__enter__', 'callback', 'DirectoryLock') or 'Lock' in (call_name(x) or '')):
                            return False
        return True

    def held(ref: FuncRef, node: ast.AST, depth: int) -> T.Optional[bool]:
        fn = ref.node
        cfg = cfg_of(ref)
        odd = False
        for w in walk_no_nested(fn):
            if isinstance(w, (ast.With, ast.AsyncWith)) and any(x is node for st in w.body for x in ast.walk(st)):
                if any(is_lock(ref, i.context_expr) for i in w.items):
                    enters = [n for n in cfg.nodes if n.kind == 'with_enter' and n.ast is w]
                    at = cfg.node_containing(node)
                    if at and all(cfg.dominated_by_any(n, enters) for n in at):
                        return True
                elif not all((isinstance(i.context_expr, ast.Call) and call_name(i.context_expr) in OPEN_FUNCS) or not_a_lock(ref, i.context_expr) for i in w.items):
                    odd = True
        if any(isinstance(c, ast.Call) and call_method(c) in ('enter_context', '__enter__', 'callback') for c in walk_no_nested(fn)):
            odd = True
        if odd:
            return None         # some context manager the rule does not understand may be the lock
        if depth <= 0:
            return False        # two levels of callers without a lock: evidence enough
        # all call sites of this function inside the module
        bare = ref.qn.rsplit('.', 1)[-1]
        verdicts: T.List[T.Optional[bool]] = []
        for qn2, fn2 in mod.funcs().items():
            ref2 = FuncRef(mod, qn2)
            for c in walk_no_nested(fn2):
                if not (isinstance(c, ast.Call) and call_method(c) == bare):
                    continue
                r = ps.resolve_callee(ref2, c)
                if r is None and isinstance(c.func, ast.Attribute) and isinstance(c.func.value, ast.Name):
                    d = ps.local_defs(fn2).get(c.func.value.id, [])     # app = MesonApp(options); app.generate()
                    if len(d) == 1 and isinstance(d[0], ast.Call):
                        rc = ps.resolve_class(mod, attr_chain(d[0].func) or '')
                        if rc is not None:
                            r = ps._method(rc[0], rc[1], bare)
                if r is None:
                    verdicts.append(None)
                elif r.mod.rel == ref.mod.rel and r.qn == ref.qn:
                    verdicts.append(held(ref2, c, depth - 1))
        if any(v is False for v in verdicts):
            return False
        if not verdicts:
            return False        # an entry point that publishes state without taking the lock
        if any(v is None for v in verdicts):
            return None
        return True

    sites = 0
    for qn, fn in mod.funcs().items():
        ref = FuncRef(mod, qn)
        for c in walk_no_nested(fn):
            if not isinstance(c, ast.Call):
                continue
            r = ps.resolve_callee(ref, c)
            is_writer = (call_method(c) in STATE_WRITER_NAMES) if r is None else \
                ((r.mod.rel, r.qn) in ((ENVIRONMENT, 'Environment.dump_coredata'), (COREDATA, 'save'), (CMDLINE, 'write_cmd_line_file'), (CMDLINE, 'update_cmd_line_file')))
            if not is_writer:
                continue
            sites += 1
            v = held(ref, c, 2)
            if v is None:
                raise Undecided(f'{MSETUP}:{qn}: cannot decide whether `{short(c)}` runs under the DirectoryLock (context manager or caller not understood)')
            ctx.require(v, f'{MSETUP}:{qn}: `{short(c)}` runs while `with DirectoryLock(...)` is held (here or at every call site of {qn})',
                        mod, qn, c, f'`{short(c)}` publishes recovery-critical state but is not covered by a `with DirectoryLock(...)` block, neither here nor at the '
                        f'call sites of {qn}: two meson processes can interleave their writes', c)
    ctx.floor('calls that publish recovery-critical state in msetup', sites, 1)


UNKNOWN_FLAG = '?'      # marker inside an alternative: some part of the flag expression was not read
FLAG_MODULES = ('fcntl', 'msvcrt')
Alt = T.FrozenSet[str]


def _branch_path(mod: Module, node: ast.AST) -> T.Tuple[T.Tuple[int, str], ...]:
    """The module-level if/try arms that enclose node (the platform switch of utils/platform.py), outermost first."""
    pm = mod.parent_map()
    out: T.List[T.Tuple[int, str]] = []
    child, cur = node, pm.get(node)
    while cur is not None:
        for arm in ('body', 'orelse', 'finalbody'):
            if isinstance(cur, (ast.If, ast.Try)) and any(child is st for st in getattr(cur, arm, [])):
                out.append((id(cur), arm))
        child, cur = cur, pm.get(cur)
    return tuple(reversed(out))


def _static_defs(ps: PathSym, mod: Module, cls: T.Optional[ast.ClassDef], e: ast.AST) -> T.Optional[T.Tuple[str, T.List[ast.AST]]]:
    """Definitions of a class-level / module-level constant named by `e` (`self.X`, `cls.X`, `type(self).X`, `Class.X`, bare
    `X`): (key, value expressions).  Class constants are looked up along the MRO; a module constant defined in several arms
    of a module-level `if` is taken from the arm(s) the class lives in."""
    name: T.Optional[str] = None
    via_class = False
    if isinstance(e, ast.Name):
        name = e.id
    elif isinstance(e, ast.Attribute):
        v = e.value
        if isinstance(v, ast.Name) and (v.id in ('self', 'cls') or (cls is not None and v.id == cls.name)):
            name, via_class = e.attr, True
        elif isinstance(v, ast.Call) and call_name(v) == 'type' and len(v.args) == 1 and isinstance(v.args[0], ast.Name) and v.args[0].id == 'self':
            name, via_class = e.attr, True
        elif isinstance(v, ast.Attribute) and v.attr == '__class__' and isinstance(v.value, ast.Name) and v.value.id == 'self':
            name, via_class = e.attr, True
    if name is None:
        return None

    def assigned(body: T.List[ast.stmt], deep: bool) -> T.List[T.Tuple[ast.stmt, ast.AST]]:
        out: T.List[T.Tuple[ast.stmt, ast.AST]] = []
        for st in body:
            if isinstance(st, ast.Assign) and any(isinstance(t, ast.Name) and t.id == name for t in st.targets):
                out.append((st, st.value))
            elif isinstance(st, ast.AnnAssign) and st.value is not None and isinstance(st.target, ast.Name) and st.target.id == name:
                out.append((st, st.value))
            elif deep and isinstance(st, (ast.If, ast.Try)):
                for arm in ('body', 'orelse', 'finalbody'):
                    out += assigned(getattr(st, arm, []), True)
                for h in getattr(st, 'handlers', []):
                    out += assigned(h.body, True)
        return out

    if via_class and cls is not None:
        for m2, c2 in ps.mro(mod, cls):
            found = assigned(c2.body, True)
            if found:
                return f'{c2.name}.{name}', [v for _, v in found]
        return None
    if cls is not None and not via_class:
        found = assigned(cls.body, True)            # a name used inside the class body itself
        if found:
            return f'{cls.name}.{name}', [v for _, v in found]
    found = assigned(mod.tree.body, True)
    if not found:
        return None
    if cls is not None and len(found) > 1:
        here = _branch_path(mod, cls)
        near = [(st, v) for st, v in found if _branch_path(mod, st) == here[:len(_branch_path(mod, st))]]
        found = near or found
    return name, [v for _, v in found]


def _flag_alts(ps: PathSym, mod: Module, cls: T.Optional[ast.ClassDef], fn: T.Optional[ast.AST], e: ast.AST,
               resolver: T.Optional[T.Callable[[ast.Call], T.Optional[T.List[T.Tuple[ast.AST, ast.AST]]]]] = None,
               env: T.Optional[T.Dict[str, T.Set[Alt]]] = None, depth: int = 6) -> T.Set[Alt]:
    """The alternatives of a lock-flag expression: one set of flag names (attributes of fcntl/msvcrt or-ed together) per way the
    expression can be built - through locals (every definition is an alternative, `x = x | F` / `x |= F` extends the others),
    conditional expressions, helper returns, and constant lookup tables at class or module level (every value of the table is
    an alternative, whatever the key).  A part that was not read puts UNKNOWN_FLAG into the alternative."""
    env = {} if env is None else env
    unknown: T.Set[Alt] = {frozenset({UNKNOWN_FLAG})}
    if depth <= 0:
        return unknown

    def rec(x: ast.AST, fn2: T.Optional[ast.AST] = fn, env2: T.Optional[T.Dict[str, T.Set[Alt]]] = None) -> T.Set[Alt]:
        return _flag_alts(ps, mod, cls, fn2, x, resolver, env if env2 is None else env2, depth - 1)

    def union(xs: T.Iterable[ast.AST], fn2: T.Optional[ast.AST] = fn) -> T.Set[Alt]:
        out: T.Set[Alt] = set()
        for x in xs:
            out |= rec(x, fn2)
        return out or unknown

    def static(x: ast.AST) -> T.Optional[T.Set[Alt]]:
        sd = _static_defs(ps, mod, cls, x)
        if sd is None:
            return None
        key, vals = sd
        if 'static:' + key in env:
            return env['static:' + key]
        out: T.Set[Alt] = set()
        for v in vals:
            out |= _flag_alts(ps, mod, cls, None, v, resolver, {**env, 'static:' + key: unknown}, depth - 1)
        return out or unknown

    if isinstance(e, ast.Call) and (call_name(e) or '').split('.')[-1] == 'cast' and len(e.args) == 2:
        return rec(e.args[1])
    if isinstance(e, ast.Call) and call_name(e) == 'int' and len(e.args) == 1:
        return rec(e.args[0])
    if isinstance(e, ast.BinOp) and isinstance(e.op, ast.BitOr):
        return {a | b for a in rec(e.left) for b in rec(e.right)}
    if isinstance(e, ast.IfExp):
        return rec(e.body) | rec(e.orelse)
    if isinstance(e, ast.NamedExpr):
        return rec(e.value)
    if isinstance(e, ast.Constant):
        return {frozenset()} if e.value == 0 and not isinstance(e.value, bool) else unknown
    if isinstance(e, ast.Attribute):
        ch = attr_chain(e) or ''
        if ch.count('.') == 1 and ch.split('.')[0] in FLAG_MODULES:
            return {frozenset({e.attr})}
        return static(e) or unknown
    if isinstance(e, ast.Name):
        if e.id in env:
            return env[e.id]
        defs = ps.local_defs(fn).get(e.id, []) if fn is not None else []      # type: ignore[arg-type]
        if not defs:
            return static(e) or unknown
        selfref = [d for d in defs if d is not None and e.id in {n.id for n in ast.walk(d) if isinstance(n, ast.Name)}]
        plain = [d for d in defs if d is not None and not any(d is s for s in selfref)]
        cur: T.Set[Alt] = set(unknown) if any(d is None for d in defs) else set()
        for d in plain:
            cur |= rec(d, fn, {**env, e.id: unknown})
        for _ in range(3):                   # `x = x | F`: F extends every alternative found so far
            before = len(cur)
            for d in selfref:
                cur |= rec(d, fn, {**env, e.id: set(cur) or unknown})
            if len(cur) == before:
                break
        return cur or unknown
    if isinstance(e, ast.Subscript):
        return rec(e.value) if isinstance(e.value, (ast.Dict, ast.Tuple, ast.List, ast.Name, ast.Attribute)) else unknown
    if isinstance(e, ast.Dict):
        return union([v for v in e.values if v is not None]) if all(k is not None for k in e.keys) else unknown
    if isinstance(e, (ast.Tuple, ast.List)):
        return union(e.elts)
    if isinstance(e, ast.Call):
        if isinstance(e.func, ast.Attribute) and e.func.attr == 'get' and 1 <= len(e.args) <= 2 and not e.keywords:
            tab = rec(e.func.value)
            return tab | (rec(e.args[1]) if len(e.args) == 2 else unknown)
        rets = resolver(e) if resolver is not None else None
        if rets is None:
            return unknown
        out: T.Set[Alt] = set()
        for fn2, rv in rets:
            out |= _flag_alts(ps, mod, cls, fn2, rv, resolver, {k: v for k, v in env.items() if k.startswith('static:')}, depth - 1)
        return out or unknown
    return unknown


INERT_CALL_PREFIXES = ('mlog.', 'self.lockfile.', 'os.path.', 'os.fspath', 'T.cast')
INERT_CALLS = {'MesonException', 'str', 'int', 'bool', 'len', 'isinstance', 'repr', 'getattr', 'hasattr', 'print', 'super'}


class _LockImpl:
    """One DirectoryLock implementation: __enter__ and the self-methods it calls (through the MRO), analysed together."""

    def __init__(self, ps: PathSym, mod: Module, cq: str):
        self.ps, self.mod, self.cq = ps, mod, cq
        self.cls = mod.cls(cq)
        self.cfgs: T.Dict[str, CFG] = {}
        self.region: T.Dict[str, FuncRef] = {}
        self.unknown: T.List[str] = []          # calls the region analysis does not understand
        self.opaque_tests: T.List[str] = []     # conditions on helper results that could not be read
        self._prims: T.Dict[str, T.List[T.Tuple[Node, ast.Call]]] = {}
        self.bad_flags: T.List[T.Tuple[FuncRef, ast.Call, T.Set[str]]] = []
        self._acq: T.Dict[str, bool] = {}
        self._opt: T.Dict[str, T.Set[bool]] = {}
        root = ps._method(mod, self.cls, '__enter__')
        if root is None:
            raise Undecided(f'{cq}: no __enter__ in the class or its bases')
        self.root = root
        self._collect(root, 3)

    def key(self, r: FuncRef) -> str:
        return f'{r.mod.rel}:{r.qn}'

    def helper(self, c: ast.Call) -> T.Optional[FuncRef]:
        if isinstance(c.func, ast.Attribute) and isinstance(c.func.value, ast.Name) and c.func.value.id == 'self':
            return self.ps._method(self.mod, self.cls, c.func.attr)
        return None

    def _helper_returns(self, c: ast.Call) -> T.Optional[T.List[T.Tuple[ast.AST, ast.AST]]]:
        h = self.helper(c)
        if h is None:
            return None
        rets = [(h.node, n.value) for n in walk_no_nested(h.node) if isinstance(n, ast.Return) and n.value is not None]
        return rets or None

    def _collect(self, r: FuncRef, depth: int) -> None:
        if self.key(r) in self.region:
            return
        self.region[self.key(r)] = r
        self.cfgs[self.key(r)] = CFG(r.node)
        for c in walk_no_nested(r.node):
            if not isinstance(c, ast.Call):
                continue
            cn = call_name(c) or ''
            h = self.helper(c)
            if h is not None:
                if depth > 0:
                    self._collect(h, depth - 1)
                else:
                    self.unknown.append(f'{r.qn}: `{short(c)}` (helper nesting too deep)')
            elif cn in LOCK_PRIMS or cn in OPEN_FUNCS or cn in INERT_CALLS or cn.startswith(INERT_CALL_PREFIXES):
                pass
            else:
                self.unknown.append(f'{r.qn}: `{short(c)}`')

    # -- facts per function ------------------------------------------------------
    def prims(self, r: FuncRef) -> T.List[T.Tuple[Node, ast.Call]]:
        k = self.key(r)
        if k in self._prims:
            return self._prims[k]
        out: T.List[T.Tuple[Node, ast.Call]] = []
        cfg = self.cfgs[k]
        for n in cfg.nodes:
            e = n.expr()
            if e is None:
                continue
            for c in walk_no_nested(e):
                if isinstance(c, ast.Call) and call_name(c) in LOCK_PRIMS:
                    if not c.args or not any(ch == 'self.lockfile' or ch.startswith('self.lockfile.') for ch in chains_in(c.args[0])):
                        raise Undecided(f'{r.qn}: `{short(c)}` does not operate on self.lockfile')
                    prim = call_name(c) or ''
                    alts = _flag_alts(self.ps, self.mod, self.cls, r.node, c.args[1], self._helper_returns) if len(c.args) > 1 else {frozenset({UNKNOWN_FLAG})}
                    unl = [a for a in alts if a & set(UNLOCK_FLAGS)]
                    if unl:
                        if len(unl) != len(alts):
                            raise Undecided(f'{r.qn}: `{short(c)}` unlocks for some values of its flag expression and locks for others')
                        continue
                    bad = sorted((a for a in alts if not a & set(LOCK_PRIMS[prim])), key=sorted)
                    if bad:
                        read = [a for a in bad if UNKNOWN_FLAG not in a]
                        if not read:
                            raise Undecided(f'{r.qn}: the flags of `{short(c)}` are computed by something the rule does not follow')
                        self.bad_flags.append((r, c, set(read[0])))
                        continue
                    out.append((n, c))
        self._prims[k] = out
        return out

    def _optout(self, r: FuncRef, test: ast.AST, label: bool, seen: T.FrozenSet[str] = frozenset()) -> bool:
        """`test` evaluating to `label` implies that the caller asked not to insist on the lock (IGNORE / optional),
        or that a helper reported exactly that."""
        if isinstance(test, ast.UnaryOp) and isinstance(test.op, ast.Not):
            return self._optout(r, test.operand, not label, seen)
        if isinstance(test, ast.BoolOp):
            every = (isinstance(test.op, ast.And) and not label) or (isinstance(test.op, ast.Or) and label)
            vals = [self._optout(r, v, label, seen) for v in test.values]
            return all(vals) if every else any(vals)
        if isinstance(test, ast.Name) and test.id not in seen:
            d = self.ps.local_defs(r.node).get(test.id, [])
            if len(d) == 1 and d[0] is not None:
                return self._optout(r, d[0], label, seen | {test.id})
            return False
        if isinstance(test, ast.Compare) and len(test.ops) == 1:
            sides = [attr_chain(test.left) or '', attr_chain(test.comparators[0]) or '']
            if any(x.endswith('DirectoryLockAction.IGNORE') for x in sides) and any(x == 'self.action' for x in sides):
                if isinstance(test.ops[0], (ast.Eq, ast.Is)):
                    return label
                if isinstance(test.ops[0], (ast.NotEq, ast.IsNot)):
                    return not label
            return False
        if attr_chain(test) == 'self.optional':
            return label
        if isinstance(test, ast.Call):
            h = self.helper(test)
            if h is not None and self.key(h) not in seen:
                rets = [n for n in walk_no_nested(h.node) if isinstance(n, ast.Return)]
                body = [st for st in h.node.body if not (isinstance(st, ast.Expr) and isinstance(st.value, ast.Constant))]
                if len(rets) == 1 and len(body) == 1 and body[0] is rets[0] and rets[0].value is not None and not isinstance(rets[0].value, ast.Constant):
                    # a predicate method `return <condition>`: the call is that condition
                    return self._optout(h, rets[0].value, label, seen | {self.key(h)})
                if self.key(h) not in self.cfgs:
                    self.opaque_tests.append(f'{r.qn}: `{short(test)}`')
                    return False
                res = self.optout_returns(h)
                if not res and any(isinstance(n.value, ast.AST) and not isinstance(n.value, ast.Constant) for n in rets if n.value is not None):
                    self.opaque_tests.append(f'{r.qn}: `{short(test)}` (returns a computed value)')
                return label in res
            if h is None and isinstance(test.func, ast.Attribute) and isinstance(test.func.value, ast.Name) and test.func.value.id == 'self':
                self.opaque_tests.append(f'{r.qn}: `{short(test)}` (method not found)')
        return False

    def optout_edge(self, r: FuncRef, a: Node, lab: T.Any) -> bool:
        if a.kind != 'test' or lab not in (True, False):
            return False
        return self._optout(r, a.ast.test, lab)   # type: ignore[union-attr]

    def optout_returns(self, h: FuncRef) -> T.Set[bool]:
        """Truth values that helper h returns only behind an opt-out edge."""
        k = self.key(h)
        if k in self._opt:
            return self._opt[k]
        self._opt[k] = set()
        if k not in self.cfgs:
            return set()
        cfg = self.cfgs[k]
        reach = cfg.reachable([cfg.entry], edge_ok=lambda a, b, lab: not self.optout_edge(h, a, lab), include_start=True)
        normal: T.Set[bool] = set()
        all_vals: T.Set[bool] = set()
        for pid, lab in cfg.pred[cfg.exit_return.id]:
            n = cfg.nodes[pid]
            v: T.Optional[bool]
            if n.kind == 'stmt' and isinstance(n.ast, ast.Return):
                if n.ast.value is None:
                    v = False
                elif isinstance(n.ast.value, ast.Constant):
                    v = bool(n.ast.value.value)
                else:
                    v = None
            elif n.kind == 'with_exit':
                v = None
            else:
                v = False       # falling off the end returns None
            if v is None:
                self._opt[k] = set()
                return set()
            all_vals.add(v)
            if pid in reach:
                normal.add(v)
        self._opt[k] = all_vals - normal
        return self._opt[k]

    def acquire_nodes(self, r: FuncRef) -> T.List[Node]:
        cfg = self.cfgs[self.key(r)]
        out = [n for n, c in self.prims(r)]
        for n in cfg.nodes:
            e = n.expr()
            if e is None:
                continue
            for c in walk_no_nested(e):
                if isinstance(c, ast.Call):
                    h = self.helper(c)
                    if h is not None and self.key(h) != self.key(r) and self.acquires(h):
                        out.append(n)
        return out

    def unlocked_return(self, r: FuncRef) -> bool:
        cfg = self.cfgs[self.key(r)]
        reach = cfg.reachable([cfg.entry], avoid=self.acquire_nodes(r), edge_ok=lambda a, b, lab: not self.optout_edge(r, a, lab))
        return cfg.exit_return.id in reach

    def acquires(self, h: FuncRef) -> bool:
        """h takes the lock on every normal return that is not an opt-out."""
        k = self.key(h)
        if k in self._acq:
            return self._acq[k]
        self._acq[k] = False
        if k not in self.cfgs:
            return False
        res = bool(self.acquire_nodes(h)) and not self.unlocked_return(h)
        self._acq[k] = res
        return res


def r4_lock(ctx: RuleCtx) -> None:
    mod = ctx.repo.module(PLATFORM)
    ps = PathSym(ctx.repo)
    impls = [q for q, c in mod.classes().items() if any((attr_chain(b) or '').split('.')[-1] == 'DirectoryLockBase' for b in c.bases)]
    ctx.floor('DirectoryLock implementations', len(impls), 1)
    for cq in impls:
        li = _LockImpl(ps, mod, cq)
        root = li.root
        qn = root.qn
        label = cq
        members = sorted(r.qn for r in li.region.values())
        ctx.note(f'{cq}: analysed together: {", ".join(members)}')
        # the descriptor
        opens = [(r, n) for r in li.region.values() for n in walk_no_nested(r.node)
                 if isinstance(n, ast.Assign) and isinstance(n.value, ast.Call) and call_name(n.value) in OPEN_FUNCS
                 and any(attr_chain(t) == 'self.lockfile' for t in n.targets)]
        if not opens:
            raise Undecided(f'{qn}: no `self.lockfile = open(...)` in {members}')
        for r, o in opens:
            okm, mode = _mode_of(o.value, 1)  # type: ignore[arg-type]
            if not okm or mode is None:
                raise Undecided(f'{r.qn}: open mode of the lock file is not a constant')
            ctx.require('x' not in mode, f'{label}: lock file opened with mode {mode!r} in {r.qn} (its prior existence is irrelevant)', r.mod, r.qn, o.value,
                        f'the lock file is opened with mode {mode!r}: exclusive creation makes the *existence* of the file the lock, so a killed '
                        f'process leaves a stale lock behind', o)
        with_prims = [r for r in li.region.values() if li.prims(r)]
        for r, c, flags in li.bad_flags:
            ctx.violation(r.mod, r.qn, c, f'`{short(c)}` does not request an exclusive lock for every value of its flag expression (one alternative: {sorted(flags) or [0]})', c)
        if li.bad_flags:
            continue
        if not with_prims:
            if li.unknown:
                raise Undecided(f'{qn}: no kernel lock primitive found, but these calls were not followed: {li.unknown[:4]}')
            ctx.violation(mod, qn, root.node.name + ': no kernel lock', f'{label}.__enter__ (with {members}) never calls a kernel lock primitive '
                          f'({", ".join(sorted(LOCK_PRIMS))}) on self.lockfile: the lock is not tied to the life of the process', root.node)
            continue
        first = li.prims(with_prims[0])[0][1]
        # O1: every normal return of __enter__ has passed the primitive (directly or in a helper that guarantees it) or is the opt-out
        if li.unlocked_return(root):
            if li.opaque_tests:
                raise Undecided(f'{qn}: a return that does not pass `{short(first)}` exists behind conditions the rule could not read: {sorted(set(li.opaque_tests))[:3]}')
            if li.unknown:
                raise Undecided(f'{qn}: a return that does not pass `{short(first)}` exists, but these calls were not followed: {li.unknown[:4]}')
            ctx.violation(mod, qn, first, f'__enter__ can return without having called `{short(first)}` and without the IGNORE/optional opt-out: the caller '
                          f'proceeds unlocked', root.node)
        else:
            ctx.ok(f'{label}.__enter__: every normal return passes `{short(first)}` (or is the IGNORE/optional opt-out)')
        for r in with_prims:
            cfg = li.cfgs[li.key(r)]
            prim_nodes = [n for n, c in li.prims(r)]
            handlers = [cfg.nodes[b] for n in prim_nodes for b, lab in cfg.succ[n.id] if lab == 'exc' and cfg.nodes[b].kind == 'handler']
            if not handlers:
                raise Undecided(f'{r.qn}: the lock primitive is not inside a try')
            # O2: when the primitive raises, only IGNORE may continue
            reach_h = cfg.reachable(handlers, edge_ok=lambda a, b, lab, r=r: not li.optout_edge(r, a, lab))
            if cfg.exit_return.id in reach_h:
                if li.opaque_tests:
                    raise Undecided(f'{r.qn}: a handler of the lock primitive returns behind conditions the rule could not read: {sorted(set(li.opaque_tests))[:3]}')
                if r.qn != root.qn:
                    raise Undecided(f'{r.qn}: a handler of the lock primitive returns to its caller; what the caller does with that is not followed')
                ctx.violation(r.mod, r.qn, handlers[0].ast, 'a handler of the lock primitive returns normally without the IGNORE test: contention is silently ignored', handlers[0].ast)
            else:
                ctx.ok(f'{label}: in {r.qn} a failed `{short(first)}` never returns normally except under IGNORE')
            # O3: "somebody else holds the lock" is decided by the kernel only
            errs = [n for n in cfg.nodes if n.kind == 'stmt' and isinstance(n.ast, ast.Raise) and n.ast.exc is not None
                    and any(ch == 'self.err' for ch in chains_in(n.ast.exc))]
            for en in errs:
                ctx.require(not cfg.can_reach(cfg.entry, en, avoid=handlers), f'{label}: in {r.qn} `{short(en.ast)}` is reachable only through a failure of the kernel primitive',
                            r.mod, r.qn, en.ast, f'`{short(en.ast)}` ("already in use") is reachable without the kernel primitive having failed: a leftover lock *file* '
                            f'of a killed process would block every later run', en.ast)
        for r in li.region.values():
            if r in with_prims:
                continue
            cfg = li.cfgs[li.key(r)]
            errs = [n for n in cfg.nodes if n.kind == 'stmt' and isinstance(n.ast, ast.Raise) and n.ast.exc is not None
                    and any(ch == 'self.err' for ch in chains_in(n.ast.exc))]
            if errs:
                raise Undecided(f'{r.qn}: raises the "already in use" error outside the function that calls the kernel primitive; the connection is not followed')


# ---------------------------------------------------------------------------
# R5

def _obj_id(ps: PathSym, fn: ast.AST, e: ast.AST, seen: T.FrozenSet[str] = frozenset()) -> T.Optional[str]:
    """Identity of the object an argument expression denotes: a local allocated once, or an attribute chain; None when the
    expression is not a plain reference (a call that builds something, a conditional ...)."""
    if isinstance(e, ast.Call) and (call_name(e) or '').split('.')[-1] == 'cast' and len(e.args) == 2:
        return _obj_id(ps, fn, e.args[1], seen)
    if isinstance(e, ast.Name):
        d = ps.local_defs(fn).get(e.id, [])
        if len(d) == 1 and d[0] is not None and e.id not in seen:
            inner = d[0]
            while isinstance(inner, ast.Call) and (call_name(inner) or '').split('.')[-1] == 'cast' and len(inner.args) == 2:
                inner = inner.args[1]
            if isinstance(inner, (ast.Name, ast.Attribute)):
                return _obj_id(ps, fn, inner, seen | {e.id})
        return 'local:' + e.id
    c = attr_chain(e)
    return 'attr:' + c if c else None


def r5_replay(ctx: RuleCtx) -> None:
    """The namespace into which read_cmd_line_file merged the recorded command line is the one the Interpreter is built from
    (otherwise a re-run after a killed first setup / wipe silently configures with the defaults)."""
    mod = ctx.repo.module(MSETUP)
    ps = PathSym(ctx.repo)
    n = 0
    for qn, fn in mod.funcs().items():
        ref = FuncRef(mod, qn)
        reads: T.List[ast.Call] = []
        builds: T.List[ast.Call] = []
        for c in walk_no_nested(fn):
            if not isinstance(c, ast.Call):
                continue
            if _is_replay(ps, ref, c):
                reads.append(c)
            else:
                cn = attr_chain(c.func) or ''
                if cn.split('.')[-1] == 'Interpreter' and ps.resolve_class(mod, cn) is not None:
                    builds.append(c)
        if not builds:
            continue
        cfg = CFG(fn)
        for bld in builds:
            n += 1
            args = [a for a in bld.args if not isinstance(a, ast.Starred)] + [k.value for k in bld.keywords if k.arg]
            ids = [_obj_id(ps, fn, a) for a in args]
            # the namespace may also come ready-made from a helper that replays and returns it
            via_helper = False
            for a in args:
                src = a
                if isinstance(a, ast.Name):
                    d = ps.local_defs(fn).get(a.id, [])
                    src = d[0] if len(d) == 1 and d[0] is not None else a
                if isinstance(src, ast.Call) and (call_name(src) or '').split('.')[-1] == 'cast' and len(src.args) == 2:
                    src = src.args[1]
                if isinstance(src, ast.Call):
                    h = ps.resolve_callee(ref, src)
                    if h is not None:
                        rets = [r.value for r in walk_no_nested(h.node) if isinstance(r, ast.Return) and r.value is not None]
                        hreads = [c for c in walk_no_nested(h.node) if isinstance(c, ast.Call) and _is_replay(ps, h, c) and len(c.args) >= 2]
                        if rets and hreads and all(any(_obj_id(ps, h.node, rv) == _obj_id(ps, h.node, c.args[1]) for c in hreads) for rv in rets):
                            via_helper = True
            if via_helper:
                ctx.ok(f'{qn}: `{short(bld)}` is built from a namespace that a helper filled with read_cmd_line_file')
                continue
            if not reads:
                raise Undecided(f'{qn}: `{short(bld)}` is built here but read_cmd_line_file is not called in this function; the namespace is not followed')
            targets = []
            for r in reads:
                tgt = r.args[1] if len(r.args) >= 2 else kwarg(r, 'options')
                if tgt is None:
                    raise Undecided(f'{qn}: `{short(r)}`: cannot see which namespace is filled')
                targets.append((r, _obj_id(ps, fn, tgt)))
            hit = [(r, t) for r, t in targets if t is not None and t in ids]
            if hit:
                bn = cfg.node_containing(bld)
                rn = [x for r, t in hit for x in cfg.node_containing(r)]
                ok = bool(bn) and all(cfg.dominated_by_any(x, rn) for x in bn)
                ctx.require(ok, f'{qn}: `{short(bld)}` receives {hit[0][1]}, the namespace filled by `{short(hit[0][0])}`, which dominates it', mod, qn, bld,
                            f'`{short(bld)}` can be reached without `{short(hit[0][0])}` having run: the recorded command line is not replayed on that path', bld)
                continue
            if any(i is None for i in ids) or any(t is None for r, t in targets):
                raise Undecided(f'{qn}: an argument of `{short(bld)}` is not a plain reference; cannot tell whether it is the replayed namespace')
            ctx.violation(mod, qn, bld, f'`{short(bld)}` is built from {sorted(set(i for i in ids if i))}, none of which is the namespace '
                          f'{sorted(set(t for r, t in targets if t))} that `{short(reads[0])}` filled with the recorded command line: after a killed first '
                          f'setup or --wipe the re-run configures with default option values instead of the recorded ones', bld)
    ctx.floor('Interpreter constructions in msetup', n, 1)


# ---------------------------------------------------------------------------
# R6 / R7

def _absence_guarded(ctx: RuleCtx, ps: PathSym, ref: FuncRef, cfg: CFG, call: ast.Call, name_expr: ast.AST, excs: T.Sequence[str]) -> T.Optional[bool]:
    """Is the failure of `call` when the file named by name_expr is absent/short (one of excs) handled where it happens?
    True: a covering handler / contextlib.suppress encloses it, or an existence test of that same name dominates it.
    False: positively not.  None: a condition on the way mentions the name in a form the rule does not understand."""
    mod, fn = ref.mod, ref.node
    tries, _ = _enclosing_tries(mod, fn, call)
    for tr in tries:
        if all(_first_handler(ctx.repo, tr, e, mod, fn) is not None for e in excs):
            return True
    if all(_suppressed(mod, fn, call, _ancestors(ctx.repo, e)) for e in excs):
        return True
    want = ps.resolve(ref, name_expr)
    names = {n.id for n in ast.walk(name_expr) if isinstance(n, ast.Name)}
    unknown = False

    def exists_test(test: ast.AST, label: bool) -> bool:
        nonlocal unknown
        if isinstance(test, ast.UnaryOp) and isinstance(test.op, ast.Not):
            return exists_test(test.operand, not label)
        if isinstance(test, ast.BoolOp):
            if (isinstance(test.op, ast.And) and label) or (isinstance(test.op, ast.Or) and not label):
                return any(exists_test(v, label) for v in test.values)
            return False
        if isinstance(test, ast.Name):
            d = ps.local_defs(fn).get(test.id, [])
            if len(d) == 1 and d[0] is not None:
                return exists_test(d[0], label)
        if isinstance(test, ast.Call):
            cn = call_name(test) or ''
            arg = test.args[0] if test.args else (test.func.value if isinstance(test.func, ast.Attribute) else None)
            if cn in ('os.path.exists', 'os.path.isfile', 'os.path.lexists') or (call_method(test) in ('exists', 'is_file') and not test.args):
                if arg is not None and (norm(arg) == norm(name_expr) or (ps.resolve(ref, arg) == want and len(want) == 1)):
                    return label
                return False
            if names & {n.id for n in ast.walk(test) if isinstance(n, ast.Name)}:
                unknown = True
        return False

    at = cfg.node_containing(call)
    if not at:
        return None
    reach = cfg.reachable([cfg.entry], edge_ok=lambda a, b, lab: not (a.kind == 'test' and lab in (True, False) and exists_test(a.ast.test, lab)))  # type: ignore[union-attr]
    if not any(n.id in reach for n in at):
        return True
    return None if unknown else False


def r6_backup(ctx: RuleCtx) -> None:
    """validate_dirs accepts a partial build directory (meson-private without its files), so wherever msetup copies or opens a
    recovery-critical file by name the absence of that file must be survivable: handler for FileNotFoundError, or an
    existence test of that very name."""
    mod = ctx.repo.module(MSETUP)
    ps = PathSym(ctx.repo)
    n = 0
    for qn, fn in mod.funcs().items():
        ref = FuncRef(mod, qn)
        cfg: T.Optional[CFG] = None
        for s in _sinks(fn, set()):
            src = s.src if s.kind in ('copy', 'rename') else (s.path if s.kind == 'read' else None)
            if src is None:
                continue
            terms = ps.resolve(ref, src)
            hit = sorted({b for b in (_prot_base(t, REFERENCE_PROTECTED) for t in terms) if b})
            if not hit:
                continue
            n += 1
            cfg = cfg or CFG(fn)
            v = _absence_guarded(ctx, ps, ref, cfg, s.call, src, ['FileNotFoundError'])
            if v is None:
                raise Undecided(f'{qn}: cannot tell whether `{short(s.call)}` is protected against a missing {hit[0]}')
            ctx.require(v, f'{qn}: `{short(s.call)}` may name {hit[0]}; its absence (partial build directory) is handled: FileNotFoundError handler or existence test of that name',
                        mod, qn, s.call, f'`{short(s.call)}` may name meson-private/{hit[0]} ({P.show_all(terms)}), which a killed first setup or wipe leaves missing, '
                        f'yet no handler for FileNotFoundError encloses it and no existence test of that name dominates it: `meson setup --wipe` dies on a partial build directory', s.call)
    if n == 0:
        raise Undecided('msetup: no copy/read of a recovery-critical file whose name folds from constants (the backup before a wipe is spelled in a way the rule does not follow)')
    _r6_handoffs(ctx, mod, ps)


# -- R6, second clause: state files read by a function msetup hands control to ------------------------------------------------

EXISTS_FUNCS = ('os.path.exists', 'os.path.isfile', 'os.path.lexists')
HANDOFF_DEPTH = 4
StateChain = T.List[T.Tuple[FuncRef, ast.AST, T.Dict[str, Terms]]]      # innermost (the sink) first, the msetup function last


def _callee_or_ctor(ps: PathSym, ref: FuncRef, call: ast.Call) -> T.Optional[FuncRef]:
    """resolve_callee, and `C(...)` with C a repository class -> C.__init__ (own helper: PathSym does not follow constructors)."""
    r = ps.resolve_callee(ref, call)
    if r is not None:
        return r
    cn = attr_chain(call.func)
    if cn and not isinstance(call.func, ast.Call):
        rc = ps.resolve_class(ref.mod, cn)
        if rc is not None:
            return ps._method(rc[0], rc[1], '__init__')
    return None


def _private_base(t: Term) -> T.Optional[str]:
    """Base name of a term that spells <...>/meson-private/<constant>."""
    if t[0] == 'join' and len(t[1]) >= 2 and t[1][-2] == P.const(PRIVATE_DIR) and t[1][-1][0] == 'const':
        return str(t[1][-1][1])
    return None


_SPELLS_PRIVATE: T.Dict[T.Tuple[int, str], bool] = {}


def _state_events(ps: PathSym, ref: FuncRef, depth: int = HANDOFF_DEPTH, exact: bool = False) -> T.List[T.Tuple[str, str, StateChain]]:
    """('read' | 'write', base name, call chain) for every constant-named file the function - or a repository function it calls,
    arguments bound, constructors followed, `depth` levels - opens for reading under meson-private / writes or renames into place."""
    out: T.List[T.Tuple[str, str, StateChain]] = []
    seen: T.Set[T.Any] = set()

    def visit(r: FuncRef, env: T.Dict[str, Terms], d: int, outer: StateChain) -> None:
        key = (repr(r), tuple(sorted(env.items(), key=lambda kv: kv[0])))
        if key in seen:
            return
        seen.add(key)
        fn = r.node
        for s in _sinks(fn, set()):
            if s.path is None or s.kind not in ('read', 'write', 'rename'):
                continue
            terms = ps.resolve(r, s.path, env, depth=2)
            if s.kind == 'read':
                bases = {_private_base(t) for t in terms}
            else:
                bases = {P.basename(t) for t in terms}
            if len(bases) == 1 and None not in bases:
                out.append(('read' if s.kind == 'read' else 'write', str(next(iter(bases))), [(r, s.call, env)] + outer))
        if d <= 0:
            return
        for n in walk_no_nested(fn):
            if isinstance(n, ast.Call):
                callee = _callee_or_ctor(ps, r, n)
                if callee is None and call_method(n) == 'dump_coredata':
                    out.append(('write', 'coredata.dat', [(r, n, env)] + outer))      # by role (public API, as in R4a) when the receiver's class is not read
                if callee is not None and callee.mod.rel.startswith('mesonbuild/') and callee.qn != r.qn:
                    env2 = ps.bind_args(callee, n, r, env, 2, frozenset())
                    env2 = {k: v for k, v in env2.items() if any(c for t in v for c in P.consts_in(t))}
                    if not env2 and not exact:
                        # quick tier: a callee that receives no constant name is entered only if its module spells the directory
                        k2 = (id(ps.repo), callee.mod.rel)
                        if k2 not in _SPELLS_PRIVATE:
                            _SPELLS_PRIVATE[k2] = PRIVATE_DIR in callee.mod.src
                        if not _SPELLS_PRIVATE[k2]:
                            continue
                    visit(callee, env2, d - 1, [(r, n, env)] + outer)
    visit(ref, {}, depth, [])
    return out


def _exists_edge(ps: PathSym, ref: FuncRef, env: T.Dict[str, Terms], test: ast.AST, label: bool, base: str, unknown: T.List[str],
                 seen: T.FrozenSet[str] = frozenset()) -> bool:
    """Does taking the `label` edge of this test establish that meson-private/<base> exists?"""
    if isinstance(test, ast.UnaryOp) and isinstance(test.op, ast.Not):
        return _exists_edge(ps, ref, env, test.operand, not label, base, unknown, seen)
    if isinstance(test, ast.BoolOp):
        if (isinstance(test.op, ast.And) and label) or (isinstance(test.op, ast.Or) and not label):
            return any(_exists_edge(ps, ref, env, v, label, base, unknown, seen) for v in test.values)
        return False
    if isinstance(test, ast.Name) and test.id not in seen:
        d = ps.local_defs(ref.node).get(test.id, [])
        if len(d) == 1 and d[0] is not None:
            return _exists_edge(ps, ref, env, d[0], label, base, unknown, seen | {test.id})
        return False
    if isinstance(test, ast.Call):
        cn = call_name(test) or ''
        arg = test.args[0] if test.args else (test.func.value if isinstance(test.func, ast.Attribute) else None)
        if cn in EXISTS_FUNCS or (call_method(test) in ('exists', 'is_file') and not test.args):
            if arg is None:
                return False
            got = {_private_base(t) or P.basename(t) for t in ps.resolve(ref, arg, env, depth=2)}
            if got == {base}:
                return label
            if None in got:
                unknown.append(short(test))
            return False
        callee = ps.resolve_callee(ref, test)
        if callee is not None and callee.qn not in seen:
            rets = [n for n in walk_no_nested(callee.node) if isinstance(n, ast.Return)]
            if len(rets) == 1 and rets[0].value is not None:        # a predicate helper whose single return is such a test
                env2 = ps.bind_args(callee, test, ref, env, 2, frozenset())
                return _exists_edge(ps, callee, env2, rets[0].value, label, base, unknown, seen | {callee.qn})
    return False


def _tested_before(ps: PathSym, ref: FuncRef, env: T.Dict[str, Terms], node: ast.AST, bases: T.Iterable[str], unknown: T.List[str]) -> T.List[str]:
    """The base names among `bases` whose existence test dominates `node` in ref (node unreachable once the edges on which
    the file is known to exist are cut)."""
    cfg = CFG(ref.node)
    at = cfg.node_containing(node)
    if not at:
        raise Undecided(f'{ref.qn}: `{short(node)}` is not in the CFG')
    out = []
    for b in bases:
        def edge_ok(a: Node, _b: Node, lab: T.Any, b: str = b) -> bool:
            if a.kind == 'test' and lab in (True, False):
                u: T.List[str] = []
                r = _exists_edge(ps, ref, env, a.ast.test, lab, b, u)      # type: ignore[union-attr]
                if u and any(cfg.can_reach(a, n) for n in at):
                    unknown.extend(x for x in u if x not in unknown)
                return not r
            return True
        reach = cfg.reachable([cfg.entry], edge_ok=edge_ok)
        if not any(n.id in reach for n in at):
            out.append(b)
    return out


def _frame_outcome(ctx: RuleCtx, ps: PathSym, ref: FuncRef, node: ast.AST, env: T.Dict[str, Terms], base: str, exc: str) -> T.Tuple[str, str]:
    """One frame: ('tolerated', where) or ('escapes', class leaving this function)."""
    if ref.mod.rel not in _EXTRA_EXC_MODULES and ref.mod.rel not in (COREDATA, UNIVERSAL, ENVIRONMENT, _R6_EXAMPLE_REL, _R6_READER_REL):
        _EXTRA_EXC_MODULES.append(ref.mod.rel)
    unknown: T.List[str] = []
    if _tested_before(ps, ref, env, node, [base], unknown):
        return 'tolerated', f'existence test of {base} in {ref.qn}'
    if unknown:
        raise Undecided(f'{ref.qn}: an existence test on the way to `{short(node)}` names a file the rule cannot fold: {unknown[0]}')
    if _suppressed(ref.mod, ref.node, node, _ancestors(ctx.repo, exc)):
        return 'tolerated', f'contextlib.suppress in {ref.qn}'
    tries, _ = _enclosing_tries(ref.mod, ref.node, node)
    for tr in tries:
        h = _first_handler(ctx.repo, tr, exc, ref.mod, ref.node)
        if h is None:
            continue
        ends = {_path_raise(ctx, ps, ref, p) for p in enumerate_paths(h.body)}
        if 'falls' in ends and 'unknown' not in ends:
            return 'tolerated', f'handler `except {short(h.type) if h.type else ""}` in {ref.qn} can end normally'
        if ends == {'meson'}:
            exc = 'MesonException'
        elif ends != {'reraise'}:
            raise Undecided(f'{ref.qn}: the handler that catches {exc} on the way out of `{short(node)}` is not understood ({sorted(ends)})')
    return 'escapes', exc


def _sites_in_module(ps: PathSym, top: FuncRef) -> T.List[T.Tuple[FuncRef, ast.Call]]:
    """Call sites of `top` (a constructor: of its class) inside its own module.  A same-named method call on an attribute of
    another object (`intr.backend.generate()`) is not one; on a bare local whose class is not read it is Undecided."""
    bare = top.qn.rsplit('.', 1)[-1]
    names = {bare} | ({top.qn.split('.')[-2]} if bare == '__init__' and '.' in top.qn else set())
    out: T.List[T.Tuple[FuncRef, ast.Call]] = []
    for qn2, fn2 in top.mod.funcs().items():
        ref2 = FuncRef(top.mod, qn2)
        for c in walk_no_nested(fn2):
            if isinstance(c, ast.Call) and call_method(c) in names:
                r = _callee_or_ctor(ps, ref2, c)
                if r is None and isinstance(c.func, ast.Attribute) and isinstance(c.func.value, ast.Name) and c.func.value.id not in ('self', 'cls'):
                    d = ps.local_defs(fn2).get(c.func.value.id, [])          # app = MesonApp(options); app.generate()
                    ctors = {attr_chain(x.func) or '' for x in d if isinstance(x, ast.Call)}
                    if d and len(ctors) == 1 and all(isinstance(x, ast.Call) for x in d):      # every binding constructs the same class
                        rc = ps.resolve_class(top.mod, next(iter(ctors)))
                        if rc is not None:
                            r = ps._method(rc[0], rc[1], bare)
                    if r is None and c.func.value.id not in ps._imports(top.mod):
                        raise Undecided(f'{qn2}: `{short(c)}` may or may not call {top.qn}')
                if r is not None and r.mod.rel == top.mod.rel and r.qn == top.qn:
                    out.append((ref2, c))
    return out


def _absence_outcome(ctx: RuleCtx, ps: PathSym, chain: StateChain, base: str, depth: int = 2) -> T.Tuple[str, str]:
    """What becomes of the FileNotFoundError of the innermost read when meson-private/<base> is absent, frame by frame out to the
    msetup function and on to its call sites inside msetup: ('tolerated', where) - an existence test of that name dominates the
    frame's call, or a handler that can end without raising catches it; ('escapes', class) - every handler on the way re-raises
    or converts it."""
    exc = 'FileNotFoundError'
    for ref, node, env in chain:
        v, x = _frame_outcome(ctx, ps, ref, node, env, base, exc)
        if v == 'tolerated':
            return v, x
        exc = x

    def callers(top: FuncRef, exc: str, d: int) -> T.Optional[str]:
        """None: some call site lets it escape (or there is none); else where every call site tolerates it."""
        how: T.List[str] = []
        for ref2, c in _sites_in_module(ps, top):
            v, x = _frame_outcome(ctx, ps, ref2, c, {}, base, exc)
            if v == 'tolerated':
                how.append(x)
                continue
            up = callers(ref2, x, d - 1) if d > 0 else None
            if up is None:
                return None
            how.append(up)
        return '; '.join(sorted(set(how))) if how else None
    top = chain[-1][0]
    up = callers(top, exc, depth)
    if up is not None:
        return 'tolerated', f'at every call site of {top.qn}: {up}'
    return 'escapes', exc


_R6_EXAMPLE_REL = 'mesonbuild/__c09_r6_example__.py'
_R6_READER_REL = 'mesonbuild/__c09_r6_reader__.py'
_R6_READER = '''
import os
from .utils.universal import MesonException

def load(build_dir):
    filename = os.path.join(build_dir, 'meson-private', 'build.dat')
    try:
        with open(filename, 'rb') as f:
            return f.read()
    except FileNotFoundError:
        raise MesonException('No such build data file')

def load_or_none(build_dir):
    try:
        with open(os.path.join(build_dir, 'meson-private', 'build.dat'), 'rb') as f:
            return f.read()
    except FileNotFoundError:
        return None
'''
_R6_EXAMPLE = '''
import os
from . import __c09_r6_reader__ as rd

class App:
    def handed_over(self, build_dir):
        if os.path.exists(os.path.join(build_dir, 'meson-private', 'coredata.dat')):
            return rd.load(build_dir)

    def tested(self, build_dir):
        priv = os.path.join(build_dir, 'meson-private')
        if os.path.exists(os.path.join(priv, 'coredata.dat')) and os.path.exists(os.path.join(priv, 'build.dat')):
            return rd.load(build_dir)

    def tolerant(self, build_dir):
        if os.path.exists(os.path.join(build_dir, 'meson-private', 'coredata.dat')):
            return rd.load_or_none(build_dir)

    def produce(self, build_dir, cd, b):
        with open(os.path.join(build_dir, 'meson-private', 'coredata.dat~'), 'wb') as f:
            f.write(cd)
        os.replace(os.path.join(build_dir, 'meson-private', 'coredata.dat~'), os.path.join(build_dir, 'meson-private', 'coredata.dat'))
        with open(os.path.join(build_dir, 'meson-private', 'build.dat'), 'wb') as f:
            f.write(b)
'''


def _r6_scan(ctx: RuleCtx, repo: Repo, mod: Module, ps: PathSym) -> T.List[T.Tuple[str, FuncRef, ast.AST, str]]:
    """('ok' | 'bad' | 'undecided', msetup function, hand-off call, text) per state file read through a hand-off."""
    events = {qn: _state_events(ps, FuncRef(mod, qn), exact=ctx.thorough) for qn in mod.funcs()}
    out: T.List[T.Tuple[str, FuncRef, ast.AST, str]] = []
    done: T.Set[T.Tuple[str, int, str]] = set()
    for qn, evs in events.items():
        for kind, base, chain in evs:
            if kind != 'read' or len(chain) < 2:
                continue            # a read spelled in msetup itself is the first clause of R6
            top, handoff, env0 = chain[-1]
            if any(r.mod.rel == mod.rel for r, _n, _e in chain[:-1]):
                continue            # passes through another function of msetup: judged from there (and out to its call sites)
            if (qn, id(handoff), base) in done:
                continue
            done.add((qn, id(handoff), base))
            via = ' -> '.join(r.qn for r, _, _ in reversed(chain))
            try:
                verdict, how = _absence_outcome(ctx, ps, chain, base)
            except Undecided as e:
                out.append(('undecided', top, handoff, f'{via}: {e}'))
                continue
            if verdict == 'tolerated':
                out.append(('ok', top, handoff, f'{qn}: `{short(handoff)}` reads meson-private/{base} ({via}); its absence is survivable: {how}'))
                continue
            # witness: a kill can leave the directory with everything this hand-off tests for, yet without <base> - when every
            # tested file is published before <base> is written
            unknown: T.List[str] = []
            others = sorted({b for es in events.values() for k, b, _c in es} - {base})
            tested = _tested_before(ps, top, env0, handoff, others, unknown)
            holder, hnode = top, handoff
            for _lvl in range(4):
                try:
                    sites = _sites_in_module(ps, holder)
                except Undecided:
                    break
                if len(sites) != 1 or sites[0][0].qn == holder.qn:
                    break
                holder, hnode = sites[0]
                tested = sorted(set(tested) | set(_tested_before(ps, holder, {}, hnode, others, unknown)))
            if unknown:
                out.append(('undecided', top, handoff, f'{qn}: an existence test before `{short(handoff)}` names a file the rule cannot fold: {unknown[0]}'))
                continue
            order_ok = True
            why = 'nothing but the directory is tested before it'
            for m in tested:
                proof = None
                for qn2, es in sorted(events.items(), key=lambda kv: -min([len(c) for k, b, c in kv[1] if k == 'write' and b in (m, base)] or [0])):
                    wm = [c[-1][1] for k, b, c in es if k == 'write' and b == m]
                    wf = [c[-1][1] for k, b, c in es if k == 'write' and b == base]
                    if wm and wf:
                        cfg2 = CFG(mod.func(qn2))
                        nm = [n for x in wm for n in cfg2.node_containing(x)]
                        nf = [n for x in wf for n in cfg2.node_containing(x)]
                        if nm and nf and not any(cfg2.can_reach(cfg2.entry, n, avoid=nm) for n in nf):
                            proof = f'{qn2} publishes {m} before it writes {base}'
                if proof is None:
                    order_ok = False
                    why = f'cannot establish that {m} (tested before the hand-off) is published before {base} is written'
                    break
                why = proof
            if not order_ok:
                out.append(('undecided', top, handoff, f'{qn}: `{short(handoff)}` refuses when meson-private/{base} is absent, but {why}'))
                continue
            out.append(('bad', holder, hnode, f'hand-off to {chain[-2][0].qn}(...) needs meson-private/{base}\x00'
                        f'`{short(handoff)}` hands control to a reader of meson-private/{base} ({via}) that refuses when the file is absent ({how} reaches {qn} and, through its only call sites, {holder.qn}), '
                        f'and only {", ".join(tested) if tested else "the directory"} is tested before the call; {why}, so a setup killed in between leaves exactly '
                        f'that state and the re-run of the same `meson setup` command fails instead of finishing the configuration '
                        f'(test the existence of {base} as well, or make the reader tolerate its absence)'))
    return out


def _r6_handoffs(ctx: RuleCtx, mod: Module, ps: PathSym) -> None:
    # built-in positive example (expected-zero clause)
    ex_repo = Repo(ctx.repo.root, {_R6_EXAMPLE_REL: _R6_EXAMPLE, _R6_READER_REL: _R6_READER})
    ex = sorted((v, r.qn) for v, r, _n, _t in _r6_scan(ctx, ex_repo, ex_repo.module(_R6_EXAMPLE_REL), PathSym(ex_repo)))
    if ex != [('bad', 'App.handed_over'), ('ok', 'App.tested'), ('ok', 'App.tolerant')]:
        raise AnalysisError(f'C09.R6 built-in example (hand-off to build.load behind a test of coredata.dat only) not classified as expected: {ex}')
    res = _r6_scan(ctx, ctx.repo, mod, ps)
    und = [t for v, _, _, t in res if v == 'undecided']
    for v, ref, node, text in res:
        if v == 'ok':
            ctx.ok(text)
        elif v == 'bad':
            # construct free of local names and spelling: the function handed to (as resolved) and the file it refuses to do without
            construct, _sep, msg = text.partition('\x00')
            ctx.violation(mod, ref.qn, construct, msg, node)
    ctx.note(f'hand-offs from msetup to readers of constant-named meson-private files (within {HANDOFF_DEPTH} calls, constructors followed): {len(res)}')
    if und:
        raise Undecided('; '.join(und))


LOADERS ={'pickle.load': ('EOFError', 'UnpicklingError'), 'json.load': ('ValueError',)}


def r7_readback(ctx: RuleCtx) -> None:
    """A file that a configuration step both writes in place and reads back (same symbolic name in one function) is state a killed
    run can leave torn: either it is published atomically (R1 idiom) or the read-back converts what a torn file raises."""
    ps = PathSym(ctx.repo)
    files = [f for f in _scope(ctx) if f.startswith(('mesonbuild/backend/', 'mesonbuild/msetup', 'mesonbuild/mintro', 'mesonbuild/build', 'mesonbuild/coredata',
                                                    'mesonbuild/environment', 'mesonbuild/interpreter/'))]
    pairs = 0
    scanned = 0
    for rel in files:
        text = ctx.repo.read(rel)
        if not any(l in text for l in LOADERS) or 'open(' not in text:
            continue
        mod = ctx.repo.module(rel)
        for qn, fn in mod.funcs().items():
            loads = [c for c in walk_no_nested(fn) if isinstance(c, ast.Call) and call_name(c) in LOADERS]
            if not loads:
                continue
            scanned += 1
            ref = FuncRef(mod, qn)
            sinks = _sinks(fn, set())
            opens = {id(s.call): s for s in sinks if s.kind in ('read', 'write') and s.path is not None}
            pm = mod.parent_map()
            cfg: T.Optional[CFG] = None
            for ld in loads:
                # which open() feeds the loader: `with open(P, 'rb') as f: load(f)` / load(open(P, 'rb'))
                fobj = _arg(ld, 0, 'file', 'fp')
                src: T.Optional[Sink] = None
                if isinstance(fobj, ast.Call) and id(fobj) in opens:
                    src = opens[id(fobj)]
                elif isinstance(fobj, ast.Name):
                    for w in walk_no_nested(fn):
                        if isinstance(w, (ast.With, ast.AsyncWith)):
                            for i in w.items:
                                if isinstance(i.optional_vars, ast.Name) and i.optional_vars.id == fobj.id and id(i.context_expr) in opens \
                                        and any(x is ld for st in w.body for x in ast.walk(st)):
                                    src = opens[id(i.context_expr)]
                if src is None or src.kind != 'read':
                    continue
                rterms = ps.resolve(ref, src.path)   # type: ignore[arg-type]
                if len(rterms) != 1:
                    continue
                writers = [s for s in sinks if s.kind == 'write' and s.path is not None and ps.resolve(ref, s.path) == rterms]
                if not writers:
                    continue
                pairs += 1
                cfg = cfg or CFG(fn)
                excs = list(LOADERS[call_name(ld) or ''])
                v = _absence_guarded(ctx, ps, ref, cfg, ld, ast.Constant(value=None), excs)
                what = f'{rel}:{qn}: `{short(ld)}` reads back {P.show_all(rterms)}, which `{short(writers[0].call)}` writes in place'
                if v:
                    ctx.ok(what + f': {"/".join(excs)} from a torn file is handled')
                else:
                    ctx.violation(mod, qn, ld, f'`{short(ld)}` reads back {P.show_all(rterms)}, which this function rewrites in place with `{short(writers[0].call)}` '
                                  f'(mode {writers[0].mode!r}); a run killed during that write leaves it empty or short, and the next configuration dies here with '
                                  f'{" / ".join(excs)}: nothing converts it and the file is not published atomically', ld)
    ctx.note(f'{scanned} function(s) with a pickle/json loader scanned; {pairs} read-back pair(s) on a name the same function rewrites in place')
    if pairs == 0:
        ctx.ok('no configuration-time function reads back with pickle/json a file it rewrites in place', nontrivial=False)


# ---------------------------------------------------------------------------
# R8

def r8_loaded_only(ctx: RuleCtx) -> None:
    """`set_from_configure_command` (the -D/-U semantics of a *re*configuration) is applied only to a coredata that was loaded:
    a recovery run (coredata.dat missing/unreadable -> fresh CoreData, first_invocation) knows no project options yet, and
    pushing the command line into it fails with "Unknown option" - the directory can then not be repaired by --reconfigure."""
    mod = ctx.repo.module(MSETUP)
    ps = PathSym(ctx.repo)
    n = 0
    for qn, fn in mod.funcs().items():
        calls = [c for c in walk_no_nested(fn) if isinstance(c, ast.Call) and call_method(c) == 'set_from_configure_command']
        if not calls:
            continue
        cfg = CFG(fn)
        defs = ps.local_defs(fn)
        unread: T.List[str] = []

        def loaded(test: ast.AST, label: bool, seen: T.FrozenSet[str] = frozenset()) -> bool:
            """test == label implies: not a first invocation."""
            if isinstance(test, ast.UnaryOp) and isinstance(test.op, ast.Not):
                return loaded(test.operand, not label, seen)
            if isinstance(test, ast.BoolOp):
                if (isinstance(test.op, ast.And) and label) or (isinstance(test.op, ast.Or) and not label):
                    return any(loaded(v, label, seen) for v in test.values)
                return False
            if isinstance(test, ast.Name) and test.id not in seen:
                d = defs.get(test.id, [])
                if len(d) == 1 and d[0] is not None:
                    return loaded(d[0], label, seen | {test.id})
                return False
            if isinstance(test, ast.Compare) and len(test.ops) == 1 and isinstance(test.comparators[0], ast.Constant) and isinstance(test.comparators[0].value, bool) \
                    and isinstance(test.ops[0], (ast.Is, ast.Eq, ast.IsNot, ast.NotEq)):
                same = isinstance(test.ops[0], (ast.Is, ast.Eq)) == test.comparators[0].value
                return loaded(test.left, label if same else not label, seen)
            c = attr_chain(test)
            if c is not None and c.split('.')[-1] == 'first_invocation':
                return label is False
            if isinstance(test, ast.Call) and any(isinstance(x, ast.Name) and x.id in env_names for x in ast.walk(test)):
                unread.append(short(test))
            return False

        for c in calls:
            recv = attr_chain(c.func.value) if isinstance(c.func, ast.Attribute) else None
            env_names = {recv.split('.')[0]} if recv else set()
            at = cfg.node_containing(c)
            if not at:
                raise Undecided(f'{qn}: `{short(c)}` is not in the CFG')
            n += 1
            asserts = [m for m in cfg.nodes if m.kind == 'stmt' and isinstance(m.ast, ast.Assert) and loaded(m.ast.test, True)]
            reach = cfg.reachable([cfg.entry], avoid=asserts, edge_ok=lambda a, b, lab: not (a.kind == 'test' and lab in (True, False) and loaded(a.ast.test, lab)))  # type: ignore[union-attr]
            ok = not any(x.id in reach for x in at)
            if not ok and unread:
                raise Undecided(f'{qn}: `{short(c)}` is not behind a `first_invocation` test the rule can read, but {sorted(set(unread))[:3]} may be one')
            ctx.require(ok, f'{qn}: `{short(c)}` runs only where `first_invocation` is known to be false (a loaded coredata)', mod, qn, c,
                        f'`{short(c)}` can run on a first invocation: after a killed setup/wipe (coredata.dat missing or unreadable) `meson setup --reconfigure` builds a '
                        f'fresh CoreData, and pushing the command line into it fails with "Unknown option" for every project option; only `not <env>.first_invocation` '
                        f'may lead here', c)
    if n == 0:
        raise Undecided('msetup: no call of set_from_configure_command found (the reconfigure path is spelled in a way the rule does not follow)')


# ---------------------------------------------------------------------------
# R9: the sub-directories of the build directory are re-created by every run

CREATE_FUNCS = {'os.makedirs', 'os.mkdir'}
EXIST_FUNCS = {'os.path.isdir', 'os.path.exists', 'os.path.lexists'}


def _param_absent(defs: T.Dict[str, T.List[T.Optional[ast.AST]]], param: str, test: ast.AST, label: bool, seen: T.FrozenSet[str] = frozenset()) -> T.Optional[bool]:
    """test == label implies `param` is None/empty: True / False; None = the test reads the parameter in a way not understood."""
    if isinstance(test, ast.UnaryOp) and isinstance(test.op, ast.Not):
        return _param_absent(defs, param, test.operand, not label, seen)
    if isinstance(test, ast.Name):
        if test.id == param:
            return label is False
        d = defs.get(test.id, [])
        if test.id not in seen and len(d) == 1 and d[0] is not None:
            return _param_absent(defs, param, d[0], label, seen | {test.id})
        return False
    if isinstance(test, ast.Compare) and len(test.ops) == 1 and isinstance(test.left, ast.Name) and test.left.id == param \
            and isinstance(test.comparators[0], ast.Constant) and test.comparators[0].value in (None, ''):
        if isinstance(test.ops[0], (ast.Is, ast.Eq)):
            return label is True
        if isinstance(test.ops[0], (ast.IsNot, ast.NotEq)):
            return label is False
    if any(isinstance(n, ast.Name) and n.id == param for n in ast.walk(test)):
        if isinstance(test, ast.BoolOp):
            vals = [_param_absent(defs, param, v, label, seen) for v in test.values]
            every = (isinstance(test.op, ast.And) and label) or (isinstance(test.op, ast.Or) and not label)
            if every and any(v is True for v in vals):
                return True          # all operands hold on this edge, one of them says "absent"
            if all(v is False for v in vals):
                return False
        return None
    return False


def r9_dirs(ctx: RuleCtx) -> None:
    """A `setup --wipe` killed inside its deletion loop leaves meson-private/ (the directory still counts as configured) without
    meson-logs/ or meson-info/; the re-run opens its log file in meson-logs/ straight away.  So whatever sub-directory of the
    build directory Environment.__init__ creates, it creates whenever it is given a build directory: the only tests that may
    lead around the creation are "no build directory" and "it exists already"."""
    mod = ctx.repo.module(ENVIRONMENT)
    qn = 'Environment.__init__'
    ps = PathSym(ctx.repo)

    def creates(fn: ast.AST) -> bool:
        return any(isinstance(n, ast.Call) and (call_name(n) in CREATE_FUNCS or call_method(n) == 'mkdir') for n in walk_no_nested(fn))

    ref, fn, inlined = _normal_form(ps, mod, qn, strict=False, only=lambda callee: creates(callee.node))
    cfg = CFG(fn)
    defs = ps.local_defs(fn)
    params = params_of_fn(fn)
    bparam = next((a for a in params if a == 'build_dir'), None) or (params[2] if len(params) > 2 else None)
    if bparam is None:
        raise Undecided(f'{qn}: no build directory parameter')

    def sub_dirs(e: ast.AST) -> T.Set[str]:
        out = set()
        for t in ps.resolve(ref, e, {}):
            if t[0] == 'join' and len(t[1]) == 2 and t[1][0] == P.opaque('param:' + bparam) and t[1][1][0] == 'const':
                out.add(t[1][1][1])
        return out

    creators: T.Dict[str, T.List[Node]] = {}
    for n in cfg.nodes:
        e = n.expr()
        if e is None or n.kind not in ('stmt', 'test'):
            continue
        for c in walk_no_nested(e):
            if not isinstance(c, ast.Call):
                continue
            arg: T.Optional[ast.AST] = None
            if call_name(c) in CREATE_FUNCS:
                arg = _arg(c, 0, 'name', 'path')
            elif call_method(c) == 'mkdir' and isinstance(c.func, ast.Attribute):
                arg = c.func.value
                if isinstance(arg, ast.Call) and (call_name(arg) or '').split('.')[-1] in ('Path', 'PurePath') and len(arg.args) == 1:
                    arg = arg.args[0]
            if arg is not None:
                for d in sub_dirs(arg):
                    creators.setdefault(d, []).append(n)
    # the finite domain the source declares: the *_dir names of class Environment
    declared = {}
    for st in mod.cls('Environment').body:
        if isinstance(st, (ast.Assign, ast.AnnAssign)) and st.value is not None and isinstance(st.value, ast.Constant) and isinstance(st.value.value, str):
            for t in (st.targets if isinstance(st, ast.Assign) else [st.target]):
                if isinstance(t, ast.Name) and t.id.endswith('_dir'):
                    declared[t.id] = st.value.value
    ctx.floor('directory names declared by class Environment', len(declared), 2)
    lost = sorted(v for v in declared.values() if v not in creators)
    if lost:
        raise Undecided(f'{qn}: no creation of {lost} under the build directory found here or in its statement-level helpers (created elsewhere? not followed)')

    def loop_must_create(head: Node, mine: T.List[Node], skip: T.Callable[[Node, Node, T.Any], bool]) -> T.Optional[bool]:
        """A for-loop over a non-empty display whose body cannot be left (next item, break, fall out) without passing `mine`."""
        lp = head.ast
        it: T.Optional[ast.AST] = lp.iter          # type: ignore[union-attr]
        if isinstance(it, ast.Name):
            dd = defs.get(it.id, [])
            it = dd[0] if len(dd) == 1 else None
        if not isinstance(it, (ast.Tuple, ast.List, ast.Set)) or not it.elts or any(isinstance(x, ast.Starred) for x in it.elts):
            return None          # how often the body runs is not known
        inside = {id(x) for b in lp.body for x in ast.walk(b)}          # type: ignore[union-attr]
        first = [cfg.nodes[b] for b, lab in cfg.succ[head.id] if lab == 'iter']
        if any(f.id in {m.id for m in mine} for f in first):
            return True
        reach = cfg.reachable(first, avoid=mine, edge_ok=lambda a, b, lab: lab != 'exc' and not skip(a, b, lab), include_start=True)
        return not any(cfg.nodes[i] is head or id(cfg.nodes[i].ast) not in inside for i in reach)

    unread: T.List[str] = []
    for d in sorted(creators):
        def skip_ok(a: Node, b: Node, lab: T.Any, d: str = d) -> bool:
            """the edge may lead around the creation: no build directory, or the directory exists already"""
            if a.kind != 'test' or lab not in (True, False):
                return False
            test = a.ast.test          # type: ignore[union-attr]
            pa = _param_absent(defs, bparam, test, lab)
            if pa is None:
                unread.append(short(test))
            if pa:
                return True
            t2, l2 = test, lab
            while isinstance(t2, ast.UnaryOp) and isinstance(t2.op, ast.Not):
                t2, l2 = t2.operand, not l2
            if isinstance(t2, ast.Name) and len(defs.get(t2.id, [])) == 1 and defs[t2.id][0] is not None:
                t2 = defs[t2.id][0]          # type: ignore[assignment]
            if isinstance(t2, ast.Call) and l2 is True:
                x: T.Optional[ast.AST] = None
                if call_name(t2) in EXIST_FUNCS and t2.args:
                    x = t2.args[0]
                elif call_method(t2) in ('is_dir', 'exists') and isinstance(t2.func, ast.Attribute) and not t2.args:
                    x = t2.func.value
                    if isinstance(x, ast.Call) and len(x.args) == 1:
                        x = x.args[0]
                if x is not None and d in sub_dirs(x):
                    return True
            return False

        mine = list(creators[d])
        loop_unknown = False
        for h in cfg.nodes:
            if h.kind == 'iter' and isinstance(h.ast, ast.For):
                body_ids = {id(x) for b in h.ast.body for x in ast.walk(b)}
                if any(id(m.ast) in body_ids for m in creators[d]):
                    must = loop_must_create(h, creators[d], skip_ok)
                    if must:
                        mine.append(h)
                    elif must is None:
                        loop_unknown = True
        reach = cfg.reachable([cfg.entry], avoid=mine, edge_ok=lambda a, b, lab: lab != 'exc' and not skip_ok(a, b, lab))
        ok = cfg.exit_return.id not in reach
        where = creators[d][0].ast
        if not ok and (unread or loop_unknown):
            raise Undecided(f'{qn}: {d}/ is created in a loop over something that is not a literal display, or behind tests on `{bparam}` the rule does not read ({sorted(set(unread))[:3]})')
        ctx.require(ok, f'{qn}: every normal path with a build directory creates <build>/{d} (or finds it present)', mod, qn,
                    f'create <build>/{d}',
                    f'<build>/{d} is not created on every run: a normal path through {qn} with a build directory leads around `{short(where)}` by a test '
                    f'that is neither "no build directory" nor "{d} exists".  A `setup --wipe` killed inside its deletion loop leaves a directory that is '
                    f'still configured (meson-private/coredata.dat) but lacks {d}/; the re-run must re-create it', where)
    if inlined:
        ctx.note(f'{qn}: read with these helper statements inlined: {"; ".join(inlined)}')


def params_of_fn(fn: T.Any) -> T.List[str]:
    return [a.arg for a in fn.args.posonlyargs + fn.args.args]


# ---------------------------------------------------------------------------
# R10: the re-run of an interrupted command may state every option again

OPTIONS = 'mesonbuild/options.py'
CMP_INERT = {'isinstance', 'len', 'str', 'bool', 'int', 'repr', 'getattr', 'hasattr'}


def r10_restated(ctx: RuleCtx) -> None:
    """`meson setup --reconfigure <the options of the killed run>` passes every option through OptionStore.set_option with
    first_invocation false (R8).  A rejection that depends on the option being read-only may therefore only happen when the
    stored value and the new value were compared and differ; an unchanged read-only option (backend, vsenv) must be accepted."""
    mod = ctx.repo.module(OPTIONS)
    qn = 'OptionStore.set_option'
    ps = PathSym(ctx.repo)

    def mentions_readonly(fn: ast.AST) -> bool:
        return any(isinstance(n, ast.Attribute) and n.attr == 'readonly' for n in walk_no_nested(fn))

    ref, fn, inlined = _normal_form(ps, mod, qn, strict=False, only=lambda callee: mentions_readonly(callee.node))
    cfg = CFG(fn)
    defs = ps.local_defs(fn)
    unread: T.List[str] = []

    def expand(e: ast.AST, seen: T.FrozenSet[str] = frozenset()) -> T.List[ast.AST]:
        """the expression and the definitions of the locals it reads (flow-insensitive)"""
        out = [e]
        for n in ast.walk(e):
            if isinstance(n, ast.Name) and n.id not in seen:
                for d in defs.get(n.id, []):
                    if d is not None:
                        out += expand(d, seen | {n.id})
        return out

    def polarities(e: ast.AST, seen: T.FrozenSet[str]) -> T.Set[bool]:
        """{True}: truthy means "the values differ"; {False}: truthy means "equal"; through not / and / or / | / locals."""
        if isinstance(e, ast.UnaryOp) and isinstance(e.op, ast.Not):
            return {not x for x in polarities(e.operand, seen)}
        if isinstance(e, ast.BoolOp):
            return {x for v in e.values for x in polarities(v, seen)}
        if isinstance(e, ast.BinOp) and isinstance(e.op, (ast.BitOr, ast.BitAnd)):
            return polarities(e.left, seen) | polarities(e.right, seen)
        if isinstance(e, ast.IfExp):
            return polarities(e.body, seen) | polarities(e.orelse, seen)
        if isinstance(e, ast.Compare) and len(e.ops) == 1 and isinstance(e.ops[0], (ast.Eq, ast.NotEq)) \
                and not isinstance(e.left, ast.Constant) and not isinstance(e.comparators[0], ast.Constant):
            return {isinstance(e.ops[0], ast.NotEq)}
        if isinstance(e, ast.Name) and e.id not in seen:
            return {x for d in defs.get(e.id, []) if d is not None for x in polarities(d, seen | {e.id})}
        return set()

    def flag_polarity(name: str) -> T.Optional[bool]:
        """A local that records "the value changed": some definition is (built from) a comparison of two non-constant operands.
        True: truthy means changed (`!=`); False: truthy means unchanged (`==`); None: not such a flag."""
        pols = polarities(ast.Name(id=name, ctx=ast.Load()), frozenset())
        return pols.pop() if len(pols) == 1 else None

    def changed(test: ast.AST, label: bool) -> bool:
        """test == label implies: the old and the new value were compared and differ."""
        if isinstance(test, ast.UnaryOp) and isinstance(test.op, ast.Not):
            return changed(test.operand, not label)
        if isinstance(test, ast.BoolOp):
            every = (isinstance(test.op, ast.And) and label) or (isinstance(test.op, ast.Or) and not label)
            return any(changed(v, label) for v in test.values) if every else all(changed(v, label) for v in test.values)
        if isinstance(test, ast.Compare) and len(test.ops) == 1 and isinstance(test.ops[0], (ast.Eq, ast.NotEq)) \
                and not isinstance(test.left, ast.Constant) and not isinstance(test.comparators[0], ast.Constant):
            return isinstance(test.ops[0], ast.NotEq) == label
        if isinstance(test, ast.Name):
            pol = flag_polarity(test.id)
            if pol is not None:
                return pol == label
            d = defs.get(test.id, [])
            if len(d) == 1 and d[0] is not None and not isinstance(d[0], ast.Name):
                return changed(d[0], label)
            return False
        return False

    def opaque_calls(test: ast.AST, seen: T.FrozenSet[str] = frozenset()) -> T.List[str]:
        """helper calls among the boolean operands of a test (also behind a local named once) whose result might encode the comparison"""
        if isinstance(test, ast.UnaryOp) and isinstance(test.op, ast.Not):
            return opaque_calls(test.operand, seen)
        if isinstance(test, ast.BoolOp):
            return [c for v in test.values for c in opaque_calls(v, seen)]
        if isinstance(test, ast.Name) and test.id not in seen and flag_polarity(test.id) is None:
            d = defs.get(test.id, [])
            return opaque_calls(d[0], seen | {test.id}) if len(d) == 1 and d[0] is not None else []
        if isinstance(test, ast.Call) and (call_name(test) or '').split('.')[-1] not in CMP_INERT:
            return [short(test)]
        return []

    ro_tests = [n for n in cfg.nodes if n.kind == 'test' and any(isinstance(x, ast.Attribute) and x.attr == 'readonly' for e in expand(n.ast.test) for x in ast.walk(e))]   # type: ignore[union-attr]
    raises = [n for n in cfg.nodes if n.kind == 'stmt' and isinstance(n.ast, ast.Raise) and ro_tests and cfg.is_reachable(n) and cfg.dominated_by_any(n, ro_tests)]
    if not raises:
        raise Undecided(f'{qn}: no rejection that depends on `.readonly` found here or in its statement-level helpers (the read-only check is spelled in a way the rule does not follow)')
    for r in raises:
        reach = cfg.reachable([cfg.entry], edge_ok=lambda a, b, lab: not (a.kind == 'test' and lab in (True, False) and changed(a.ast.test, lab)))   # type: ignore[union-attr]
        ok = r.id not in reach
        if not ok:
            unread += [c for t in cfg.nodes if t.kind == 'test' and cfg.dominated_by_any(r, [t]) for c in opaque_calls(t.ast.test)]   # type: ignore[union-attr]
        if not ok and unread:
            raise Undecided(f'{qn}: `{short(r.ast)}` is not behind a value comparison the rule can read, but {sorted(set(unread))[:3]} may be one')
        ctx.require(ok, f'{qn}: the read-only rejection `{short(r.ast)}` is reachable only where the old and the new value were found to differ', mod, qn,
                    'read-only rejection without a changed-value test',
                    f'`{short(r.ast)}` can be reached without a test that the stored and the new value differ: re-stating a read-only option with its current '
                    f'value (`meson setup --reconfigure -Dbackend=ninja` after a first setup that was killed once coredata.dat existed) is rejected, the '
                    f'interrupted command cannot be repeated', r.ast)
    if inlined:
        ctx.note(f'{qn}: read with these helper statements inlined: {"; ".join(inlined)}')


# ---------------------------------------------------------------------------
# R11: the temporary of an atomically published generated file is started afresh

NINJABACKEND = 'mesonbuild/backend/ninjabackend.py'
EXISTS_FUNCS = ('os.path.exists', 'os.path.isfile', 'os.path.lexists')


def _temp_events(ps: PathSym, ref: FuncRef, tmp: Terms, publish: ast.Call) -> T.Tuple[T.List[T.Tuple[ast.Call, str, str]], T.List[str]]:
    """Events on the file named `tmp` inside ref: (call, 'fresh' | 'keep' | 'remove', description) - an open that truncates ('w'),
    an open that keeps what is there ('a', 'r+', 'x'), a removal - directly or in a repository callee that receives the name
    (its opens of that parameter, one level); and the calls that receive the name but could not be read."""
    ev: T.List[T.Tuple[ast.Call, str, str]] = []
    unread: T.List[str] = []

    def kind_of(mode: T.Optional[str]) -> T.Optional[str]:
        if mode is None:
            return None
        return 'fresh' if 'w' in mode else 'keep'
    own = {id(s.call): s for s in _sinks(ref.node, set())}
    for n in walk_no_nested(ref.node):
        if not isinstance(n, ast.Call) or n is publish:
            continue
        s = own.get(id(n))
        if s is not None and s.path is not None and s.kind in ('write', 'remove') and ps.resolve(ref, s.path) == tmp:
            k = 'remove' if s.kind == 'remove' else kind_of(s.mode)
            if k is None:
                unread.append(f'`{short(n)}` (mode is not a constant)')
            else:
                ev.append((n, k, f'`{short(n)}`'))
            continue
        if s is not None:
            continue
        args = [a for a in n.args if not isinstance(a, ast.Starred)] + [k.value for k in n.keywords if k.arg]
        if not any(ps.resolve(ref, a) == tmp for a in args):
            continue
        cn = call_name(n) or ''
        if cn in EXISTS_FUNCS or cn.startswith('mlog.') or cn in HANDLER_INERT:
            continue
        callee = ps.resolve_callee(ref, n)
        if callee is None:
            unread.append(f'`{short(n)}` (callee not resolved)')
            continue
        env = ps.bind_args(callee, n, ref, {}, 2, frozenset())
        kinds: T.Set[str] = set()
        inner_unread = False
        for s2 in _sinks(callee.node, set()):
            if s2.path is not None and s2.kind in ('write', 'remove') and ps.resolve(callee, s2.path, env) == tmp:
                k2 = 'remove' if s2.kind == 'remove' else kind_of(s2.mode)
                if k2 is None:
                    inner_unread = True
                else:
                    kinds.add(k2)
        for c2 in walk_no_nested(callee.node):
            if isinstance(c2, ast.Call) and not any(c2 is s2.call for s2 in _sinks(callee.node, set())) and (call_name(c2) or '') not in EXISTS_FUNCS \
                    and any(ps.resolve(callee, a, env) == tmp for a in c2.args if not isinstance(a, ast.Starred)):
                inner_unread = True         # handed on a second level: not followed
        if inner_unread or len(kinds) > 1:
            unread.append(f'`{short(n)}` ({callee.qn} treats the file in several ways: {sorted(kinds)})')
        elif kinds:
            k3 = kinds.pop()
            ev.append((n, k3, f'`{short(n)}` ({callee.qn} opens its parameter ' + ('truncating' if k3 == 'fresh' else 'removing it' if k3 == 'remove' else 'without truncating') + ')'))
    return ev, unread


def r11_fresh_temp(ctx: RuleCtx) -> None:
    mod = ctx.repo.module(NINJABACKEND)
    ps = PathSym(ctx.repo)
    n_pub = n_keep = 0
    jobs: T.List[T.Tuple[FuncRef, T.Any, Terms, ast.Call, Terms]] = []
    for qn, fn in mod.funcs().items():
        ref = FuncRef(mod, qn)
        for s in _sinks(fn, set()):
            if s.kind != 'rename' or s.src is None or s.path is None:
                continue
            tmp = ps.resolve(ref, s.src)
            dst = ps.resolve(ref, s.path)
            if len(tmp) != 1 or len(dst) != 1 or tmp == dst:
                raise Undecided(f'{qn}: `{short(s.call)}`: source/destination are not single distinct names: {P.show_all(tmp)} -> {P.show_all(dst)}')
            events, unread = _temp_events(ps, ref, tmp, s.call)
            if not events and not unread and 'contextmanager' in decorator_names_of(fn):
                # a context-manager helper that yields the temporary's name and publishes on exit: the file is written by
                # the with-blocks that receive the name - judge each of them (the publication is the end of the block)
                ys = [y for y in walk_no_nested(fn) if isinstance(y, ast.Yield) and y.value is not None]
                if len(ys) == 1 and ps.resolve(ref, ys[0].value) == tmp:
                    for qn2, fn2 in mod.funcs().items():
                        ref2 = FuncRef(mod, qn2)
                        for w in walk_no_nested(fn2):
                            if not isinstance(w, (ast.With, ast.AsyncWith)):
                                continue
                            for it in w.items:
                                if isinstance(it.context_expr, ast.Call) and isinstance(it.optional_vars, ast.Name):
                                    r2 = ps.resolve_callee(ref2, it.context_expr)
                                    if r2 is not None and r2.mod.rel == mod.rel and r2.qn == qn:
                                        jobs.append((ref2, fn2, ps.resolve(ref2, it.optional_vars), it.context_expr, dst))
                continue
            if not events and not unread:
                continue            # the renamed file is not written here: not a temp + replace publication
            jobs.append((ref, fn, tmp, s.call, dst))
    for ref, fn, tmp, pub, dst in jobs:
        qn = ref.qn
        if True:
            s_call = pub
            events, unread = _temp_events(ps, ref, tmp, pub)
            if not events and not unread:
                continue
            n_pub += 1
            if unread:
                raise Undecided(f'{qn}: the temporary {P.show_all(tmp)} of `{short(s_call)}` is handed to {unread}; cannot tell whether a leftover is kept')
            cfg = CFG(fn)
            fresh = [n for c, k, d in events if k in ('fresh', 'remove') for n in cfg.node_containing(c)]

            def edge_ok(a: Node, b: Node, lab: T.Any) -> bool:
                # `if os.path.exists(tmp):` false edge: there is no leftover
                t = getattr(a.ast, 'test', None)
                if a.kind == 'test' and lab is False and isinstance(t, ast.Call) and call_name(t) in EXISTS_FUNCS and t.args and ps.resolve(ref, t.args[0]) == tmp:
                    return False
                return True
            reach = cfg.reachable([cfg.entry], avoid=fresh, edge_ok=edge_ok)
            for c, k, d in events:
                if k != 'keep':
                    continue
                n_keep += 1
                at = cfg.node_containing(c)
                if not at:
                    raise Undecided(f'{qn}: `{short(c)}` is not in the CFG')
                ok = not any(n.id in reach for n in at)
                ctx.require(ok, f'{qn}: {d} continues the temporary {P.show_all(tmp)} only after it was created afresh on every path '
                            f'({"; ".join(d2 for c2, k2, d2 in events if k2 != "keep")}) - a leftover of a killed run never reaches `{short(s_call)}`',
                            mod, qn, c, f'{d} opens the temporary {P.show_all(tmp)} keeping its contents, and no truncating open / removal of it comes first on every path: '
                            f'a {P.show_all(tmp)} left behind by a run killed before `{short(s_call)}` is extended (or makes an exclusive create fail) and the result is '
                            f'published as {P.show_all(dst)} - the regenerated file holds the old and the new text and the follow-up `meson setup --reconfigure` cannot repair it', c)
            if not any(k == 'keep' for c, k, d in events):
                ctx.ok(f'{qn}: every open of the temporary {P.show_all(tmp)} of `{short(s_call)}` truncates it')
    if n_pub == 0:
        raise Undecided(f'{NINJABACKEND}: no temp + os.replace publication found (build.ninja is generated some other way)')
    ctx.floor('temp + replace publications in the ninja backend', n_pub, 1)
    # built-in positive example (expected-zero clause)
    ex_rel = 'mesonbuild/_verif_c09_r11_example.py'
    ex = "import os\n\ndef _more(name):\n    return open(name, 'a')\n\ndef bad(out):\n    tmp = out + '~'\n    with _more(tmp) as f:\n        f.write('x')\n    os.replace(tmp, out)\n\n" \
         "def good(out):\n    tmp = out + '~'\n    with open(tmp, 'w') as f:\n        f.write('x')\n    with _more(tmp) as f:\n        f.write('y')\n    os.replace(tmp, out)\n"
    repo2 = Repo(ctx.repo.root, {ex_rel: ex})
    ps2 = PathSym(repo2)
    m2 = repo2.module(ex_rel)
    got = {}
    for q in ('bad', 'good'):
        r2 = FuncRef(m2, q)
        ren = [x for x in _sinks(r2.node, set()) if x.kind == 'rename'][0]
        e2, u2 = _temp_events(ps2, r2, ps2.resolve(r2, ren.src), ren.call)
        got[q] = (sorted(k for c, k, d in e2), u2)
    if got != {'bad': (['keep'], []), 'good': (['fresh', 'keep'], [])}:
        raise AnalysisError(f'C09.R11 built-in example not classified as expected: {got}')


RULES = [
    Rule('C09.R1', 'recovery-critical files are published atomically (temp + closed + os.replace), never opened in place', r1),
    Rule('C09.R2a', 'pickle_load converts truncated-pickle errors into MesonException', r2_pickle),
    Rule('C09.R2b', 'Environment.__init__ regenerates from cmd_line.txt on missing/unreadable coredata.dat', r2_environment),
    Rule('C09.R2c', 'readers of cmd_line.txt guard every section access', r2_cmdline),
    Rule('C09.R3', 'validate_dirs accepts a partial build directory (decision table)', r3),
    Rule('C09.R4a', 'state is published only while the DirectoryLock is held', r4_generate),
    Rule('C09.R4b', 'DirectoryLock is a kernel lock on an open descriptor, not a lock file', r4_lock),
    Rule('C09.R5', 'the recorded command line is replayed into the Interpreter', r5_replay),
    Rule('C09.R6', 'copies/reads of recovery-critical files in msetup survive their absence', r6_backup),
    Rule('C09.R7', 'files read back by the function that rewrites them in place are read tolerantly', r7_readback),
    Rule('C09.R8', 'the configure-command options are applied only to a loaded coredata', r8_loaded_only),
    Rule('C09.R9', 'Environment re-creates the sub-directories of the build directory on every run', r9_dirs),
    Rule('C09.R10', 'a read-only option is rejected only when its value changes (the interrupted command can be repeated)', r10_restated),
    Rule('C09.R11', 'the temporary of build.ninja is created afresh before anything is appended to it', r11_fresh_temp),
]
