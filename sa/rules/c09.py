"""C09 — a killed command never bricks the build directory (DESIGN §2 C09, Appendix A.10)."""
from __future__ import annotations

import ast
import typing as T

from ..core import (AnalysisError, Module, Repo, Undecided, attr_chain, call_method, call_name, chains_in, kwarg, norm, short,
                    walk_no_nested)
from ..cfg import CFG, Node
from ..paths import enumerate_paths
from ..report import Rule, RuleCtx
from .. import tables
from ..tables import Atom
from . import c09_pathsym as P
from .c09_pathsym import FuncRef, PathSym, Term, Terms

CMDLINE = 'mesonbuild/cmdline.py'
COREDATA = 'mesonbuild/coredata.py'
MSETUP = 'mesonbuild/msetup.py'
ENVIRONMENT = 'mesonbuild/environment.py'
UNIVERSAL = 'mesonbuild/utils/universal.py'
PLATFORM = 'mesonbuild/utils/platform.py'

EXPLANATION = (
    'Decides structural necessary conditions of C09 (crash points themselves are not enumerated): '
    'R1 the state files a follow-up `meson setup` reads from meson-private (derived from the readers reachable from '
    'Environment.__init__ / MesonApp.__init__ / MesonApp._generate: coredata.dat, cmd_line.txt) are never opened for writing '
    'under their own name anywhere in mesonbuild/; every os.replace/os.rename onto them takes a different sibling name whose '
    'writer has been closed on every path and overwrites a leftover temporary (mode w, never x/a, unless removed first); they are never the *source* of a rename/move and are unlinked only inside an exception '
    'handler after which every path re-raises (file names folded symbolically through locals, helpers and callers); '
    'R2 pickle_load converts what a truncated pickle raises (UnpicklingError, EOFError) into MesonException, '
    'Environment.__init__ answers FileNotFoundError / MesonException from coredata.load by regenerating (replaying cmd_line.txt '
    'when present), and the readers of cmd_line.txt never index a section of the parsed file without a presence guard; '
    'R3 the decision table of MesonApp.validate_dirs equals the reference (meson-private without coredata.dat is accepted, '
    '--wipe refused only without meson-private); R4 _generate runs only inside `with DirectoryLock(...)` and both DirectoryLock '
    'implementations acquire through a kernel primitive on the open descriptor (flock/locking), failure to acquire being decided '
    'by that primitive only.  NOT decided: recoverability at each individual crash point, fsync/durability, torn *text* in '
    'cmd_line.txt (configparser.Error / literal_eval on a half-written line; unreachable once R1 holds).')
ASSUMPTIONS = [
    'os.replace/os.rename within one directory is atomic; a killed process loses no page cache (fsync not required)',
    'a strict prefix of a pickle stream makes pickle.load raise UnpicklingError or EOFError (probed once on every prefix of a sample)',
    'fcntl.flock / msvcrt.locking locks die with the descriptor, i.e. with the process',
    'file names that are not built from constants (directory listings, user input) cannot name the protected files',
    'quick tier, R1 scope: a file of mesonbuild/ is parsed only if its text spells a protected base name or the identifier of a '
    'function/constant found to yield one (iterated to a fixpoint); the thorough tier parses every file',
]
TECHNIQUE = ('who-may-write over file names folded by flow-insensitive def-use (constants, os.path.join/+ shapes, callee return and '
             'argument-binding summaries; no statement is executed, no branch evaluated) + CFG must-pass/edge reachability (with-exit before '
             'replace, presence-test edges, exception edges of the lock primitive) + path enumeration of handler bodies + decision table '
             'over canonical atoms with world enumeration (validate_dirs)')

REFERENCE_PROTECTED = ('coredata.dat', 'cmd_line.txt')    # A.10; cross-checked against the derived reader set on every run
PRIVATE_DIR = 'meson-private'

OPEN_FUNCS = {'open', 'io.open', 'codecs.open'}
COPY_FUNCS = {'shutil.copy', 'shutil.copyfile', 'shutil.copy2'}
RENAME_FUNCS = {'os.replace', 'os.rename', 'shutil.move'}


# ---------------------------------------------------------------------------
# sinks

class Sink(T.NamedTuple):
    kind: str                 # 'write' | 'read' | 'copy' | 'rename' | 'remove'
    call: ast.Call
    path: T.Optional[ast.AST]     # destination / opened path
    src: T.Optional[ast.AST]      # rename/copy source
    mode: T.Optional[str]         # for write/read; None = not a constant


def _mode_of(call: ast.Call, pos: int) -> T.Tuple[bool, T.Optional[str]]:
    m = call.args[pos] if len(call.args) > pos else kwarg(call, 'mode')
    if m is None:
        return True, 'r'
    if isinstance(m, ast.Constant) and isinstance(m.value, str):
        return True, m.value
    return False, None


def _sinks(fn: ast.AST, parser_names: T.Set[str]) -> T.List[Sink]:
    out: T.List[Sink] = []
    for n in walk_no_nested(fn):
        if not isinstance(n, ast.Call):
            continue
        cn = call_name(n)
        meth = call_method(n)
        if cn in OPEN_FUNCS:
            p = n.args[0] if n.args else kwarg(n, 'file')
            ok, mode = _mode_of(n, 1)
            kind = 'read' if (ok and mode is not None and not set(mode) & set('wax+')) else 'write'
            out.append(Sink(kind, n, p, None, mode if ok else None))
        elif cn == 'os.open':
            flags = n.args[1] if len(n.args) > 1 else None
            w = flags is not None and any(c.split('.')[-1] in ('O_WRONLY', 'O_RDWR', 'O_CREAT', 'O_TRUNC', 'O_APPEND') for c in chains_in(flags))
            excl = flags is not None and any(c.split('.')[-1] == 'O_EXCL' for c in chains_in(flags))
            trunc = flags is not None and any(c.split('.')[-1] == 'O_TRUNC' for c in chains_in(flags))
            out.append(Sink('write' if w else 'read', n, n.args[0] if n.args else None, None, ('x' if excl else 'w' if trunc else 'r+') if w else 'r'))
        elif cn in COPY_FUNCS:
            if len(n.args) >= 2:
                out.append(Sink('copy', n, n.args[1], n.args[0], None))
        elif cn in RENAME_FUNCS:
            if len(n.args) >= 2:
                out.append(Sink('rename', n, n.args[1], n.args[0], None))
        elif cn in ('os.unlink', 'os.remove'):
            if n.args:
                out.append(Sink('remove', n, n.args[0], None, None))
        elif isinstance(n.func, ast.Attribute):
            recv = n.func.value
            if meth == 'open' and cn not in ('os.open',) and not (isinstance(recv, ast.Name) and recv.id in ('os', 'gzip', 'bz2', 'lzma', 'tarfile', 'zipfile', 'webbrowser', 'codecs', 'io')):
                ok, mode = _mode_of(n, 0)
                kind = 'read' if (ok and mode is not None and not set(mode) & set('wax+')) else 'write'
                out.append(Sink(kind, n, recv, None, mode if ok else None))
            elif meth in ('write_text', 'write_bytes'):
                out.append(Sink('write', n, recv, None, 'w'))
            elif meth in ('read_text', 'read_bytes') and not n.args:
                out.append(Sink('read', n, recv, None, 'r'))
            elif meth in ('replace', 'rename') and len(n.args) == 1 and not n.keywords:
                out.append(Sink('rename', n, n.args[0], recv, None))
            elif meth == 'unlink' and not n.args:
                out.append(Sink('remove', n, recv, None, None))
            elif meth == 'read' and isinstance(recv, ast.Name) and recv.id in parser_names and n.args:
                out.append(Sink('read', n, n.args[0], None, 'r'))
    return out


def _parser_locals(ps: PathSym, mod: Module, fn: ast.AST) -> T.Set[str]:
    """Locals bound to a configparser object: `x = C()` with C (a subclass of) configparser.*ConfigParser."""
    out: T.Set[str] = set()
    for n in walk_no_nested(fn):
        if isinstance(n, (ast.Assign, ast.AnnAssign)) and isinstance(n.value, ast.Call):
            cn = attr_chain(n.value.func)
            if not cn:
                continue
            is_parser = cn.split('.')[-1].endswith('ConfigParser')
            if not is_parser:
                rc = ps.resolve_class(mod, cn)
                if rc is not None:
                    for m2, c2 in ps.mro(rc[0], rc[1]):
                        if any((attr_chain(b) or '').split('.')[-1].endswith('ConfigParser') for b in c2.bases):
                            is_parser = True
            if is_parser:
                tg = n.targets if isinstance(n, ast.Assign) else [n.target]
                for t in tg:
                    if isinstance(t, ast.Name):
                        out.add(t.id)
    return out


def _prot_base(t: Term, prot: T.Iterable[str]) -> T.Optional[str]:
    b = P.basename(t)
    return b if b in set(prot) else None


def _mentions(t: Term, prot: T.Iterable[str]) -> bool:
    ps = set(prot)
    return any(c.rsplit('/', 1)[-1] in ps for c in P.consts_in(t))


# ---------------------------------------------------------------------------
# R1 machinery

class Rec(T.NamedTuple):
    kind: str            # 'inplace' | 'publish-ok' | 'publish-bad' | 'remove'
    ref: FuncRef
    node: ast.AST
    base: str
    text: str


class Scan:
    """Forward propagation of protected file names: functions that build such a name (a literal, a helper returning one, a
    parameter bound to one by a caller) are analysed; every write/rename sink in them is classified."""

    def __init__(self, repo: Repo, scope: T.List[str], prot: T.Sequence[str], exact: bool = True):
        self.repo = repo
        self.exact = exact
        self.carriers: T.Set[str] = set()
        self.parsed: T.List[str] = []
        self.ps = PathSym(repo)
        self.scope = scope
        self.prot = tuple(prot)
        self.recs: T.List[Rec] = []
        self.undecided: T.List[str] = []
        self.analysed: T.List[str] = []
        self._seen: T.Set[T.Tuple[str, T.Tuple[T.Tuple[str, Terms], ...]]] = set()
        self._recorded: T.Set[T.Tuple[str, int, str]] = set()
        self.functions = 0

    def _module_facts(self, rel: str) -> T.List[T.Tuple[FuncRef, T.Set[str], T.Set[str]]]:
        facts = []
        mod = self.repo.module(rel)
        for qn, fn in mod.funcs().items():
            lits: T.Set[str] = set()
            names: T.Set[str] = set()
            for n in walk_no_nested(fn):
                if isinstance(n, ast.Constant) and isinstance(n.value, str):
                    if len(n.value) < 200:
                        lits.add(n.value.rsplit('/', 1)[-1])
                elif isinstance(n, ast.Name):
                    names.add(n.id)
                elif isinstance(n, ast.Attribute):
                    names.add(n.attr)
            facts.append((FuncRef(mod, qn), lits, names))
            self.functions += 1
        # module-level constants holding a protected name
        prot = set(self.prot)
        for st in mod.tree.body:
            if isinstance(st, (ast.Assign, ast.AnnAssign)) and st.value is not None:
                if any(isinstance(c, ast.Constant) and isinstance(c.value, str) and c.value.rsplit('/', 1)[-1] in prot for c in ast.walk(st.value)):
                    for t in (st.targets if isinstance(st, ast.Assign) else [st.target]):
                        if isinstance(t, ast.Name):
                            self.carriers.add(t.id)
        return facts

    def run(self) -> None:
        """`exact`: every file of the scope is parsed.  Otherwise (quick tier) a file is parsed only if its text contains a
        protected base name or the identifier of a carrier (a function / constant yielding such a name) - a function that
        names a protected file must spell one of these - iterated until no new carrier appears."""
        prot = set(self.prot)
        texts = {rel: self.repo.read(rel) for rel in self.scope}
        loaded: T.Dict[str, T.List[T.Tuple[FuncRef, T.Set[str], T.Set[str]]]] = {}
        interesting: T.Dict[str, FuncRef] = {}
        for _ in range(8):
            toks = prot | self.carriers
            for rel in self.scope:
                if rel not in loaded and (self.exact or any(t in texts[rel] for t in toks)):
                    loaded[rel] = self._module_facts(rel)
            before = len(self.carriers)
            changed = True
            while changed:
                changed = False
                for facts in loaded.values():
                    for ref, lits, names in facts:
                        key = repr(ref)
                        if key in interesting:
                            continue
                        if lits & prot or names & self.carriers:
                            interesting[key] = ref
                            changed = True
                            rets = self.ps.returns(ref, {}, 2)
                            if any(_mentions(t, prot) for t in rets):
                                self.carriers.add(ref.qn.rsplit('.', 1)[-1])
            if len(self.carriers) == before and (self.exact or all(rel in loaded or not any(t in texts[rel] for t in self.carriers) for rel in self.scope)):
                break
        self.parsed = sorted(loaded)
        for ref in interesting.values():
            self.analyse(ref, {}, 3)

    # ------------------------------------------------------------------
    def analyse(self, ref: FuncRef, env: T.Dict[str, Terms], depth: int) -> None:
        key = (repr(ref), tuple(sorted(env.items(), key=lambda kv: kv[0])))
        if key in self._seen:
            return
        self._seen.add(key)
        self.analysed.append(repr(ref) + (f' [{", ".join(k + "=" + P.show_all(v) for k, v in env.items())}]' if env else ''))
        fn = ref.node
        ps = self.ps
        sinks = _sinks(fn, set())
        cfg: T.Optional[CFG] = None
        writes: T.List[T.Tuple[Sink, Terms]] = []
        for s in sinks:
            if s.kind == 'write' and s.path is not None:
                writes.append((s, ps.resolve(ref, s.path, env)))
        for s in sinks:
            # a protected file must never be moved away: between that rename and the next publication it does not exist
            if s.kind == 'rename' and s.src is not None:
                srcs = ps.resolve(ref, s.src, env)
                moved = sorted({b for b in (_prot_base(t, self.prot) for t in srcs) if b})
                if moved:
                    if len(moved) > 1 or any(_prot_base(t, self.prot) is None for t in srcs):
                        self.undecided.append(f'{ref.mod.rel}:{ref.qn}: source of `{short(s.call)}` may or may not name {moved}: {P.show_all(srcs)}')
                    else:
                        self._rec('moved-away', ref, s.call, moved[0],
                                  f'renames {P.show_all(srcs)} away: until it is published again {moved[0]} does not exist, a kill in that window '
                                  f'leaves the build directory without it (back it up by copying instead)')
        for s in sinks:
            if s.path is None:
                continue
            dst = ps.resolve(ref, s.path, env)
            hit = sorted({b for b in (_prot_base(t, self.prot) for t in dst) if b})
            if not hit:
                continue
            where = f'{ref.mod.rel}:{ref.qn}'
            if len(hit) > 1 or (len(dst) > 1 and s.kind in ('write', 'copy', 'rename') and any(_prot_base(t, self.prot) is None for t in dst)):
                self.undecided.append(f'{where}: `{short(s.call)}` may or may not name {hit}: {P.show_all(dst)}')
                continue
            base = hit[0]
            if s.kind == 'read':
                continue
            if s.kind == 'remove':
                # allowed only as a rollback: inside an exception handler, and no normal return is reachable after it
                pm = ref.mod.parent_map()
                cur: T.Optional[ast.AST] = s.call
                in_handler = False
                while cur is not None and cur is not fn:
                    if isinstance(cur, ast.ExceptHandler):
                        in_handler = True
                    cur = pm.get(cur)
                cfg = cfg or CFG(fn)
                at = cfg.node_containing(s.call)
                if not at:
                    self.undecided.append(f'{where}: `{short(s.call)}` is not in the CFG')
                    continue
                reraises = all(not cfg.can_reach(n, cfg.exit_return) for n in at)
                if in_handler and reraises:
                    self._rec('remove-ok', ref, s.call, base, f'removes {P.show_all(dst)} only as a rollback: inside an exception handler, every path after it re-raises')
                else:
                    why = 'outside an exception handler' if not in_handler else 'in a handler that can return normally'
                    self._rec('remove-bad', ref, s.call, base, f'removes {P.show_all(dst)} {why}: until it is published again {base} does not exist, '
                              f'a kill in that window leaves the build directory without it')
                continue
            if s.kind == 'write':
                if s.mode is None:
                    self.undecided.append(f'{where}: `{short(s.call)}` opens {base} with a non-constant mode')
                    continue
                self._rec('inplace', ref, s.call, base,
                          f'opens {P.show_all(dst)} with mode {s.mode!r}: {base} is truncated/modified under its own name; '
                          f'a kill between this open and the end of the write leaves it empty or partial')
                continue
            if s.kind == 'copy':
                self._rec('inplace', ref, s.call, base, f'copies onto {P.show_all(dst)} in place (not atomic)')
                continue
            # rename: publication
            assert s.src is not None
            src = ps.resolve(ref, s.src, env)
            if len(src) != 1 or len(dst) != 1:
                self.undecided.append(f'{where}: `{short(s.call)}`: source/destination are not single names: {P.show_all(src)} -> {P.show_all(dst)}')
                continue
            (st,), (dt,) = tuple(src), tuple(dst)
            if st == dt or P.basename(st) == base and P.dirname(st) == P.dirname(dt):
                self._rec('publish-bad', ref, s.call, base, f'renames {P.show(st)} onto itself')
                continue
            sd, dd = P.dirname(st), P.dirname(dt)
            if sd is None or dd is None:
                self.undecided.append(f'{where}: `{short(s.call)}`: cannot decide whether {P.show(st)} is a sibling of {P.show(dt)}')
                continue
            if sd != dd:
                self._rec('publish-bad', ref, s.call, base,
                          f'the temporary {P.show(st)} is not in the directory of {P.show(dt)}: the rename is not an atomic same-directory publication')
                continue
            # the writer of the temporary must be closed on every path to the rename
            mine = [w for w, terms in writes if st in terms]
            problems: T.List[str] = []
            if mine:
                cfg = cfg or CFG(fn)
                pn = cfg.node_containing(s.call)
                if len(pn) != 1:
                    self.undecided.append(f'{where}: `{short(s.call)}` is not a single CFG node')
                    continue
                for w in mine:
                    problems += self._closed_before(ref, cfg, w, pn[0])
                    self._temp_mode(ref, cfg, w, st, base, env, sinks)
            if problems:
                self._rec('publish-bad', ref, s.call, base, '; '.join(problems))
            else:
                how = f'{len(mine)} writer(s) of the temporary closed on every path before it' if mine else 'source written elsewhere (complete file)'
                self._rec('publish-ok', ref, s.call, base, f'{P.show(st)} -> {P.show(dt)}: sibling name, {how}')
        # propagate protected names into repository callees
        if depth <= 0:
            return
        for n in walk_no_nested(fn):
            if not isinstance(n, ast.Call) or not (n.args or n.keywords):
                continue
            # cheap pre-test: some argument must be able to carry a protected name
            argsets = [ps.resolve(ref, a, env) for a in n.args if not isinstance(a, ast.Starred)] + \
                      [ps.resolve(ref, k.value, env) for k in n.keywords if k.arg]
            if not any(_mentions(t, self.prot) for ts in argsets for t in ts):
                continue
            callee = ps.resolve_callee(ref, n)
            if callee is None:
                continue
            env2 = ps.bind_args(callee, n, ref, env, 2, frozenset())
            env2 = {k: v for k, v in env2.items() if any(_mentions(t, self.prot) for t in v)}
            if env2:
                self.analyse(callee, env2, depth - 1)

    def _rec(self, kind: str, ref: FuncRef, node: ast.AST, base: str, text: str) -> None:
        k = (repr(ref), id(node), kind)
        if k in self._recorded:
            return
        self._recorded.add(k)
        self.recs.append(Rec(kind, ref, node, base, text))

    def _temp_mode(self, ref: FuncRef, cfg: CFG, w: Sink, st: Term, base: str, env: T.Dict[str, Terms], sinks: T.List[Sink]) -> None:
        """The temporary may be a leftover of a killed run: its writer must replace it ('w'), not require its absence ('x'),
        not extend it ('a', 'r+') - unless the leftover is removed on every path to the open."""
        where = f'{ref.mod.rel}:{ref.qn}'
        if w.mode is None:
            self.undecided.append(f'{where}: `{short(w.call)}` opens the temporary of {base} with a non-constant mode')
            return
        if 'w' in w.mode:
            self._rec('temp-mode-ok', ref, w.call, base, f'opens the temporary {P.show(st)} with mode {w.mode!r}: a leftover of a killed run is overwritten')
            return
        at = cfg.node_containing(w.call)
        removes = [n for r in sinks if r.kind == 'remove' and r.path is not None and self.ps.resolve(ref, r.path, env) == frozenset([st])
                   for n in cfg.node_containing(r.call)]

        def edge_ok(a: Node, b: Node, lab: T.Any) -> bool:
            # `if os.path.exists(tmp):` false edge: there is no leftover
            if a.kind == 'test' and lab is False and isinstance(a.ast.test, ast.Call) and call_name(a.ast.test) in ('os.path.exists', 'os.path.isfile', 'os.path.lexists') \
                    and a.ast.test.args and self.ps.resolve(ref, a.ast.test.args[0], env) == frozenset([st]):   # type: ignore[union-attr]
                return False
            return True
        reach = cfg.reachable([cfg.entry], avoid=removes, edge_ok=edge_ok)
        if removes and at and not any(n.id in reach for n in at):
            self._rec('temp-mode-ok', ref, w.call, base, f'opens the temporary {P.show(st)} with mode {w.mode!r} after removing a leftover on every path')
            return
        effect = 'fails with FileExistsError' if 'x' in w.mode else ('appends to the leftover, which is then published' if 'a' in w.mode else 'does not create/replace it')
        self._rec('temp-mode-bad', ref, w.call, base,
                  f'opens the temporary {P.show(st)} with mode {w.mode!r}: when a killed run left that file behind this {effect}, '
                  f'so every later write of {base} is wrong or impossible until the leftover is deleted by hand (open it with \'w\', or remove it first)')

    def _closed_before(self, ref: FuncRef, cfg: CFG, w: Sink, pub: Node) -> T.List[str]:
        """Every path from the open of the temporary to the rename passes the close of the file."""
        owner = None
        for n in walk_no_nested(ref.node):
            if isinstance(n, (ast.With, ast.AsyncWith)) and any(any(x is w.call for x in ast.walk(i.context_expr)) for i in n.items):
                owner = n
        if owner is not None:
            enters = [n for n in cfg.nodes if n.kind == 'with_enter' and n.ast is owner]
            exits = [n for n in cfg.nodes if n.kind == 'with_exit' and n.ast is owner]
            if not enters:
                raise Undecided(f'{ref}: with-statement of `{short(w.call)}` not in the CFG')
            bad = []
            if any(cfg.can_reach(e, pub, avoid=exits) for e in enters):
                bad.append(f'`{short(pub.ast)}` is reachable while `{short(w.call)}` is still open (rename inside the with-block: '
                           f'a partial, unflushed file is published)')
            elif not any(cfg.can_reach(x, pub) for x in exits):
                bad.append(f'`{short(pub.ast)}` is not reached after `{short(w.call)}` is closed (published before written)')
            return bad
        # f = open(...); ...; f.close()
        opens = cfg.node_containing(w.call)
        if len(opens) != 1 or not isinstance(opens[0].ast, ast.Assign) or not isinstance(opens[0].ast.targets[0], ast.Name):
            raise Undecided(f'{ref}: `{short(w.call)}` is neither a with-item nor bound to a local')
        name = opens[0].ast.targets[0].id
        closes = cfg.nodes_with_call(lambda c: call_method(c) == 'close' and isinstance(c.func, ast.Attribute) and norm(c.func.value) == name)
        if cfg.can_reach(opens[0], pub, avoid=closes):
            return [f'`{short(pub.ast)}` is reachable from `{short(w.call)}` without {name}.close()']
        return []


def _derive_protected(ctx: RuleCtx, ps: PathSym) -> T.Dict[str, T.List[str]]:
    """Constant-named files under meson-private that the recovery entry points read (depth <= 2 through repository callees)."""
    roots = [(ENVIRONMENT, 'Environment.__init__'), (MSETUP, 'MesonApp.__init__'), (MSETUP, 'MesonApp._generate')]
    found: T.Dict[str, T.List[str]] = {}
    seen: T.Set[T.Tuple[str, T.Tuple[T.Any, ...]]] = set()

    def visit(ref: FuncRef, env: T.Dict[str, Terms], depth: int, via: str) -> None:
        key = (repr(ref), tuple(sorted(env.items(), key=lambda kv: kv[0])))
        if key in seen:
            return
        seen.add(key)
        fn = ref.node
        for s in _sinks(fn, _parser_locals(ps, ref.mod, fn)):
            if s.kind != 'read' or s.path is None:
                continue
            for t in ps.resolve(ref, s.path, env, depth=2):
                if t[0] == 'join' and len(t[1]) >= 2 and t[1][-2] == P.const(PRIVATE_DIR) and t[1][-1][0] == 'const':
                    found.setdefault(t[1][-1][1], []).append(f'{via}{ref.qn}: {short(s.call)}')
        if depth <= 0:
            return
        for n in walk_no_nested(fn):
            if isinstance(n, ast.Call):
                callee = ps.resolve_callee(ref, n)
                if callee is not None and callee.mod.rel.startswith('mesonbuild/') and callee.qn != ref.qn:
                    env2 = ps.bind_args(callee, n, ref, env, 2, frozenset())
                    env2 = {k: v for k, v in env2.items() if any(c for t in v for c in P.consts_in(t))}
                    visit(callee, env2, depth - 1, f'{via}{ref.qn} -> ')
    for rel, qn in roots:
        visit(FuncRef(ctx.repo.module(rel), qn), {}, 2, '')
    return found


_EXAMPLE_REL = 'mesonbuild/__c09_selfexample__.py'
_EXAMPLE = '''
import os, shutil

def _name(build_dir):
    return os.path.join(build_dir, 'meson-private', 'cmd_line.txt')

def inplace(build_dir, text):
    filename = _name(build_dir)
    with open(filename, 'w', encoding='utf-8') as f:
        f.write(text)

def _emit(filename, text):
    with open(filename, 'a') as f:
        f.write(text)

def inplace_via_helper(build_dir, text):
    _emit(_name(build_dir), text)

def early(build_dir, text):
    filename = _name(build_dir)
    tmp = filename + '~'
    with open(tmp, 'w') as f:
        f.write(text)
        os.replace(tmp, filename)

def good(build_dir, text):
    filename = _name(build_dir)
    tmp = filename + '~'
    with open(tmp, 'w') as f:
        f.write(text)
    os.replace(tmp, filename)

def exclusive_temp(build_dir, text):
    filename = _name(build_dir)
    tmp = filename + '~'
    with open(tmp, 'x') as f:
        f.write(text)
    os.replace(tmp, filename)

def backup_by_rename(build_dir):
    filename = _name(build_dir)
    os.rename(filename, filename + '.prev')

def unlink_first(build_dir):
    os.unlink(_name(build_dir))

def rollback(build_dir, work):
    try:
        work()
    except Exception:
        os.unlink(_name(build_dir))
        raise
'''


def _self_example(ctx: RuleCtx) -> None:
    """Expected-zero clauses carry a built-in positive example that must match on every run."""
    repo = Repo(ctx.repo.root, {_EXAMPLE_REL: _EXAMPLE})
    sc = Scan(repo, [_EXAMPLE_REL], REFERENCE_PROTECTED)
    sc.run()
    got = sorted((r.kind, r.ref.qn) for r in sc.recs)
    want = sorted([('inplace', 'inplace'), ('inplace', '_emit'), ('publish-bad', 'early'), ('publish-ok', 'good'),
                   ('temp-mode-ok', 'good'), ('temp-mode-ok', 'early'), ('publish-ok', 'exclusive_temp'), ('temp-mode-bad', 'exclusive_temp'),
                   ('moved-away', 'backup_by_rename'), ('remove-bad', 'unlink_first'), ('remove-ok', 'rollback')])
    if got != want or sc.undecided:
        raise AnalysisError(f'C09.R1 built-in example not classified as expected: {got} {sc.undecided}')
    ctx.note('built-in example: in-place open (direct and through a helper parameter), rename inside the with-block, a correct temp+replace, '
             'backup by rename, unlink outside a handler and a re-raising rollback are classified as expected')


def _scope(ctx: RuleCtx) -> T.List[str]:
    return [f for f in ctx.repo.py_files('mesonbuild') if f != _EXAMPLE_REL]


def r1(ctx: RuleCtx) -> None:
    _self_example(ctx)
    ps = PathSym(ctx.repo)
    derived = _derive_protected(ctx, ps)
    for b in REFERENCE_PROTECTED:
        if b not in derived:
            raise Undecided(f'no reader of meson-private/{b} found from Environment.__init__ / MesonApp.__init__ / MesonApp._generate: '
                            f'the recovery-critical set cannot be derived (found {sorted(derived)})')
    prot = sorted(derived)
    for b in prot:
        ctx.note(f'recovery-critical: meson-private/{b} (read by {"; ".join(sorted(set(derived[b]))[:3])})')
    ctx.floor('recovery-critical files derived from the readers', len(prot), 2)
    sc = Scan(ctx.repo, _scope(ctx), prot, exact=ctx.thorough)
    sc.run()
    ctx.note(f'scope {len(sc.scope)} files; parsed {len(sc.parsed)} ({"all" if sc.exact else "those whose text spells a protected name or a carrier: " + ", ".join(sorted(sc.carriers))}), '
             f'{sc.functions} functions; analysed {len(sc.analysed)} (function, binding) pairs that can name a protected file: '
             + '; '.join(sc.analysed))
    if sc.undecided:
        raise Undecided('; '.join(sc.undecided))
    per: T.Dict[str, int] = {b: 0 for b in prot}
    n = 0
    for r in sc.recs:
        where = f'{r.ref.mod.rel}:{r.ref.qn}'
        n += 1
        if r.kind == 'remove-ok':
            ctx.ok(f'{where}: `{short(r.node)}` {r.text} (the directory becomes a partial build, see R3)')
            continue
        if r.kind == 'temp-mode-ok':
            ctx.ok(f'{where}: `{short(r.node)}` {r.text}')
            continue
        if r.kind in ('remove-bad', 'moved-away', 'temp-mode-bad'):
            ctx.violation(r.ref.mod, r.ref.qn, r.node, f'{r.base} is recovery-critical but `{short(r.node)}` {r.text}', r.node)
            continue
        per[r.base] += 1
        if r.kind == 'publish-ok':
            ctx.ok(f'{where}: `{short(r.node)}` publishes {r.base} atomically: {r.text}')
        elif r.kind == 'inplace':
            ctx.violation(r.ref.mod, r.ref.qn, r.node, f'{r.base} is recovery-critical but `{short(r.node)}` {r.text}', r.node)
        else:
            ctx.violation(r.ref.mod, r.ref.qn, r.node, f'publication of {r.base} is not atomic: {r.text}', r.node)
    for b, k in per.items():
        if k == 0:
            raise Undecided(f'no writer of meson-private/{b} found in scope: the rule would pass vacuously')
    ctx.floor('writers/publishers of recovery-critical files', n, 3)


# ---------------------------------------------------------------------------
# R2

EXC_PARENT = {
    'KeyError': 'LookupError', 'IndexError': 'LookupError', 'LookupError': 'Exception', 'EOFError': 'Exception',
    'UnpicklingError': 'PickleError', 'PickleError': 'Exception', 'OSError': 'Exception', 'IOError': 'Exception',
    'FileNotFoundError': 'OSError', 'PermissionError': 'OSError', 'BlockingIOError': 'OSError', 'IsADirectoryError': 'OSError',
    'ValueError': 'Exception', 'TypeError': 'Exception', 'AttributeError': 'Exception', 'ImportError': 'Exception',
    'ModuleNotFoundError': 'ImportError', 'RuntimeError': 'Exception', 'Exception': 'BaseException',
    'NoSectionError': 'Error', 'Error': 'Exception',
}


def _repo_parents(repo: Repo, bare: str) -> T.List[str]:
    for rel in (COREDATA, 'mesonbuild/utils/core.py', UNIVERSAL, ENVIRONMENT):
        m = repo.module(rel)
        if m.has_cls(bare):
            return [(attr_chain(b) or '').split('.')[-1] for b in m.cls(bare).bases]
    return []


def _ancestors(repo: Repo, bare: str) -> T.List[str]:
    out = [bare]
    todo = [bare]
    while todo:
        c = todo.pop()
        ps = _repo_parents(repo, c) or ([EXC_PARENT[c]] if c in EXC_PARENT else [])
        for p in ps:
            if p and p not in out:
                out.append(p)
                todo.append(p)
    return out


def _handler_types(h: ast.ExceptHandler) -> T.List[str]:
    if h.type is None:
        return ['BaseException']
    ts = h.type.elts if isinstance(h.type, ast.Tuple) else [h.type]
    out = []
    for t in ts:
        c = attr_chain(t)
        if c is None:
            raise Undecided(f'exception handler type `{short(t)}` is not a name')
        out.append(c.split('.')[-1])
    return out


def _first_handler(repo: Repo, tr: ast.Try, exc: str) -> T.Optional[ast.ExceptHandler]:
    anc = _ancestors(repo, exc)
    for h in tr.handlers:
        if any(t in anc for t in _handler_types(h)):
            return h
    return None


def _tries_with_call(fn: ast.AST, pred: T.Callable[[ast.Call], bool]) -> T.List[T.Tuple[ast.Try, ast.Call]]:
    out = []
    for n in walk_no_nested(fn):
        if isinstance(n, ast.Try):
            for st in n.body:
                for c in walk_no_nested(st):
                    if isinstance(c, ast.Call) and pred(c):
                        out.append((n, c))
    # innermost try only
    inner = []
    for tr, c in out:
        if not any(tr2 is not tr and any(x is tr2 for x in ast.walk(tr)) for tr2, c2 in out if c2 is c):
            inner.append((tr, c))
    return inner


def _raised_class(v: T.Optional[ast.AST]) -> T.Optional[str]:
    if v is None:
        return None
    if isinstance(v, ast.Call):
        v = v.func
    c = attr_chain(v)
    return c.split('.')[-1] if c else None


TRUNCATED_PICKLE_RAISES = ('UnpicklingError', 'EOFError')


def r2_pickle(ctx: RuleCtx) -> None:
    mod = ctx.repo.module(UNIVERSAL)
    fn = mod.func('pickle_load')
    imps = mod.imports()

    def is_load(c: ast.Call) -> bool:
        cn = call_name(c)
        return cn == 'pickle.load' or (cn == 'load' and imps.get('load', '').startswith('pickle'))
    tries = _tries_with_call(fn, is_load)
    loads = [c for c in walk_no_nested(fn) if isinstance(c, ast.Call) and is_load(c)]
    ctx.floor('pickle.load call sites in pickle_load', len(loads), 1)
    for c in loads:
        tr = [t for t, c2 in tries if c2 is c]
        for exc in TRUNCATED_PICKLE_RAISES:
            h = _first_handler(ctx.repo, tr[0], exc) if tr else None
            if h is None:
                ctx.violation(mod, 'pickle_load', c, f'{exc} raised by `{short(c)}` on a truncated file is not caught in pickle_load: it escapes as '
                              f'{exc} instead of the MesonException that Environment.__init__ answers by regenerating', c)
                continue
            paths = enumerate_paths(h.body)
            bad = []
            for p in paths:
                cls = _raised_class(p.value) if p.outcome == 'raise' else None
                if p.outcome != 'raise' or cls is None or 'MesonException' not in _ancestors(ctx.repo, cls):
                    bad.append(p.describe())
            ctx.require(not bad, f'pickle_load: {exc} from `{short(c)}` -> handler `except {short(h.type)}` raises MesonException on all {len(paths)} path(s)',
                        mod, 'pickle_load', h, f'the handler for {exc} does not end in `raise MesonException(...)` on: {bad}', h)


def r2_environment(ctx: RuleCtx) -> None:
    mod = ctx.repo.module(ENVIRONMENT)
    qn = 'Environment.__init__'
    fn = mod.func(qn)
    ref = FuncRef(mod, qn)
    ps = PathSym(ctx.repo)

    def is_core_load(c: ast.Call) -> bool:
        r = ps.resolve_callee(ref, c)
        return r is not None and r.mod.rel == COREDATA and r.qn == 'load'
    tries = _tries_with_call(fn, is_core_load)
    ctx.floor('coredata.load call sites in Environment.__init__', len(tries), 1)
    # what coredata.load can raise for a damaged / missing file, and the required reaction
    for tr, call in tries:
        # (1) coredata.dat missing -> fresh coredata
        h = _first_handler(ctx.repo, tr, 'FileNotFoundError')
        if h is None:
            ctx.violation(mod, qn, call, 'FileNotFoundError from coredata.load (meson-private without coredata.dat) is not handled', call)
        else:
            paths = enumerate_paths(h.body)
            bad = [p.describe() for p in paths if p.outcome != 'fall' or not any(call_method(c) == 'create_new_coredata' for c in p.calls())]
            ctx.require(not bad, 'Environment.__init__: missing coredata.dat -> create_new_coredata on every handler path', mod, qn, h,
                        f'handler of FileNotFoundError does not create a new coredata on: {bad}', h)
        # (2) unreadable coredata.dat -> MesonException -> regenerate from cmd_line.txt when present, else guided error
        h = _first_handler(ctx.repo, tr, 'MesonException')
        if h is None:
            ctx.violation(mod, qn, call, 'MesonException from coredata.load (unreadable coredata.dat) is not handled: the build directory stays unusable', call)
            continue
        if 'MesonException' not in _handler_types(h) and not set(_handler_types(h)) & {'Exception', 'BaseException'}:
            raise Undecided(f'handler chosen for MesonException is `{short(h.type)}`')
        paths = enumerate_paths(h.body, pure={'isfile', 'exists', 'get_cmd_line_file', 'join'})
        n_regen = n_err = 0
        for p in paths:
            present: T.Optional[bool] = None
            for ev in p.events:
                if ev.kind == 'cond' and isinstance(ev.node, ast.Call) and call_name(ev.node) in ('os.path.isfile', 'os.path.exists') and ev.node.args:
                    ts = ps.resolve(ref, ev.node.args[0])
                    if all(P.basename(t) == 'cmd_line.txt' for t in ts):
                        present = ev.val
            names = [call_method(c) for c in p.calls()]
            if p.outcome == 'fall':
                ok = 'read_cmd_line_file' in names and 'create_new_coredata' in names and \
                    names.index('read_cmd_line_file') < names.index('create_new_coredata') and present is not False
                n_regen += 1
                ctx.require(ok, f'Environment.__init__: unreadable coredata.dat, cmd_line.txt present -> read_cmd_line_file then create_new_coredata ({p.describe()})',
                            mod, qn, h, f'recovery path `{p.describe()}` does not replay cmd_line.txt before creating a new coredata (calls: {names})', h)
            elif p.outcome == 'raise':
                cls = _raised_class(p.value)
                ok = present is False and cls is not None and 'MesonException' in _ancestors(ctx.repo, cls)
                n_err += 1
                ctx.require(ok, 'Environment.__init__: unreadable coredata.dat and no cmd_line.txt -> guided MesonException', mod, qn, h,
                            f'path `{p.describe()}` raises although cmd_line.txt is present (or raises a non-Meson exception): recovery is refused', h)
            else:
                raise Undecided(f'Environment.__init__: handler path with outcome {p.outcome}')
        if n_regen == 0:
            ctx.violation(mod, qn, h, 'no path of the MesonException handler regenerates the configuration', h)


SECTION_READERS = {'items', 'options', 'get', 'getint', 'getfloat', 'getboolean'}


def _presence(test: ast.AST, label: bool, parser: str, key: str) -> bool:
    """Does `test` evaluating to `label` imply that section `key` exists in `parser`?"""
    if isinstance(test, ast.UnaryOp) and isinstance(test.op, ast.Not):
        return _presence(test.operand, not label, parser, key)
    if isinstance(test, ast.BoolOp):
        if isinstance(test.op, ast.And) and label:
            return any(_presence(v, True, parser, key) for v in test.values)
        if isinstance(test.op, ast.Or) and not label:
            return any(_presence(v, False, parser, key) for v in test.values)
        return False
    if isinstance(test, ast.Compare) and len(test.ops) == 1 and isinstance(test.left, ast.Constant) and test.left.value == key \
            and norm(test.comparators[0]) == parser:
        if isinstance(test.ops[0], ast.In):
            return label
        if isinstance(test.ops[0], ast.NotIn):
            return not label
    if isinstance(test, ast.Call) and call_name(test) == f'{parser}.has_section' and len(test.args) == 1 \
            and isinstance(test.args[0], ast.Constant) and test.args[0].value == key:
        return label
    return False


def _expr_guarded(mod: Module, fn: ast.AST, node: ast.AST, parser: str, key: str) -> bool:
    pm = mod.parent_map()
    child = node
    cur = pm.get(node)
    while cur is not None and cur is not fn and not isinstance(cur, ast.stmt):
        if isinstance(cur, ast.IfExp):
            if child is cur.body and _presence(cur.test, True, parser, key):
                return True
            if child is cur.orelse and _presence(cur.test, False, parser, key):
                return True
        elif isinstance(cur, ast.BoolOp):
            i = [k for k, v in enumerate(cur.values) if v is child]
            if i:
                want = isinstance(cur.op, ast.And)
                if any(_presence(v, want, parser, key) for v in cur.values[:i[0]]):
                    return True
        child = cur
        cur = pm.get(cur)
    # comprehension `if` clauses / statement-level tests are handled by the CFG part
    return False


def r2_cmdline(ctx: RuleCtx) -> None:
    mod = ctx.repo.module(CMDLINE)
    ps = PathSym(ctx.repo)
    readers = 0
    accesses = 0
    for qn, fn in mod.funcs().items():
        parsers = _parser_locals(ps, mod, fn)
        if not parsers:
            continue
        reads = [c for c in walk_no_nested(fn) if isinstance(c, ast.Call) and call_method(c) in ('read', 'read_file', 'read_string')
                 and isinstance(c.func, ast.Attribute) and norm(c.func.value) in parsers]
        if not reads:
            continue   # a parser that is only filled by this function has every section it stores
        readers += 1
        cfg = CFG(fn)
        for c in walk_no_nested(fn):
            if isinstance(c, ast.Call) and isinstance(c.func, ast.Attribute) and norm(c.func.value) in parsers \
                    and c.func.attr in ('remove_section', 'clear', 'pop', 'popitem'):
                raise Undecided(f'{qn}: `{short(c)}` removes sections; presence guards are not tracked across it')
        for n in walk_no_nested(fn):
            parser = key = None
            what = ''
            if isinstance(n, ast.Subscript) and isinstance(n.value, ast.Name) and n.value.id in parsers and isinstance(n.ctx, ast.Load):
                if not (isinstance(n.slice, ast.Constant) and isinstance(n.slice.value, str)):
                    raise Undecided(f'{qn}: section key of `{short(n)}` is not a constant')
                parser, key, what = n.value.id, n.slice.value, 'KeyError'
            elif isinstance(n, ast.Call) and isinstance(n.func, ast.Attribute) and isinstance(n.func.value, ast.Name) and n.func.value.id in parsers \
                    and n.func.attr in SECTION_READERS and n.args and kwarg(n, 'fallback') is None:
                if not (isinstance(n.args[0], ast.Constant) and isinstance(n.args[0].value, str)):
                    raise Undecided(f'{qn}: section argument of `{short(n)}` is not a constant')
                parser, key, what = n.func.value.id, n.args[0].value, 'configparser.NoSectionError'
            if parser is None or key is None:
                continue
            accesses += 1
            label = f'{qn}: `{short(n)}` (section {key!r} of the parsed cmd_line.txt)'
            if _expr_guarded(mod, fn, n, parser, key):
                ctx.ok(label + ' is guarded by a presence test in the same expression')
                continue
            at = cfg.node_containing(n)
            if not at:
                raise Undecided(f'{qn}: `{short(n)}` is not in the CFG (comprehension scope?)')
            unguarded = []
            for node in at:
                # caught locally?
                caught = False
                for b, lab in cfg.succ[node.id]:
                    hn = cfg.nodes[b]
                    if lab == 'exc' and hn.kind == 'handler':
                        anc = _ancestors(ctx.repo, 'KeyError' if what == 'KeyError' else 'NoSectionError')
                        if any(t in anc for t in _handler_types(hn.ast)):  # type: ignore[arg-type]
                            caught = True
                if caught:
                    continue
                # established on every path: a presence test edge, or a store `parser[key] = ...` / add_section(key)
                stores = [m for m in cfg.nodes if m.kind == 'stmt' and (
                    (isinstance(m.ast, ast.Assign) and any(isinstance(t, ast.Subscript) and norm(t.value) == parser and isinstance(t.slice, ast.Constant)
                                                           and t.slice.value == key for t in m.ast.targets)) or
                    any(isinstance(c, ast.Call) and call_name(c) == f'{parser}.add_section' and c.args and isinstance(c.args[0], ast.Constant)
                        and c.args[0].value == key for c in walk_no_nested(m.ast)))]

                def edge_ok(a: Node, b: Node, lab: T.Any) -> bool:
                    if a.kind == 'test' and lab in (True, False) and _presence(a.ast.test, lab, parser, key):  # type: ignore[union-attr,arg-type]
                        return False
                    return True
                reach = cfg.reachable([cfg.entry], avoid=stores, edge_ok=edge_ok)
                if node.id in reach:
                    unguarded.append(node)
            if unguarded:
                where = unguarded[0].expr() if unguarded[0].kind != 'with_enter' else n
                ctx.violation(mod, qn, where if where is not None else n, f'`{short(n)}` raises {what} when cmd_line.txt is present but has no [{key}] section (empty or short file after an '
                              f'interrupted write): no presence test (`{key!r} in {parser}` / has_section) dominates it and no handler converts it', n)
            else:
                ctx.ok(label + ' is dominated by a presence test / store of the section, or its error is handled')
    ctx.floor('functions that parse cmd_line.txt', readers, 2)
    ctx.floor('section accesses on a parsed cmd_line.txt', accesses, 3)


# ---------------------------------------------------------------------------
# R3

def r3(ctx: RuleCtx) -> None:
    mod = ctx.repo.module(MSETUP)
    qn = 'MesonApp.validate_dirs'
    fn = mod.func(qn)
    ref = FuncRef(mod, qn)
    ps = PathSym(ctx.repo)
    pure = {'exists', 'isdir', 'isfile', 'join', 'listdir', 'Path', 'is_dir', 'is_file'}
    tab = tables.extract(fn, pure=pure, name=qn)

    def classify(a: Atom) -> T.Optional[str]:
        if a.kind == 'in':
            l, r = a.args
            if l.startswith('Path(') and r.startswith('Path(') and r.endswith('.parents'):
                return 'parent'
            return None
        if a.kind != 'truth':
            return None
        try:
            e = ast.parse(a.args[0], mode='eval').body
        except SyntaxError:
            return None
        for _ in range(3):
            if isinstance(e, ast.Name):
                d = ps.local_defs(fn).get(e.id, [])
                if len(d) == 1 and d[0] is not None:
                    e = d[0]
                    continue
            break
        c = attr_chain(e)
        if c in ('self.options.reconfigure', 'self.options.wipe', 'self.options.cmd_line_options'):
            return c.split('.')[-1]
        if isinstance(e, ast.Call):
            cn = call_name(e)
            if cn == 'os.listdir':
                return 'nonempty'
            arg: T.Optional[ast.AST] = e.args[0] if e.args else None
            if cn is not None and cn.split('.')[-1] in ('is_dir', 'is_file', 'exists') and not e.args and isinstance(e.func, ast.Attribute):
                arg, cn = e.func.value, 'os.path.' + {'is_dir': 'isdir', 'is_file': 'isfile', 'exists': 'exists'}[cn.split('.')[-1]]
            if arg is None:
                return None
            ts = ps.resolve(ref, arg)
            if cn in ('os.path.exists', 'os.path.isfile') and all(t[0] == 'join' and len(t[1]) >= 2 and t[1][-2:] == (P.const(PRIVATE_DIR), P.const('coredata.dat')) for t in ts):
                return 'valid'
            if cn in ('os.path.isdir', 'os.path.exists') and all(t[0] == 'join' and t[1][-1] == P.const(PRIVATE_DIR) for t in ts):
                return 'partial'
        return None

    sem: T.Dict[Atom, str] = {}
    for a in tab.atoms():
        k = classify(a)
        if k is None:
            raise Undecided(f'{qn}: atom `{a!r}` is outside the reference vocabulary')
        sem[a] = k
    # a reference variable the code never tests is enumerated all the same: the code then gives one answer for both of
    # its values and the comparison shows for which of them that answer is wrong
    missing = [k for k in ('valid', 'partial', 'wipe', 'reconfigure') if k not in sem.values()]
    if 'valid' in missing:
        raise Undecided(f'{qn}: no test recognised as "coredata.dat exists" (atoms: {sorted(sem.values())})')

    def ref_outcome(v: T.Dict[str, bool]) -> str:
        if v.get('parent'):
            return 'raise MesonException'
        if 'nonempty' in v and not v['nonempty']:
            return 'return'
        if v['valid']:
            return 'return' if (v['reconfigure'] or v['wipe']) else 'raise SystemExit'
        if not v['partial'] and v['wipe']:
            return 'raise MesonException'
        return 'return'        # partial build (meson-private without coredata.dat) or a foreign non-empty directory: accepted

    n = 0
    bad: T.Dict[str, T.Tuple[tables.Row, str, str, T.Dict[str, bool]]] = {}
    import itertools
    for w, extra in itertools.product(list(tab.worlds()), list(itertools.product((False, True), repeat=len(missing)))):
        v = {sem[a]: x for a, x in w.items()}
        v.update(dict(zip(missing, extra)))
        if v.get('valid') and not v.get('partial'):
            continue       # coredata.dat lives inside meson-private
        rows = tab.fire(w)
        if len(rows) != 1:
            raise Undecided(f'{qn}: {len(rows)} rows fire in world {v}')
        r = rows[0]
        got = 'return' if r.outcome[0] == 'return' else ' '.join(str(x) for x in r.outcome)
        want = ref_outcome(v)
        n += 1
        if got != want:
            bad.setdefault(repr(r), (r, got, want, v))
    for key, (r, got, want, v) in bad.items():
        node = r.path.events[-1].node if r.path.events else fn
        ctx.violation(mod, qn, key, f'row `{key}` gives `{got}`; the reference (partial build directories are accepted; --wipe is refused only '
                      f'without meson-private) requires `{want}`, e.g. for {v}', node)
    if not bad:
        ctx.ok(f'{qn}: {len(tab.rows)} rows agree with the reference on {n} worlds (meson-private without coredata.dat is accepted)')
    ctx.floor('rows of validate_dirs', len(tab.rows), 7)
    ctx.note(f'{qn}: table {tab.dump()}')
    # returns hand back (source, build) unchanged in every accepting row
    rets = {r.outcome[1] for r in tab.rows if r.outcome[0] == 'return'}
    ctx.require(len(rets) == 1, f'{qn}: every accepting row returns the same pair {sorted(rets)}', mod, qn, fn, f'accepting rows return different values: {sorted(rets)}')


# ---------------------------------------------------------------------------
# R4

LOCK_PRIMS = {'fcntl.flock': ('LOCK_EX',), 'fcntl.lockf': ('LOCK_EX',), 'msvcrt.locking': ('LK_LOCK', 'LK_NBLCK')}
UNLOCK_FLAGS = ('LOCK_UN', 'LK_UNLCK')


def r4_generate(ctx: RuleCtx) -> None:
    files = _scope(ctx) if ctx.thorough else [MSETUP]
    sites = 0
    for rel in files:
        mod = ctx.repo.module(rel)
        for qn, fn in mod.funcs().items():
            calls = [c for c in walk_no_nested(fn) if isinstance(c, ast.Call) and call_method(c) == '_generate' and isinstance(c.func, ast.Attribute)]
            if rel != MSETUP and 'MesonApp' not in mod.src:
                continue    # another class's own `_generate`: only modules that can hold a MesonApp matter
            if not calls:
                continue
            cfg = CFG(fn)
            for c in calls:
                sites += 1
                defs = PathSym(ctx.repo).local_defs(fn)

                def is_lock(e: ast.AST) -> bool:
                    if isinstance(e, ast.Name):      # lock = DirectoryLock(...); with lock:
                        d = defs.get(e.id, [])
                        return len(d) == 1 and d[0] is not None and is_lock(d[0])
                    return isinstance(e, ast.Call) and (call_method(e) or '') == 'DirectoryLock'
                locks = [w for w in walk_no_nested(fn) if isinstance(w, (ast.With, ast.AsyncWith))
                         and any(is_lock(i.context_expr) for i in w.items)
                         and any(x is c for st in w.body for x in ast.walk(st))]
                ok = False
                for w in locks:
                    enters = [n for n in cfg.nodes if n.kind == 'with_enter' and n.ast is w]
                    at = cfg.node_containing(c)
                    ok = ok or (bool(at) and all(cfg.dominated_by_any(n, enters) for n in at))
                ctx.require(ok, f'{rel}:{qn}: `{short(c)}` runs inside `with DirectoryLock(...)` (dominated by its acquisition, inside its body)',
                            mod, qn, c, f'`{short(c)}` (which writes coredata.dat, build.dat, cmd_line.txt, build.ninja) is not inside a '
                            f'`with DirectoryLock(...)` block: two meson processes can interleave their writes', c)
    ctx.floor('call sites of MesonApp._generate', sites, 1)


def _flag_names(ps: PathSym, fn: ast.AST, e: ast.AST, depth: int = 0) -> T.Set[str]:
    out: T.Set[str] = set()
    for n in ast.walk(e):
        if isinstance(n, ast.Attribute):
            out.add(n.attr)
        elif isinstance(n, ast.Name) and depth < 3:
            for d in ps.local_defs(fn).get(n.id, []):   # type: ignore[arg-type]
                if d is not None:
                    out |= _flag_names(ps, fn, d, depth + 1)
    return out


def r4_lock(ctx: RuleCtx) -> None:
    mod = ctx.repo.module(PLATFORM)
    ps = PathSym(ctx.repo)
    impls = [q for q, c in mod.classes().items() if any((attr_chain(b) or '').split('.')[-1] == 'DirectoryLockBase' for b in c.bases)]
    ctx.floor('DirectoryLock implementations', len(impls), 2)
    for cq in impls:
        qn = f'{cq}.__enter__'
        fn = mod.func(qn)
        cfg = CFG(fn)
        label = f'{cq} (line {mod.cls(cq).lineno})'.replace(f' (line {mod.cls(cq).lineno})', '')
        # the descriptor
        opens = [n for n in walk_no_nested(fn) if isinstance(n, ast.Assign) and isinstance(n.value, ast.Call) and call_name(n.value) in OPEN_FUNCS
                 and any(attr_chain(t) == 'self.lockfile' for t in n.targets)]
        if not opens:
            raise Undecided(f'{qn}: no `self.lockfile = open(...)`')
        for o in opens:
            okm, mode = _mode_of(o.value, 1)  # type: ignore[arg-type]
            if not okm or mode is None:
                raise Undecided(f'{qn}: open mode of the lock file is not a constant')
            ctx.require('x' not in mode, f'{label}.__enter__: lock file opened with mode {mode!r} (its prior existence is irrelevant)', mod, qn, o.value,
                        f'the lock file is opened with mode {mode!r}: exclusive creation makes the *existence* of the file the lock, so a killed '
                        f'process leaves a stale lock behind', o)
        prims = []
        for n in cfg.nodes:
            e = n.expr()
            if e is None or n.kind != 'stmt':
                continue
            for c in walk_no_nested(e):
                if isinstance(c, ast.Call) and call_name(c) in LOCK_PRIMS:
                    if not c.args or not any(ch == 'self.lockfile' or ch.startswith('self.lockfile.') for ch in chains_in(c.args[0])):
                        raise Undecided(f'{qn}: `{short(c)}` does not operate on self.lockfile')
                    flags = _flag_names(ps, fn, c.args[1]) if len(c.args) > 1 else set()
                    if flags & set(UNLOCK_FLAGS):
                        continue
                    if not flags & set(LOCK_PRIMS[call_name(c) or '']):
                        ctx.violation(mod, qn, c, f'`{short(c)}` does not request an exclusive lock (flags {sorted(flags)})', c)
                        continue
                    prims.append((n, c))
        if not prims:
            ctx.violation(mod, qn, fn.name + ': no kernel lock', f'{label}.__enter__ never calls a kernel lock primitive ({", ".join(sorted(LOCK_PRIMS))}) on '
                          f'self.lockfile: the lock is not tied to the life of the process', fn)
            continue
        prim_nodes = [n for n, c in prims]
        # by-design unlocked returns: action IGNORE / optional
        def is_ignore(a: Node) -> bool:
            return a.kind == 'test' and any(ch.endswith('DirectoryLockAction.IGNORE') or ch == 'self.optional' for ch in chains_in(a.ast.test))  # type: ignore[union-attr]

        def edge_ok(a: Node, b: Node, lab: T.Any) -> bool:
            return not (is_ignore(a) and lab is True)
        reach = cfg.reachable([cfg.entry], avoid=prim_nodes, edge_ok=edge_ok)
        ctx.require(cfg.exit_return.id not in reach, f'{label}.__enter__: every normal return passes `{short(prims[0][1])}` (or is the IGNORE/optional opt-out)',
                    mod, qn, prims[0][1], f'__enter__ can return without having called `{short(prims[0][1])}` and without the IGNORE/optional opt-out: the caller '
                    f'proceeds unlocked', fn)
        # when the primitive raises, only IGNORE may continue
        handlers = [cfg.nodes[b] for n in prim_nodes for b, lab in cfg.succ[n.id] if lab == 'exc' and cfg.nodes[b].kind == 'handler']
        if not handlers:
            raise Undecided(f'{qn}: the lock primitive is not inside a try')
        reach_h = cfg.reachable(handlers, edge_ok=edge_ok)
        ctx.require(cfg.exit_return.id not in reach_h, f'{label}.__enter__: a failed `{short(prims[0][1])}` never returns normally except under IGNORE',
                    mod, qn, handlers[0].ast, 'a handler of the lock primitive returns normally without the IGNORE test: contention is silently ignored', handlers[0].ast)
        # "somebody else holds the lock" is decided by the kernel only
        errs = [n for n in cfg.nodes if n.kind == 'stmt' and isinstance(n.ast, ast.Raise) and n.ast.exc is not None
                and any(ch == 'self.err' for ch in chains_in(n.ast.exc))]
        ctx.floor(f'{label}: `raise MesonException(self.err)` sites', len(errs), 1)
        for en in errs:
            ctx.require(not cfg.can_reach(cfg.entry, en, avoid=handlers), f'{label}.__enter__: `{short(en.ast)}` is reachable only through a failure of the kernel primitive',
                        mod, qn, en.ast, f'`{short(en.ast)}` ("already in use") is reachable without the kernel primitive having failed: a leftover lock *file* '
                        f'of a killed process would block every later run', en.ast)


RULES = [
    Rule('C09.R1', 'recovery-critical files are published atomically (temp + closed + os.replace), never opened in place', r1),
    Rule('C09.R2a', 'pickle_load converts truncated-pickle errors into MesonException', r2_pickle),
    Rule('C09.R2b', 'Environment.__init__ regenerates from cmd_line.txt on missing/unreadable coredata.dat', r2_environment),
    Rule('C09.R2c', 'readers of cmd_line.txt guard every section access', r2_cmdline),
    Rule('C09.R3', 'validate_dirs accepts a partial build directory (decision table)', r3),
    Rule('C09.R4a', '_generate runs only under DirectoryLock', r4_generate),
    Rule('C09.R4b', 'DirectoryLock is a kernel lock on an open descriptor, not a lock file', r4_lock),
]
